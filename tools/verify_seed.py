#!/usr/bin/env python3
"""Confirm a candidate seeded change before it is kept under seeded/<id>/.

    python3 tools/verify_seed.py /tmp/seed_out/C33_a [--keep-as C33_a] [--no-tests]

In a scratch worktree of /repo (removed afterwards):
  1. demo.py on the pristine tree must exit 0,
  2. the patch must apply, porepy must import,
  3. demo.py with the patch must exit non-zero,
  4. the test files named in meta.json (tests_run) must pass with the patch.
With --keep-as the directory is copied to /verif/seeded/<id>/ and meta.json is extended
with what was run here.
"""
from __future__ import annotations

import argparse
import json
import os
import re
import shutil
import subprocess
import sys
from pathlib import Path

ROOT = Path(__file__).resolve().parent.parent
PY = "/venv/bin/python"


def sh(cmd, cwd=None, env=None, timeout=3600):
    return subprocess.run(cmd, shell=True, text=True, capture_output=True, cwd=cwd, env=env,
                          timeout=timeout)


def main():
    ap = argparse.ArgumentParser()
    ap.add_argument("dir")
    ap.add_argument("--keep-as")
    ap.add_argument("--no-tests", action="store_true")
    a = ap.parse_args()
    d = Path(a.dir)
    meta = json.loads((d / "meta.json").read_text())
    wt = Path(f"/tmp/wt_vs_{d.name}_{os.getpid()}")
    sh(f"git -C /repo worktree remove --force {wt}")
    r = sh(f"git -C /repo worktree add --detach {wt} HEAD")
    assert r.returncode == 0, r.stderr
    env = dict(os.environ, PYTHONPATH=f"{wt}/src", PYTHONHASHSEED="0",
               PYTHONDONTWRITEBYTECODE="1")
    rep = {"seed_dir": str(d)}
    try:
        work = wt / "_demo_cwd"
        work.mkdir()
        r0 = sh(f"{PY} {d / 'demo.py'}", cwd=work, env=env, timeout=1200)
        rep["demo_exit_without_patch"] = r0.returncode
        r = sh(f"git -C {wt} apply {d / 'patch.diff'}")
        rep["patch_applies"] = r.returncode == 0
        if r.returncode != 0:
            rep["apply_err"] = r.stderr[-400:]
        else:
            ri = sh(f"{PY} -c 'import porepy, sys; print(porepy.__file__)'", cwd=work, env=env)
            rep["imports_from"] = ri.stdout.strip()
            r1 = sh(f"{PY} {d / 'demo.py'}", cwd=work, env=env, timeout=1200)
            rep["demo_exit_with_patch"] = r1.returncode
            rep["demo_tail_with_patch"] = (r1.stdout + r1.stderr)[-400:]
            files = sorted(set(re.findall(r"tests/[\w/]+\.py", str(meta.get("tests_run", "")))))
            files = [f for f in files if (wt / f).exists()]
            rep["test_files"] = files
            if files and not a.no_tests:
                rt = sh(f"{PY} -m pytest -q -p no:cacheprovider --no-cov -x {' '.join(files)}",
                        cwd=wt, env=env, timeout=3000)
                rep["tests_exit"] = rt.returncode
                rep["tests_tail"] = rt.stdout.strip().splitlines()[-1:] if rt.stdout else []
    finally:
        sh(f"git -C /repo worktree remove --force {wt}")
        shutil.rmtree(wt, ignore_errors=True)
        sh("git -C /repo worktree prune")
    ok = (rep.get("demo_exit_without_patch") == 0 and rep.get("patch_applies")
          and rep.get("demo_exit_with_patch", 0) != 0
          and (a.no_tests or rep.get("tests_exit", 0) == 0))
    rep["confirmed"] = bool(ok)
    print(json.dumps(rep, indent=1))
    if ok and a.keep_as:
        dst = ROOT / "seeded" / a.keep_as
        dst.mkdir(parents=True, exist_ok=True)
        for f in ("patch.diff", "demo.py"):
            shutil.copy(d / f, dst / f)
        meta["confirmed_by_lead"] = rep
        (dst / "meta.json").write_text(json.dumps(meta, indent=1) + "\n")
    return 0 if ok else 1


if __name__ == "__main__":
    sys.exit(main())
