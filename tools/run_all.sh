#!/bin/bash
# Run the quick (or $TIER) command of every property in pvm/ready.txt (or args); summary table.
cd "$(dirname "$0")/.." || exit 2
TIER=${TIER:-quick}
PROPS=${@:-$(seq -f "C%02g" 1 47)}
OUT=${OUT:-/tmp/pvm_runall}
mkdir -p $OUT
for p in $PROPS; do
  t0=$(date +%s)
  ./check $p --tier $TIER ${EXTRA:-} > $OUT/$p.log 2>&1
  rc=$?
  t1=$(date +%s)
  echo "$p exit=$rc wall=$((t1-t0))s $(grep -E '^(VIOLATION|INCONCLUSIVE|KNOWN-FINDING|#)' $OUT/$p.log | head -2 | tr '\n' ' ' | cut -c1-200)"
done
