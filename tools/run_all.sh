#!/bin/bash
# Run the quick (or $TIER) command of every property in pvm/ready.txt (or args); summary table.
cd "$(dirname "$0")/.." || exit 2
TIER=${TIER:-quick}
PROPS=${@:-$(cat pvm/ready.txt)}
mkdir -p /tmp/pvm_runall
for p in $PROPS; do
  t0=$(date +%s)
  ./check $p --tier $TIER ${EXTRA:-} > /tmp/pvm_runall/$p.log 2>&1
  rc=$?
  t1=$(date +%s)
  echo "$p exit=$rc wall=$((t1-t0))s $(grep -E '^(VIOLATION|INCONCLUSIVE|KNOWN-FINDING|#)' /tmp/pvm_runall/$p.log | head -2 | tr '\n' ' ' | cut -c1-200)"
done
