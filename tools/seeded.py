#!/usr/bin/env python3
"""Run the registered checks against the seeded property-breaking changes in seeded/<id>/.

    python3 tools/seeded.py run <id> [--tier quick] [--props C01,C02]
    python3 tools/seeded.py all [--tier quick] [--jobs 4]

Each seeded change lives in seeded/<id>/ (patch.diff, a demonstration, meta.json with
"property").  A change is applied to a scratch git worktree of /repo under /tmp (never to
/repo itself), the check(s) run with PVM_POREPY_SRC pointing at it, and the worktree is
removed.  Results are written to seeded/RESULTS.json / RESULTS.md.
"""
from __future__ import annotations

import argparse
import json
import os
import shutil
import subprocess
import sys
import time
from concurrent.futures import ThreadPoolExecutor
from pathlib import Path

ROOT = Path(__file__).resolve().parent.parent
SEEDED = Path(os.environ.get("SEEDED_DIR", ROOT / "seeded"))


def sh(cmd, **kw):
    return subprocess.run(cmd, shell=True, text=True, capture_output=True, **kw)


def run_one(sid: str, tier: str, props: list[str] | None, seed: int = 0) -> dict:
    d = SEEDED / sid
    meta = json.loads((d / "meta.json").read_text())
    props = props or ([meta["property"]] if isinstance(meta["property"], str)
                      else list(meta["property"]))
    wt = Path(f"/tmp/wt_seed_{sid}_{os.getpid()}")
    sh(f"git -C /repo worktree remove --force {wt}")
    r = sh(f"git -C /repo worktree add --detach {wt} HEAD")
    if r.returncode != 0:
        return {"id": sid, "error": "worktree: " + r.stderr[-300:]}
    out = {"id": sid, "property": meta["property"], "tier": tier, "results": {}}
    try:
        r = sh(f"git -C {wt} apply {d / 'patch.diff'}")
        if r.returncode != 0:
            out["error"] = "patch does not apply: " + r.stderr[-300:]
            return out
        for p in props:
            t0 = time.time()
            env = dict(os.environ, PVM_POREPY_SRC=str(wt / "src"), VERIF_SEED=str(seed),
                       PVM_TIMEOUT_SCALE=os.environ.get("PVM_TIMEOUT_SCALE", "4"))
            for attempt in range(2):
                r = subprocess.run([str(ROOT / "check"), p, "--tier", tier, "--no-evidence"],
                                   cwd=str(ROOT), env=env, text=True, capture_output=True)
                # a fresh worktree has no numba cache: the first run may spend its whole
                # budget compiling (exit 2, workers timed out); the cache is warm afterwards
                if r.returncode != 2 or "crashed or timed out" not in r.stdout:
                    break
            lines = [l for l in r.stdout.splitlines()
                     if l.startswith(("VIOLATION", "INCONCLUSIVE", "#"))]
            out["results"][p] = {"exit": r.returncode, "wall_s": round(time.time() - t0, 1),
                                 "lines": lines[:6]}
    finally:
        sh(f"git -C /repo worktree remove --force {wt}")
        shutil.rmtree(wt, ignore_errors=True)
        sh("git -C /repo worktree prune")
    return out


def main():
    ap = argparse.ArgumentParser()
    ap.add_argument("cmd", choices=["run", "all"])
    ap.add_argument("id", nargs="?")
    ap.add_argument("--tier", default="quick")
    ap.add_argument("--props")
    ap.add_argument("--jobs", type=int, default=3)
    ap.add_argument("--seed", type=int, default=0)
    a = ap.parse_args()
    props = a.props.split(",") if a.props else None
    if a.cmd == "run":
        res = run_one(a.id, a.tier, props, a.seed)
        print(json.dumps(res, indent=1))
        ok = all(v["exit"] == 1 for v in res.get("results", {}).values()) and "error" not in res
        return 0 if ok else 1
    ids = sorted(p.name for p in SEEDED.iterdir() if (p / "meta.json").exists())
    with ThreadPoolExecutor(a.jobs) as ex:
        results = list(ex.map(lambda s: run_one(s, a.tier, props, a.seed), ids))
    (SEEDED / "RESULTS.json").write_text(json.dumps(results, indent=1) + "\n")
    rows = ["| seeded change | property | check exit (1 = caught) | first line |", "|---|---|---|---|"]
    missed = 0
    for r in results:
        if "error" in r:
            rows.append(f"| {r['id']} | {r.get('property')} | ERROR | {r['error'][:80]} |")
            missed += 1
            continue
        for p, v in r["results"].items():
            if v["exit"] != 1:
                missed += 1
            first = (v["lines"][0] if v["lines"] else "")[:110].replace("|", "/")
            rows.append(f"| {r['id']} | {p} | {v['exit']} | {first} |")
    (SEEDED / "RESULTS.md").write_text(
        f"# Seeded changes vs. checks (tier {a.tier}, seed {a.seed})\n\n" + "\n".join(rows) + "\n")
    print("\n".join(rows))
    print(f"missed: {missed}")
    return 0


if __name__ == "__main__":
    sys.exit(main())
