#!/usr/bin/env python3
"""Print the per-check results table (markdown) from evidence/*.json and seeded/*/meta.json
plus the latest seeded-run results (seeded/RESULTS*.json).  Used for DESIGN.md section 8."""
from __future__ import annotations

import json
from pathlib import Path

ROOT = Path(__file__).resolve().parent.parent


def main():
    seeds = {}
    for f in sorted((ROOT / "seeded").glob("RESULTS*.json")):
        for r in json.loads(f.read_text()):
            for p, v in r.get("results", {}).items():
                seeds.setdefault(p, {})[r["id"]] = v["exit"]
    print("| Prop | tier | cases | distinct non-trivial | wall s | verdict | known-finding hits | "
          "seeded changes caught |")
    print("|---|---|---|---|---|---|---|---|")
    for i in range(1, 48):
        pid = f"C{i:02d}"
        f = ROOT / "evidence" / f"{pid}.json"
        if not f.exists():
            print(f"| {pid} | - | - | - | - | no evidence | | |")
            continue
        e = json.loads(f.read_text())
        c = e["coverage"]
        s = seeds.get(pid, {})
        caught = ", ".join(f"{k}:{'yes' if v == 1 else 'NO(' + str(v) + ')'}" for k, v in sorted(s.items()))
        kf = sum(c.get("known_finding_hits", {}).values())
        print(f"| {pid} | {e['tier']} | {c['evaluations']} | {c['distinct_nontrivial']} | "
              f"{e['wall_s']} | {c.get('verdict')} | {kf} | {caught} |")


if __name__ == "__main__":
    main()
