#!/bin/bash
# Offline setup after a fresh restore: third-party monitor library beside the repo's
# interpreter (git-ignored .deps), byte-compile check of the framework.
set -u
cd "$(dirname "${BASH_SOURCE[0]}")" || exit 1
export PIP_NO_INDEX=1
if ! PYTHONPATH="$PWD/.deps" /venv/bin/python -c "import icontract" >/dev/null 2>&1; then
  mkdir -p .deps
  /venv/bin/python -m pip install -q --no-index --find-links /opt/veriftools/wheels \
      --target "$PWD/.deps" icontract || echo "setup: icontract not installed (checks fall back to plain wrappers)"
fi
/venv/bin/python -m compileall -q pvm >/dev/null || exit 1
mkdir -p evidence
echo "setup ok"
