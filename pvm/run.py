"""Runner of the porepy verification monitors.

    python -m pvm.run C17 --tier quick|thorough [--replay file] [--n N] [--workers W]

A check module ``pvm.checks.cNN`` provides

    PROP      = "C17"
    N         = {"quick": 300, "thorough": 30000}        generated cases per tier
    WORKERS   = {"quick": 4, "thorough": 16}             optional
    RULE      = "how cases are generated; what makes one non-trivial"
    REACH     = [("numerics/fv/upwind.py", "Upwind.discretize"), ...]   required reach
    REACH_LINES = [("numerics/fv/upwind.py", "source text snippet"), ...] optional
    REQUIRED  = {"counter": minimum, ...}                required monitor counters
    ASSUMPTIONS = ["..."]
    def floor(tier) -> list[case]                         hand-written boundary cases
    def generate(rng, tier, i) -> case                    JSON-able dict
    def check(case, mon) -> None                          runs the real code, feeds mon

Exit codes: 0 held (possibly with KNOWN-FINDING lines), 1 violation, 2 inconclusive.
"""
from __future__ import annotations

import argparse
import importlib
import json
import os
import subprocess
import sys
import tempfile
import time
from pathlib import Path

import numpy as np

from . import verdict
from .monitor import case_hash, to_jsonable

ROOT = Path(__file__).resolve().parent.parent
EVID = ROOT / "evidence"
REPLAY = ROOT / "replay"


def load(prop: str):
    return importlib.import_module(f"pvm.checks.{prop.lower()}")


def prop_number(prop: str) -> int:
    return int(prop[1:])


def n_cases(mod, tier: str, override: int | None) -> int:
    if override is not None:
        return override
    return int(mod.N[tier])


def main(argv=None) -> int:
    ap = argparse.ArgumentParser()
    ap.add_argument("prop")
    ap.add_argument("--tier", default=os.environ.get("VERIF_TIER", "quick"),
                    choices=["quick", "thorough"])
    ap.add_argument("--replay")
    ap.add_argument("--n", type=int)
    ap.add_argument("--workers", type=int)
    ap.add_argument("--no-evidence", action="store_true")
    args = ap.parse_args(argv)
    prop = args.prop.upper()
    seed = int(os.environ.get("VERIF_SEED", "0"))
    mod = load(prop)

    if args.replay:
        return replay(mod, prop, args.replay)

    t0 = time.time()
    tier = args.tier
    n = n_cases(mod, tier, args.n)
    nfloor = len(mod.floor(tier)) if hasattr(mod, "floor") else 0
    total = nfloor + n
    workers = args.workers or getattr(mod, "WORKERS", {}).get(
        tier, 4 if tier == "quick" else 16)
    workers = max(1, min(workers, total, os.cpu_count() or 1))
    budget = getattr(mod, "TIMEOUT", {}).get(tier, 600 if tier == "quick" else 3600)
    # PVM_TIMEOUT_SCALE > 1: runs against a fresh scratch copy of porepy (no numba cache)
    # or on a heavily loaded machine; a timeout is "inconclusive", never a verdict
    budget *= float(os.environ.get("PVM_TIMEOUT_SCALE", "1"))

    tmp = Path(tempfile.mkdtemp(prefix=f"pvm_{prop}_"))
    procs = []
    env = dict(os.environ)
    deadline = time.time() + budget
    for w in range(workers):
        out = tmp / f"w{w}.json"
        cmd = [sys.executable, "-m", "pvm.worker", prop, "--tier", tier,
               "--seed", str(seed), "--n", str(n), "--stride", str(workers),
               "--offset", str(w), "--out", str(out),
               "--deadline", str(deadline - 0.08 * budget)]
        log = open(tmp / f"w{w}.log", "w")
        procs.append((w, out, log, subprocess.Popen(
            cmd, cwd=str(ROOT), env=env, stdout=log, stderr=subprocess.STDOUT)))

    results = []
    crashed = []
    for w, out, log, p in procs:
        try:
            p.wait(timeout=max(1.0, deadline - time.time()))
        except subprocess.TimeoutExpired:
            p.kill()
            p.wait()
        log.close()
        if out.exists():
            try:
                results.append(json.loads(out.read_text()))
                continue
            except Exception:
                pass
        tail = (tmp / f"w{w}.log").read_text()[-2000:]
        crashed.append({"worker": w, "returncode": p.returncode, "log_tail": tail})

    agg = verdict.aggregate(mod, prop, tier, seed, total, results, crashed)
    agg["wall_s"] = round(time.time() - t0, 2)
    code = verdict.decide(mod, prop, agg, REPLAY)
    if not args.no_evidence:
        EVID.mkdir(exist_ok=True)
        ev = verdict.evidence(mod, prop, tier, seed, agg)
        (EVID / f"{prop}.json").write_text(json.dumps(ev, indent=1, sort_keys=False) + "\n")
    # clean scratch (worker cwds included)
    import shutil
    shutil.rmtree(tmp, ignore_errors=True)
    return code


def replay(mod, prop: str, path: str) -> int:
    from .monitor import Monitor
    from . import reach
    rec = json.loads(Path(path).read_text())
    case = rec["case"]
    mon = Monitor(prop)
    mon.begin_case(rec.get("index", -1), case)
    from .worker import run_one
    import shutil
    home = os.getcwd()
    scratch = tempfile.mkdtemp(prefix=f"pvm_cwd_{prop}_")
    os.chdir(scratch)
    try:
        run_one(mod, case, mon)
    finally:
        os.chdir(home)
        shutil.rmtree(scratch, ignore_errors=True)
    r = mon.end_case()
    print(json.dumps({"case": case, "violations": r["violations"],
                      "inconclusive": r["inconclusive"]}, indent=1, default=str)[:6000])
    if r["violations"]:
        print(f"VIOLATION property={prop} replay={path}")
        return 1
    return 2 if r["inconclusive"] else 0


if __name__ == "__main__":
    sys.exit(main())
