"""Regenerate /verif/MANIFEST.json from the check modules that exist.

    /venv/bin/python -m pvm.manifest        (PYTHONPATH=/verif)

Properties without a check module are listed under not_applicable with the reason kept in
NOT_CLAIMED below (so the manifest is valid at all times).
"""
from __future__ import annotations

import ast
import json
from pathlib import Path

ROOT = Path(__file__).resolve().parent.parent

NOT_CLAIMED: dict[str, str] = {}

DEFAULT_NOTE = ("Trusted base: the harness' reference model / closed-form oracle for this "
                "property, numpy/scipy dense linear algebra, the seeded generators and "
                "their admissibility filters; floating-point comparisons within the "
                "tolerance stated in the evidence. Decides only the executions produced.")


def module_meta(path: Path) -> dict:
    """Read top-level string / dict constants without importing porepy."""
    tree = ast.parse(path.read_text())
    out = {"doc": ast.get_docstring(tree) or ""}
    for node in tree.body:
        if isinstance(node, ast.Assign) and len(node.targets) == 1 and \
                isinstance(node.targets[0], ast.Name):
            name = node.targets[0].id
            if name in ("PROP", "RULE", "LEVEL", "LEVEL_TEXT", "LEVEL_NOTE", "TECHNIQUE",
                        "N", "EXHAUSTIVE"):
                try:
                    out[name] = ast.literal_eval(node.value)
                except Exception:
                    pass
    return out


def build() -> dict:
    props = [json.loads(l) for l in (ROOT / "properties.jsonl").read_text().splitlines() if l.strip()]
    checks = []
    na = []
    for p in props:
        pid = p["id"]
        f = ROOT / "pvm" / "checks" / f"{pid.lower()}.py"
        ready_file = ROOT / "pvm" / "ready.txt"
        ready = set(ready_file.read_text().split()) if ready_file.exists() else None
        if not f.exists() or (ready is not None and pid not in ready):
            na.append({"property_id": pid,
                       "reason": NOT_CLAIMED.get(pid, "check not implemented yet (runtime "
                                                  "monitor designed in DESIGN.md section 6, "
                                                  "not built)")})
            continue
        m = module_meta(f)
        first = m["doc"].strip().split("\n\n")
        text = m.get("LEVEL_TEXT") or (" ".join(first[1].split()) if len(first) > 1
                                       else " ".join(first[0].split()))
        n = m.get("N", {})
        text += (f" Explored: {n.get('quick', '?')} generated cases (quick) / "
                 f"{n.get('thorough', '?')} (thorough) plus a fixed floor of boundary cases; "
                 "held means held on these executions only.")
        checks.append({
            "property_id": pid,
            "quick_cmd": f"./check {pid} --tier quick",
            "thorough_cmd": f"./check {pid} --tier thorough",
            "evidence_file": f"/verif/evidence/{pid}.json",
            "replay_cmd_template": f"./check {pid} --replay {{path}}",
            "engine": "pvm",
            "level_claimed": {
                "category": m.get("LEVEL", "exploration"),
                "text": text,
                "design_ref": f"DESIGN.md section 6, {pid}",
            },
            "level_note": m.get("LEVEL_NOTE", DEFAULT_NOTE),
            "technique": m.get("TECHNIQUE", "runtime monitoring: reference-model oracle over "
                                            "recorded executions of the real code on seeded "
                                            "workloads, with sys.monitoring reach counters"),
        })
    man = {
        "version": 1,
        "setup_cmd": "bash /verif/setup.sh",
        "hooks": {
            "guard": "POREPY_VERIF",
            "enable": "export POREPY_VERIF=1 (set by ./check); no source hooks are needed: "
                      "all monitors attach from the harness process to public functions / "
                      "attributes of porepy imported from /repo/src",
            "baseline_off_cmd": "cd /repo && env -u POREPY_VERIF /venv/bin/python -m pytest -ra -q "
                                "-p no:cacheprovider --timeout=900 --continue-on-collection-errors",
            "source_commits": [],
            "add_only": True,
        },
        "engines": [{
            "name": "pvm",
            "path": "/verif/pvm",
            "serves_properties": [c["property_id"] for c in checks],
            "kind_free_text": "runtime monitors (reference-model oracles, invariant monitors at "
                              "quiescent points, fault injection, sys.monitoring reach "
                              "counters) driving the real porepy code in worker processes",
        }],
        "checks": checks,
        "not_applicable": na,
        "notes": "See DESIGN.md. Exit codes of every check: 0 held on everything explored, 1 "
                 "violation (VIOLATION line + replay file), 2 inconclusive (monitor not "
                 "reached / too many undecided cases). known_findings.json lists genuine "
                 "defects by mechanism.",
    }
    return man


if __name__ == "__main__":
    man = build()
    (ROOT / "MANIFEST.json").write_text(json.dumps(man, indent=1) + "\n")
    print(f"{len(man['checks'])} checks, {len(man['not_applicable'])} not claimed")
