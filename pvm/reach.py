"""Reach monitors: count executions of anchored functions / source lines.

``sys.monitoring`` (Python 3.12) PY_START callbacks are enabled globally, and every code
object that is not of interest answers DISABLE on its first call, so the cost outside the
anchored functions is one callback per code object.  LINE events are enabled locally on
the code objects that contain a requested snippet.

A required reach target is ("path/suffix.py", "Qualified.name") for a function, or
("path/suffix.py", "text that occurs on exactly the wanted source line") for a line.
Targets are resolved against the *current* source text, so they survive line shifts.
"""
from __future__ import annotations

import sys
from collections import Counter
from pathlib import Path

TOOL = 3  # sys.monitoring.PROFILER_ID + 1 is free; use a fixed free id


class Reach:
    def __init__(self, functions=(), lines=(), src_root: str | None = None):
        self.fn_targets = [(str(f), str(q)) for f, q in functions]
        self.line_targets = [(str(f), str(s)) for f, s in lines]
        self.fn_counts: Counter = Counter()
        self.line_counts: Counter = Counter()
        self._files = {f for f, _ in self.fn_targets} | {f for f, _ in self.line_targets}
        self._want_fn: dict[str, set[str]] = {}
        for f, q in self.fn_targets:
            self._want_fn.setdefault(f, set()).add(q)
        # resolve line snippets to (file suffix, lineno)
        self._want_line: dict[str, dict[int, str]] = {}
        self.unresolved: list[tuple[str, str]] = []
        self._src_root = src_root
        self._active = False
        self._suffix_cache: dict[str, str | None] = {}

    def _resolve_lines(self):
        import porepy
        root = Path(self._src_root or Path(porepy.__file__).parent)
        for f, snippet in self.line_targets:
            p = root / f
            if not p.exists():
                self.unresolved.append((f, snippet))
                continue
            hits = [i + 1 for i, l in enumerate(p.read_text().splitlines())
                    if snippet in l]
            if len(hits) < 1:
                self.unresolved.append((f, snippet))
                continue
            for h in hits:
                self._want_line.setdefault(f, {})[h] = snippet

    def _suffix(self, filename: str) -> str | None:
        s = self._suffix_cache.get(filename, False)
        if s is not False:
            return s
        res = None
        for f in self._files:
            if filename.endswith("porepy/" + f) or filename.endswith("/" + f):
                res = f
                break
        self._suffix_cache[filename] = res
        return res

    def start(self):
        mon = sys.monitoring
        self._resolve_lines()
        try:
            mon.use_tool_id(TOOL, "pvm-reach")
        except ValueError:
            mon.free_tool_id(TOOL)
            mon.use_tool_id(TOOL, "pvm-reach")
        E = mon.events

        def on_start(code, offset):
            suf = self._suffix(code.co_filename)
            if suf is None:
                return mon.DISABLE
            q = code.co_qualname
            wanted = q in self._want_fn.get(suf, ())
            lines = self._want_line.get(suf)
            if lines:
                # enable LINE events on this code object if it spans a wanted line
                try:
                    clines = {l for _, _, l in code.co_lines() if l is not None}
                except Exception:
                    clines = set()
                if clines & set(lines):
                    mon.set_local_events(TOOL, code, E.LINE)
            if wanted:
                self.fn_counts[(suf, q)] += 1
                return None
            return mon.DISABLE

        def on_line(code, lineno):
            suf = self._suffix(code.co_filename)
            if suf is None:
                return mon.DISABLE
            sn = self._want_line.get(suf, {}).get(lineno)
            if sn is None:
                return mon.DISABLE
            self.line_counts[(suf, sn)] += 1
            return None

        mon.register_callback(TOOL, E.PY_START, on_start)
        mon.register_callback(TOOL, E.LINE, on_line)
        mon.set_events(TOOL, E.PY_START)
        self._active = True

    def stop(self):
        if not self._active:
            return
        mon = sys.monitoring
        mon.set_events(TOOL, 0)
        mon.register_callback(TOOL, mon.events.PY_START, None)
        mon.register_callback(TOOL, mon.events.LINE, None)
        mon.free_tool_id(TOOL)
        self._active = False

    def dump(self) -> dict:
        return {
            "functions": {f"{f}:{q}": self.fn_counts.get((f, q), 0)
                          for f, q in self.fn_targets},
            "lines": {f"{f}:{s}": self.line_counts.get((f, s), 0)
                      for f, s in self.line_targets},
            "unresolved": [f"{f}:{s}" for f, s in self.unresolved],
        }
