"""Recording wrappers used by C03.

* ``KinkRecorder``: wraps the non-smooth functions of ``porepy.numerics.ad.functions``
  (``maximum``, ``abs``, ``l2_norm``, ``heaviside``, ``characteristic_function``) on the
  module attribute *and on every alias found in the loaded ``porepy.*`` namespaces*.  In
  recording mode every call appends (name, branch indicator array, distance-to-switch
  array) to a log.  In taint mode the returned value of selected (call, entry) pairs is
  shifted, so the residual rows that depend on a flipped entry can be found by a second
  evaluation (dependency probing with the real operator tree, no model of the equations).
* ``DiscretizationWindow``: wraps ``discretize_from_list`` (all aliases) and
  ``EquationSystem.discretize`` and counts calls inside an open measurement window; it
  also fingerprints every stored discretization matrix and the stored Darcy fluxes.
"""
from __future__ import annotations

import hashlib
import sys
from collections import Counter

import numpy as np
import scipy.sparse as sps

import porepy as pp
from porepy.numerics.ad import functions as F
from porepy.numerics.ad.forward_mode import AdArray


def _val(a):
    return a.val if isinstance(a, AdArray) else np.asarray(a, dtype=float)


def _aliases(orig):
    """(module, attribute) pairs in loaded porepy namespaces bound to ``orig``."""
    out = []
    for name, mod in list(sys.modules.items()):
        if mod is None or not (name == "porepy" or name.startswith("porepy.")):
            continue
        try:
            items = list(vars(mod).items())
        except TypeError:
            continue
        for attr, val in items:
            if val is orig:
                out.append((mod, attr))
    return out


class KinkRecorder:
    NAMES = ("maximum", "abs", "l2_norm", "heaviside", "characteristic_function")

    def __init__(self):
        self.mode = "off"          # off | record
        self.log: list = []
        self.taint: dict | None = None
        self.calls: Counter = Counter()
        self.alias_count: Counter = Counter()
        self.installed = False

    # ---------------------------------------------------------------- indicators
    @staticmethod
    def _indicator(name, args):
        """(branch indicator, distance to the switch, kind of distance)."""
        if name == "maximum":
            a, b = np.broadcast_arrays(_val(args[0]), _val(args[1]))
            den = np.abs(a) + np.abs(b)
            with np.errstate(invalid="ignore", divide="ignore"):
                m = np.where(den > 0, np.abs(a - b) / np.where(den > 0, den, 1.0), 0.0)
            return (a >= b), m, "rel"
        if name == "abs":
            v = _val(args[0])
            return np.sign(v), np.abs(v), "abs"
        if name == "heaviside":
            v = _val(args[1])
            return np.sign(v), np.abs(v), "abs"
        if name == "l2_norm":
            dim = int(args[0])
            v = np.reshape(_val(args[1]), (dim, -1), order="F")
            n = np.linalg.norm(v, axis=0)
            return (n > 1e-12), n, "abs"
        if name == "characteristic_function":
            tol = float(args[0])
            v = _val(args[1])
            return np.isclose(v, 0, atol=tol), np.full(np.shape(v), np.inf), "none"
        raise KeyError(name)

    def _make(self, name, orig):
        rec = self

        def wrapper(*args, **kwargs):
            res = orig(*args, **kwargs)
            if rec.mode == "off":
                return res
            rec.calls[name] += 1
            ind, dist, kind = rec._indicator(name, args)
            idx = len(rec.log)
            rec.log.append((name, np.atleast_1d(ind).copy(), np.atleast_1d(dist), kind))
            if rec.taint and idx in rec.taint:
                ent = rec.taint[idx]
                if isinstance(res, AdArray):
                    v = np.array(res.val, dtype=float, copy=True)
                    v[ent] += 1.0 + np.abs(v[ent])
                    res = AdArray(v, res.jac)
                else:
                    v = np.array(res, dtype=float, copy=True)
                    v = np.atleast_1d(v)
                    v[ent] += 1.0 + np.abs(v[ent])
                    res = v
            return res

        wrapper.__name__ = getattr(orig, "__name__", name)
        wrapper.__doc__ = getattr(orig, "__doc__", None)
        wrapper.__wrapped__ = orig
        return wrapper

    def install(self):
        if self.installed:
            return
        for n in self.NAMES:
            orig = getattr(F, n)
            if hasattr(orig, "__wrapped__"):
                continue
            w = self._make(n, orig)
            for mod, attr in _aliases(orig):
                setattr(mod, attr, w)
                self.alias_count[n] += 1
        self.installed = True

    # ---------------------------------------------------------------- use
    def start(self, taint=None):
        self.mode = "record"
        self.log = []
        self.taint = taint

    def stop(self):
        self.mode = "off"
        log, self.log, self.taint = self.log, [], None
        return log


def compare_logs(a, b):
    """Flipped entries between two logs: {call index: entry indices} or None if the call
    sequences are not comparable."""
    if len(a) != len(b):
        return None
    out = {}
    for k, (ra, rb) in enumerate(zip(a, b)):
        if ra[0] != rb[0] or ra[1].shape != rb[1].shape:
            return None
        d = np.flatnonzero(ra[1] != rb[1])
        if d.size:
            out[k] = d
    return out


def min_margins(log, other=None):
    """Smallest relative distance (maximum) and absolute distance (abs / l2_norm /
    heaviside) to a switch in a log.  With ``other`` (the log of an evaluation at a
    different state) entries whose distance is identical in both logs are ignored: they
    do not depend on the current state (previous-time-step terms) and cannot flip."""
    rel, ab = np.inf, np.inf
    for k, (name, ind, dist, kind) in enumerate(log):
        if dist.size == 0 or kind == "none":
            continue
        d = dist
        if other is not None and k < len(other) and other[k][2].shape == dist.shape:
            d = dist[other[k][2] != dist]
            if d.size == 0:
                continue
        if kind == "rel":
            rel = min(rel, float(np.min(d)))
        elif kind == "abs":
            ab = min(ab, float(np.min(d)))
    return rel, ab


def branch_histogram(log):
    c = Counter()
    for name, ind, dist, kind in log:
        if name == "maximum":
            c["maximum:first"] += int(np.sum(ind))
            c["maximum:second"] += int(np.sum(~ind))
        elif name == "characteristic_function":
            c["characteristic:one"] += int(np.sum(ind))
            c["characteristic:zero"] += int(np.sum(~ind))
        elif name == "l2_norm":
            c["l2_norm:nonzero"] += int(np.sum(ind))
            c["l2_norm:zero"] += int(np.sum(~ind))
        else:
            c[f"{name}:pos"] += int(np.sum(ind > 0))
            c[f"{name}:neg"] += int(np.sum(ind < 0))
            c[f"{name}:zero"] += int(np.sum(ind == 0))
    return c


class DiscretizationWindow:
    def __init__(self):
        self.open = False
        self.in_window: Counter = Counter()
        self.total: Counter = Counter()
        self.alias_count = 0
        self.installed = False

    def install(self):
        if self.installed:
            return
        from porepy.numerics.ad import ad_utils
        orig = ad_utils.discretize_from_list
        win = self

        def discretize_from_list(*a, **k):
            win.total["discretize_from_list"] += 1
            if win.open:
                win.in_window["discretize_from_list"] += 1
            return orig(*a, **k)

        discretize_from_list.__wrapped__ = orig
        for mod, attr in _aliases(orig):
            setattr(mod, attr, discretize_from_list)
            self.alias_count += 1

        ES = pp.ad.EquationSystem
        orig_d = ES.discretize

        def discretize(self_, *a, **k):
            win.total["EquationSystem.discretize"] += 1
            if win.open:
                win.in_window["EquationSystem.discretize"] += 1
            return orig_d(self_, *a, **k)

        discretize.__wrapped__ = orig_d
        ES.discretize = discretize
        self.installed = True

    @staticmethod
    def fingerprint(mdg) -> str:
        """Hash of every stored discretization matrix / array and the stored fluxes."""
        h = hashlib.sha1()

        def feed(x):
            if sps.issparse(x):
                y = x.tocsr()
                h.update(np.ascontiguousarray(y.data).tobytes())
                h.update(np.ascontiguousarray(y.indices).tobytes())
                h.update(np.ascontiguousarray(y.indptr).tobytes())
            elif isinstance(x, np.ndarray):
                if x.dtype != object:
                    h.update(np.ascontiguousarray(x).tobytes())
            elif isinstance(x, dict):
                for k in sorted(x, key=str):
                    h.update(str(k).encode())
                    feed(x[k])
            elif isinstance(x, (int, float)):
                h.update(repr(x).encode())

        datas = [d for _, d in mdg.subdomains(return_data=True)]
        datas += [d for _, d in mdg.interfaces(return_data=True)]
        n = 0
        for d in datas:
            dm = d.get(pp.DISCRETIZATION_MATRICES, {})
            for kw in sorted(dm, key=str):
                h.update(str(kw).encode())
                feed(dm[kw])
                n += len(dm[kw]) if isinstance(dm[kw], dict) else 1
            par = d.get(pp.PARAMETERS, {})
            for kw in sorted(par, key=str):
                sub = par[kw]
                if isinstance(sub, dict) and "darcy_flux" in sub:
                    h.update(b"darcy_flux" + str(kw).encode())
                    feed(np.asarray(sub["darcy_flux"], dtype=float))
        return h.hexdigest() + f":{n}"

    def start(self):
        self.open = True
        self.in_window = Counter()

    def stop(self):
        self.open = False
        return dict(self.in_window)
