"""C08 reference model (a Python list used as a sliding window) and the contracts that
attach it to the real functions.

The list machine (the whole oracle):

    set0   : L[0]  = v            (L = [v] if L is empty)
    add0   : L[0] += v            (rejected iff L is empty)
    shift d: L = [L[0]] + L[:d-1] (d = None: no truncation; nothing if L is empty)

Contracts: post-conditions (``icontract.ensure`` with *named* condition functions and an
explicit ``error=``; a 12-line stand-in with the same semantics is used if icontract is not
importable) are attached to

    porepy.numerics.ad.ad_utils.set_solution_values / get_solution_values /
    shift_solution_values          (and to every alias found in loaded ``porepy.*`` modules)
    EquationSystem.set_variable_values / shift_time_step_values / shift_iterate_values /
    get_variable_values

Every evaluation of a condition is counted in ``CTX.counts``, so a call that bypasses the
monitor shows up as a zero counter (-> inconclusive), not as a silent pass.  The harness
applies an operation to the model first ("expect") and then calls the real function; the
post-condition compares the real storage with the model.
"""
from __future__ import annotations

import functools
import inspect
import sys
from collections import Counter

import numpy as np

try:                                    # pragma: no cover - depends on the environment
    import icontract
    HAVE_ICONTRACT = True
except Exception:                       # pragma: no cover
    icontract = None
    HAVE_ICONTRACT = False


# ------------------------------------------------------------------------ the list machine
class EmptySlot(Exception):
    pass


class Window:
    def __init__(self):
        self.L: list[np.ndarray] = []

    def set0(self, v):
        self.L[0:1] = [np.array(v, dtype=float)]

    def add0(self, v):
        if not self.L:
            raise EmptySlot()
        self.L[0] = self.L[0] + v

    def shift(self, d):
        if self.L:
            self.L = [self.L[0].copy()] + (self.L if d is None else self.L[:d - 1])


# --------------------------------------------------------------------------- the contracts
class WindowViolation(Exception):
    def __init__(self, mechanism, detail):
        super().__init__(mechanism)
        self.mechanism = mechanism
        self.detail = detail


class _Ctx:
    def __init__(self):
        self.reset()
        self.aliases_patched = 0

    def reset(self):
        self.active = False
        self.windows: dict[tuple[int, str, str], Window] = {}   # (id(data), loc, name)
        self.datas: dict[int, dict] = {}
        self.es = None
        self.expected_result = None      # for get / get_variable_values
        self.counts: Counter = Counter()
        self.failure = None

    def window(self, data, loc, name) -> Window:
        self.datas[id(data)] = data
        return self.windows.setdefault((id(data), loc, name), Window())


CTX = _Ctx()


def write_ids(x) -> list[int]:
    """Decode which writes a stored first entry is the sum of (ids are powers of two)."""
    try:
        k = int(np.floor(float(x)))
    except Exception:
        return []
    return [b for b in range(0, 62) if k >> b & 1] if k >= 0 else [-1]


def _compare(data, loc, name, what):
    """Real storage vs model for every index below the model depth."""
    W = CTX.windows.get((id(data), loc, name))
    if W is None:
        return True
    try:
        stored = data[loc][name] if W.L else {}
    except KeyError:
        CTX.failure = ("storage-missing", {"what": what, "loc": loc, "name": name})
        return False
    for i, want in enumerate(W.L):
        CTX.counts["slots_compared"] += 1
        if i not in stored:
            CTX.failure = ("window-slot-missing-below-depth",
                           {"what": what, "loc": loc, "name": name, "index": i,
                            "depth": len(W.L), "stored_keys": sorted(stored)[:10]})
            return False
        got = stored[i]
        if got.shape != want.shape or not np.array_equal(got, want):
            CTX.failure = ("window-slot-is-not-the-ith-most-recent-write",
                           {"what": what, "loc": loc, "name": name, "index": i,
                            "depth": len(W.L),
                            "stored_write_ids": write_ids(got[0]) if got.size else [],
                            "expected_write_ids": write_ids(want[0]) if want.size else [],
                            "got": got[:3].tolist(), "want": want[:3].tolist()})
            return False
    return True


def _locs(time_step_index, iterate_index):
    import porepy as pp
    out = []
    if iterate_index is not None:
        out.append((pp.ITERATE_SOLUTIONS, iterate_index))
    if time_step_index is not None:
        out.append((pp.TIME_STEP_SOLUTIONS, time_step_index))
    return out


# -- helper level (ad_utils)
def stored_window_matches_model_after_set(name, data, time_step_index, iterate_index) -> bool:
    if not CTX.active or id(data) not in CTX.datas:
        return True
    CTX.counts["contract_set_solution_values"] += 1
    return all(_compare(data, loc, name, "set_solution_values")
               for loc, _ in _locs(time_step_index, iterate_index))


def stored_window_matches_model_after_shift(name, data, location) -> bool:
    if not CTX.active or id(data) not in CTX.datas:
        return True
    CTX.counts["contract_shift_solution_values"] += 1
    return _compare(data, location, name, "shift_solution_values")


def returned_values_are_a_copy_of_the_modelled_slot(result, name, data, time_step_index,
                                                    iterate_index) -> bool:
    if not CTX.active or id(data) not in CTX.datas:
        return True
    CTX.counts["contract_get_solution_values"] += 1
    (loc, index), = _locs(time_step_index, iterate_index)
    W = CTX.windows.get((id(data), loc, name))
    if W is None or index >= len(W.L):
        CTX.counts["get_beyond_model_depth_not_decided"] += 1
        return True
    want = W.L[index]
    if result.shape != want.shape or not np.array_equal(result, want):
        CTX.failure = ("read-returns-a-value-other-than-the-ith-most-recent-write",
                       {"loc": loc, "name": name, "index": index,
                        "returned_write_ids": write_ids(result[0]) if result.size else [],
                        "expected_write_ids": write_ids(want[0]) if want.size else []})
        return False
    if result.size and np.shares_memory(result, data[loc][name][index]):
        CTX.failure = ("read-returns-the-stored-array-not-a-copy",
                       {"loc": loc, "name": name, "index": index})
        return False
    return True


# -- EquationSystem level
def every_variable_window_matches_model(self) -> bool:
    if not CTX.active or CTX.es is not self:
        return True
    CTX.counts["contract_equation_system_storage"] += 1
    for (did, loc, name) in list(CTX.windows):
        if not _compare(CTX.datas[did], loc, name, "EquationSystem wrapper"):
            return False
    return True


def returned_vector_is_the_modelled_global_vector(self, result) -> bool:
    if not CTX.active or CTX.es is not self or CTX.expected_result is None:
        return True
    CTX.counts["contract_get_variable_values"] += 1
    want = CTX.expected_result
    if result.shape != want.shape or not np.array_equal(result, want):
        k = int(np.flatnonzero(result != want)[0]) if result.shape == want.shape else -1
        CTX.failure = ("get_variable_values-not-the-ith-most-recent-writes-in-global-order",
                       {"n": int(want.size), "n_got": int(result.size), "first_bad": k,
                        "returned_write_ids": write_ids(result[k]) if k >= 0 else [],
                        "expected_write_ids": write_ids(want[k]) if k >= 0 else []})
        return False
    return True


def window_violation() -> WindowViolation:
    mech, detail = CTX.failure or ("contract-failed", {})
    CTX.failure = None
    return WindowViolation(mech, detail)


# ------------------------------------------------------------------------------ attachment
def _plain_ensure(condition, error):
    """Stand-in for icontract.ensure (same semantics for what is used here)."""
    cargs = list(inspect.signature(condition).parameters)

    def deco(func):
        sig = inspect.signature(func)

        @functools.wraps(func)
        def wrapper(*a, **kw):
            result = func(*a, **kw)
            b = sig.bind(*a, **kw)
            b.apply_defaults()
            env = dict(b.arguments, result=result)
            if not condition(**{k: env[k] for k in cargs}):
                raise error()
            return result
        return wrapper
    return deco


def ensure(condition):
    if HAVE_ICONTRACT:
        return icontract.ensure(condition, error=window_violation)
    return _plain_ensure(condition, window_violation)


_INSTALLED = False


def install() -> int:
    """Attach the contracts (idempotent).  Returns the number of module attributes that
    were re-bound to a contract-carrying function (helpers and their aliases)."""
    global _INSTALLED
    if _INSTALLED:
        return CTX.aliases_patched
    import porepy as pp  # noqa: F401
    from porepy.numerics.ad import ad_utils
    from porepy.numerics.ad.equation_system import EquationSystem

    helpers = {
        "set_solution_values": stored_window_matches_model_after_set,
        "shift_solution_values": stored_window_matches_model_after_shift,
        "get_solution_values": returned_values_are_a_copy_of_the_modelled_slot,
    }
    n = 0
    for fname, cond in helpers.items():
        orig = getattr(ad_utils, fname)
        wrapped = ensure(cond)(orig)
        for mname, module in list(sys.modules.items()):
            if not mname.startswith("porepy") or module is None:
                continue
            for attr, val in list(vars(module).items()):
                if val is orig:
                    setattr(module, attr, wrapped)
                    n += 1
    for mname, cond in [
        ("set_variable_values", every_variable_window_matches_model),
        ("shift_time_step_values", every_variable_window_matches_model),
        ("shift_iterate_values", every_variable_window_matches_model),
        ("get_variable_values", returned_vector_is_the_modelled_global_vector),
    ]:
        setattr(EquationSystem, mname, ensure(cond)(getattr(EquationSystem, mname)))
    CTX.aliases_patched = n
    _INSTALLED = True
    return n
