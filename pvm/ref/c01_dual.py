"""Shared reference machinery of C01 / C02 (independent of porepy: numpy + scipy only).

Mini-AST (JSON-able dicts), a generic post-order tree walker parametrised by an
*algebra*, and three algebras:

``RefAlgebra``
    dense dual numbers ``Dual(v, J, S, A)``: value vector, dense Jacobian w.r.t. the
    ``m`` independent degrees of freedom, differentiation rules written down from
    calculus (no operator overloading, explicit case analysis on the operand kinds).
    Besides ``v`` and ``J`` it propagates a first-order running round-off scale
    ``S >= |v|`` (S_g = sum_k |dg/da_k| S_k + |g|) and the absolute Jacobian
    ``A >= |J|`` (same chain rule with absolute values, i.e. without cancellation).
    Tolerances are relative to ``S`` resp. the row maxima of ``A``.  It also records
    the distance of every non-smooth function argument from its kink and a safe
    finite-difference step.
``NumpyAlgebra``
    plain numpy evaluation of the value (value oracle, finite differences).
``PythonOpsAlgebra``
    applies the *Python operators* / a supplied function table to whatever objects the
    leaf callback returns: porepy ``AdArray`` (C01: code under test; C02: the "direct
    forward-mode evaluation"), ``pp.ad.Operator`` (C02: builds the operator tree).

AST nodes (``op`` field):
    raw constants   const{v} (float)  int{v}  arr{v,dtype?} (1-d ndarray)
                    mat{fmt,shape,ijv} (scipy sparse, fmt csr|csc|coo|dia|csr_array|...)
    arithmetic      neg{a}  add|sub|mul|div|pow|matmul{a,b}
    slicing         getitem{a,key}   key = {k:int,i} | {k:slice,s:[a,b,c]} | {k:idx,i:[..]}
    functions       fn{name,p,args}
    time            prev_ts{k,a}  prev_it{k,a}  tinc{a}  dt{a,dt}
    anything else   leaf, resolved by ``alg.leaf(node)``
"""
from __future__ import annotations

import math
import operator

import numpy as np
import scipy.sparse as sps

BIN = ("add", "sub", "mul", "div", "pow", "matmul")
RAW = ("const", "int", "arr", "mat")
PYOP = {"add": operator.add, "sub": operator.sub, "mul": operator.mul,
        "div": operator.truediv, "pow": operator.pow, "matmul": operator.matmul}
RDUNDER = {"add": "__radd__", "sub": "__rsub__", "mul": "__rmul__",
           "div": "__rtruediv__", "pow": "__rpow__", "matmul": "__rmatmul__"}
DUNDER = {"add": "__add__", "sub": "__sub__", "mul": "__mul__",
          "div": "__truediv__", "pow": "__pow__", "matmul": "__matmul__"}

UNARY_FUNCS = ("exp", "log", "abs", "sin", "cos", "tan", "arcsin", "arccos", "arctan",
               "sinh", "cosh", "tanh", "arcsinh", "arccosh", "arctanh", "heaviside",
               "heaviside_smooth", "RegularizedHeaviside", "characteristic_function",
               "safe_power")
ALL_FUNCS = UNARY_FUNCS + ("l2_norm", "maximum")


# ----------------------------------------------------------------------------- AST utils
def plain(x):
    """Plain Python copy of an AST / case (numpy scalars, arrays and str_ converted), without
    a depth limit."""
    if isinstance(x, dict):
        return {str(k): plain(v) for k, v in x.items()}
    if isinstance(x, (list, tuple)):
        return [plain(v) for v in x]
    if isinstance(x, np.ndarray):
        return plain(x.tolist())
    if isinstance(x, np.bool_):
        return bool(x)
    if isinstance(x, np.integer):
        return int(x)
    if isinstance(x, np.floating):
        return float(x)
    if isinstance(x, str):
        return str(x)
    return x


def pack_tree(node):
    """Trees are stored in a case as a JSON string: the framework's JSON conversion of cases
    (replay files, hashes) stops at nesting depth 12, which deep trees exceed."""
    import json
    return json.dumps(plain(node), separators=(",", ":"))


def tree_of(case):
    import json
    t = case["tree"]
    return json.loads(t) if isinstance(t, str) else t


def children(node):
    op = node["op"]
    if op in BIN:
        return [node["a"], node["b"]]
    if op in ("neg", "getitem", "prev_ts", "prev_it", "tinc", "dt"):
        return [node["a"]]
    if op == "fn":
        return list(node["args"])
    return []


def postorder(node):
    for c in children(node):
        yield from postorder(c)
    yield node


def depth(node):
    cs = children(node)
    return 0 if not cs else 1 + max(depth(c) for c in cs)


def count_nodes(node):
    return sum(1 for _ in postorder(node))


def key_of(k):
    kind = k["k"]
    if kind == "int":
        return int(k["i"])
    if kind == "slice":
        a, b, c = k["s"]
        return slice(a, b, c)
    if kind == "idx":
        return np.asarray(k["i"], dtype=int)
    raise ValueError(f"unknown key kind {kind}")


def raw_const(node):
    """The raw Python / numpy / scipy object of a constant node."""
    op = node["op"]
    if op == "const":
        return float(node["v"])
    if op == "int":
        return int(node["v"])
    if op == "arr":
        if node.get("dtype") == "int":
            return np.asarray(node["v"], dtype=int)
        return np.asarray(node["v"], dtype=float)
    if op == "mat":
        return make_sparse(node)
    raise ValueError(op)


def make_sparse(node):
    r, c = node["shape"]
    i, j, v = node["ijv"]
    coo = sps.coo_matrix((np.asarray(v, dtype=float),
                          (np.asarray(i, dtype=int), np.asarray(j, dtype=int))),
                         shape=(int(r), int(c)))
    fmt = node.get("fmt", "csr")
    if fmt == "coo":
        return coo
    if fmt.endswith("_array"):
        return getattr(sps, fmt)(coo)
    return coo.asformat(fmt)


def dense_of_mat(node):
    r, c = node["shape"]
    i, j, v = node["ijv"]
    M = np.zeros((int(r), int(c)))
    np.add.at(M, (np.asarray(i, dtype=int), np.asarray(j, dtype=int)),
              np.asarray(v, dtype=float))
    return M


def kind_of(x):
    """Operand kind label used in counters and mechanism keys."""
    if isinstance(x, bool):
        return "bool"
    if isinstance(x, int):
        return "int"
    if isinstance(x, float):
        return "float"
    if isinstance(x, np.ndarray):
        return "arr" if x.ndim == 1 else "arr2d"
    if sps.issparse(x):
        return type(x).__name__
    if isinstance(x, Dual):
        return "ad"
    n = type(x).__name__
    return {"AdArray": "ad"}.get(n, n)


# ------------------------------------------------------------------------------ walker
def walk(node, alg):
    """Post-order evaluation of ``node`` in algebra ``alg``; every node result is handed
    to ``alg.visit(node, result)``.  If an operation raises, ``alg.failed`` is the node
    whose own operation raised (children evaluated fine)."""
    op = node["op"]
    if op in BIN:
        a = walk(node["a"], alg)
        b = walk(node["b"], alg)
        call = lambda: alg.binop(op, a, b, node)
    elif op == "neg":
        a = walk(node["a"], alg)
        call = lambda: alg.neg(a, node)
    elif op == "getitem":
        a = walk(node["a"], alg)
        call = lambda: alg.getitem(a, key_of(node["key"]), node)
    elif op == "fn":
        args = [walk(c, alg) for c in node["args"]]
        call = lambda: alg.fn(node["name"], node.get("p", {}), args, node)
    elif op in ("prev_ts", "prev_it"):
        call = lambda: alg.shift(node, lambda: walk(node["a"], alg))
    elif op in ("tinc", "dt"):
        call = lambda: alg.time_increment(node, lambda: walk(node["a"], alg))
    elif op in RAW:
        call = lambda: alg.const(node)
    else:
        call = lambda: alg.leaf(node)
    try:
        r = call()
    except Exception:
        if getattr(alg, "failed", None) is None:
            alg.failed = node
        raise
    alg.visit(node, r)
    return r


class _Base:
    """Defaults shared by the algebras."""

    def __init__(self):
        self.results = {}      # id(node) -> result (last visit)
        self.failed = None     # node whose operation raised
        self.ts = 0            # accumulated previous_timestep steps of the context
        self.it = 0            # accumulated previous_iteration steps

    def visit(self, node, r):
        if self.ts == 0 and self.it == 0:
            self.results[id(node)] = r

    def const(self, node):
        return raw_const(node)

    def shift(self, node, thunk):
        k = int(node["k"])
        if node["op"] == "prev_ts":
            self.ts += k
        else:
            self.it += k
        try:
            return thunk()
        finally:
            if node["op"] == "prev_ts":
                self.ts -= k
            else:
                self.it -= k

    def time_increment(self, node, thunk):
        cur = thunk()
        prev = self.shift({"op": "prev_ts", "k": 1}, thunk)
        r = self.binop("sub", cur, prev, node)
        if node["op"] == "dt":
            r = self.binop("div", r, float(node["dt"]), node)
        return r


# ------------------------------------------------------------------------ reference: Dual
class Dual:
    __slots__ = ("v", "J", "S", "A")

    def __init__(self, v, J, S=None, A=None):
        self.v = np.asarray(v, dtype=float)
        self.J = np.asarray(J, dtype=float)
        assert self.v.ndim == 1 and self.J.ndim == 2 and self.J.shape[0] == self.v.size
        self.S = np.abs(self.v) if S is None else np.asarray(S, dtype=float)
        self.A = np.abs(self.J) if A is None else np.asarray(A, dtype=float)

    @property
    def size(self):
        return self.v.size


def _val(x):
    return x.v if isinstance(x, Dual) else x


def _is_int_valued(c):
    c = np.asarray(c, dtype=float)
    return bool(np.all(c == np.round(c)))


class RefAlgebra(_Base):
    """Dense dual numbers.  ``leaf(node)`` must return a Dual, a float, a 1-d ndarray
    (constant vector) or a 2-d ndarray (constant matrix)."""

    def __init__(self, m, leaf):
        super().__init__()
        self.m = int(m)
        self._leaf = leaf
        self.kink = math.inf       # min distance of a non-smooth argument from its kink
        self.hmax = math.inf       # min over sensitive nodes of (length scale / sensitivity)
        self.kappa = 1.0           # max S/|v| seen at the argument of a nonlinear operation
        self.nsmooth = 0
        self.nkinky = 0

    # -- leaves / constants
    def leaf(self, node):
        return self._leaf(node, self)

    def const(self, node):
        if node["op"] == "mat":
            return dense_of_mat(node)
        c = raw_const(node)
        if isinstance(c, np.ndarray):
            return c.astype(float)
        return float(c)

    # -- bookkeeping
    def _sens(self, x, L, kink=False):
        """Register an argument ``x`` of a sensitive operation whose distance to the
        nearest singularity / kink is ``L`` (elementwise)."""
        L = np.atleast_1d(np.asarray(L, dtype=float))
        if L.size == 0:
            return
        if kink:
            self.kink = min(self.kink, float(np.min(L)))
            self.nkinky += 1
        if isinstance(x, Dual):
            amp = x.A.sum(axis=1)
            if L.size == amp.size:
                with np.errstate(divide="ignore", invalid="ignore"):
                    q = np.where(amp > 0, L / amp, np.inf)
                self.hmax = min(self.hmax, float(np.min(q)))
            elif amp.size:
                a = float(amp.max())
                if a > 0:
                    self.hmax = min(self.hmax, float(np.min(L)) / a)
            with np.errstate(divide="ignore", invalid="ignore"):
                k = np.where(np.abs(x.v) > 0, x.S / np.abs(x.v), 1.0)
            if k.size:
                self.kappa = max(self.kappa, float(np.max(k)))

    def _combine(self, g, terms, partials=None):
        """g with local partials: terms = [(operand, dg/d operand (elementwise))].

        ``partials(*operand_values)`` re-evaluates the local partials; it is used to
        add the second-order term of the round-off analysis to the absolute Jacobian:
        the partials inherit the round-off eps*S of the operands, which matters where a
        partial is (nearly) zero, e.g. cos(x) at pi/2.  With C2 = 2e-3 and a Jacobian
        tolerance of 1e-10 this term sits 1e3 above eps * |d partial / d operand| * S."""
        duals = [(x, d) for x, d in terms if isinstance(x, Dual)]
        if not duals:
            return g if np.ndim(g) else float(g)
        g = np.atleast_1d(np.asarray(g, dtype=float))
        n = g.size
        J = np.zeros((n, self.m))
        A = np.zeros((n, self.m))
        S = np.abs(g).copy()
        for x, d in duals:
            d = np.broadcast_to(np.asarray(d, dtype=float), (n,))
            assert x.size == n, "operand size mismatch in reference"
            J += d[:, None] * x.J
            A += np.abs(d)[:, None] * x.A
            S += np.abs(d) * x.S
        if partials is not None:
            tau = 1e-6
            vals = [np.asarray(_val(x), dtype=float) for x, _ in terms]
            scal = [x.S if isinstance(x, Dual) else 0.0 for x, _ in terms]
            patterns = [[1.0] * len(terms)]
            if len(terms) > 1:
                patterns.append([1.0 if k % 2 == 0 else -1.0 for k in range(len(terms))])
            extra = np.zeros((n, self.m))
            for pat in patterns:
                pv = [v + tau * sg * sc for v, sg, sc in zip(vals, pat, scal)]
                with np.errstate(all="ignore"):
                    ds2 = partials(*pv)
                contrib = np.zeros((n, self.m))
                for (x, d), d2 in zip(terms, ds2):
                    if not isinstance(x, Dual) or d2 is None:
                        continue
                    dd = np.abs(np.broadcast_to(np.asarray(d2, dtype=float), (n,))
                                - np.broadcast_to(np.asarray(d, dtype=float), (n,))) / tau
                    dd = np.where(np.isfinite(dd), dd, 0.0)
                    contrib += dd[:, None] * x.A
                extra = np.maximum(extra, contrib)
            A += self.C2 * extra
        return Dual(g, J, S, A)

    C2 = 2e-3

    # -- arithmetic
    def neg(self, a, node=None):
        if isinstance(a, Dual):
            return Dual(-a.v, -a.J, a.S, a.A)
        return -a

    def binop(self, op, a, b, node=None):
        va, vb = _val(a), _val(b)
        if op == "matmul":
            return self._matmul(a, b)
        if np.ndim(va) == 2 or np.ndim(vb) == 2:
            # constant matrices: + - between matrices, * / with scalars
            assert not isinstance(a, Dual) and not isinstance(b, Dual)
            if op == "add":
                return va + vb
            if op == "sub":
                return va - vb
            if op == "mul":
                return va * vb
            if op == "div":
                return va / vb
            raise ValueError(f"{op} on matrices")
        va = np.asarray(va, dtype=float)
        vb = np.asarray(vb, dtype=float)
        with np.errstate(all="ignore"):
            if op == "add":
                return self._combine(va + vb, [(a, 1.0), (b, 1.0)])
            if op == "sub":
                return self._combine(va - vb, [(a, 1.0), (b, -1.0)])
            if op == "mul":
                return self._combine(va * vb, [(a, vb), (b, va)],
                                     lambda x, y: (y, x))
            if op == "div":
                self._sens(b, np.abs(vb))
                return self._combine(va / vb, [(a, 1.0 / vb), (b, -va / (vb * vb))],
                                     lambda x, y: (1.0 / y, -x / (y * y)))
            if op == "pow":
                g = va ** vb
                if isinstance(a, Dual):
                    natural = (not isinstance(b, Dual)) and _is_int_valued(vb) \
                        and bool(np.all(vb >= 0))
                    if not natural:
                        self._sens(a, np.abs(va))
                if isinstance(b, Dual):
                    la = np.log(va)
                    self._sens(b, 1.0 / np.maximum(1.0, np.abs(la)) * np.ones_like(vb))
                da = vb * va ** (vb - 1.0) if isinstance(a, Dual) else None
                db = g * np.log(va) if isinstance(b, Dual) else None
                ad, bd = isinstance(a, Dual), isinstance(b, Dual)

                def partials(x, y):
                    return (y * x ** (y - 1.0) if ad else None,
                            x ** y * np.log(x) if bd else None)

                return self._combine(g, [(a, da), (b, db)], partials)
        raise ValueError(op)

    def _matmul(self, a, b):
        M = _val(a)
        assert np.ndim(M) == 2 and not isinstance(a, Dual), "left operand of @ must be a matrix"
        if isinstance(b, Dual):
            v = M @ b.v
            aM = np.abs(M)
            return Dual(v, M @ b.J, aM @ b.S + np.abs(v), aM @ b.A)
        if np.ndim(b) == 0:
            # slicer/matrix applied to a scalar: broadcast the scalar over the domain
            return M @ np.full(M.shape[1], float(b))
        return M @ b

    def getitem(self, a, key, node=None):
        if isinstance(a, Dual):
            return Dual(np.atleast_1d(a.v[key]), np.atleast_2d(a.J[key]),
                        np.atleast_1d(a.S[key]), np.atleast_2d(a.A[key]))
        return np.atleast_1d(np.asarray(a)[key])

    # -- function library (value g, derivative d, length scale L, is-kink)
    def fn(self, name, p, args, node=None):
        if name == "maximum":
            return self._maximum(args[0], args[1])
        if name == "l2_norm":
            return self._l2(int(p["dim"]), args[0])
        x = args[0]
        v = np.asarray(_val(x), dtype=float)
        with np.errstate(all="ignore"):
            g, d, L, kink = _UNARY[name](v, p)
        if L is not None:
            self._sens(x, L, kink)
        else:
            self.nsmooth += 1
        r = self._combine(g, [(x, d)], lambda y: (_UNARY[name](y, p)[1],))
        if name == "heaviside_smooth" and isinstance(r, Dual):
            # 1/2 + arctan(x/eps)/pi cancels internally for x << -eps: the round-off of
            # the value is that of the O(1) terms, not of the (small) result
            r.S = r.S + 1.0
        return r

    def _maximum(self, a, b):
        va, vb = np.asarray(_val(a), float), np.asarray(_val(b), float)
        n = max(va.size, vb.size)
        va_b, vb_b = np.broadcast_to(va, (n,)), np.broadcast_to(vb, (n,))
        first = va_b >= vb_b
        g = np.where(first, va_b, vb_b)
        L = np.abs(va_b - vb_b)
        # distance to the kink a == b; sensitivity of (a - b)
        self.kink = min(self.kink, float(L.min())) if L.size else self.kink
        self.nkinky += 1
        amp = np.zeros(n)
        for x in (a, b):
            if isinstance(x, Dual):
                amp = amp + x.A.sum(axis=1)
        with np.errstate(divide="ignore", invalid="ignore"):
            q = np.where(amp > 0, L / amp, np.inf)
        if q.size:
            self.hmax = min(self.hmax, float(q.min()))
        return self._combine(g, [(a, first.astype(float)), (b, (~first).astype(float))])

    def _l2(self, dim, x):
        v = np.asarray(_val(x), dtype=float)
        if dim == 1:
            g = np.abs(v)
            self._sens(x, g, True)
            return self._combine(g, [(x, np.sign(v))])
        assert v.size % dim == 0
        n = v.size // dim
        blocks = v.reshape(n, dim)                  # row j = (u_j, v_j, w_j)
        g = np.sqrt(np.sum(blocks * blocks, axis=1))
        self.kink = min(self.kink, float(g.min())) if n else self.kink
        self.nkinky += 1
        if not isinstance(x, Dual):
            return g
        amp = x.A.sum(axis=1).reshape(n, dim).max(axis=1) * math.sqrt(dim)
        with np.errstate(divide="ignore", invalid="ignore"):
            q = np.where(amp > 0, g / amp, np.inf)
        if q.size:
            self.hmax = min(self.hmax, float(q.min()))
        J = np.zeros((n, self.m))
        A = np.zeros((n, self.m))
        S = g.copy()
        with np.errstate(all="ignore"):
            w = blocks / g[:, None]
        Sb = x.S.reshape(n, dim)
        wS = np.sum(np.abs(w) * Sb, axis=1)
        for k in range(dim):
            rows = np.arange(n) * dim + k
            J += w[:, k][:, None] * x.J[rows]
            A += np.abs(w[:, k])[:, None] * x.A[rows]
            S += np.abs(w[:, k]) * x.S[rows]
            # |delta w_k| <= (S_k + |w_k| sum_j |w_j| S_j) / g   (second-order term)
            with np.errstate(all="ignore"):
                dw = (Sb[:, k] + np.abs(w[:, k]) * wS) / g
            A += self.C2 * np.where(np.isfinite(dw), dw, 0.0)[:, None] * x.A[rows]
        return Dual(g, J, S, A)


def _heav(x, zv):
    return np.where(x > 0, 1.0, np.where(x < 0, 0.0, float(zv)))


def _safe_power(x, p):
    power, zv, tol = float(p["power"]), float(p["zero_val"]), float(p["tol"])
    out = np.abs(x) > tol
    xs = np.where(out, x, 1.0)
    g = np.where(out, xs ** power, zv)
    d = np.where(out, power * xs ** (power - 1.0), 0.0)
    L = np.abs(np.abs(x) - tol)
    if not (power >= 0 and power == round(power)):
        L = np.where(out, np.minimum(L, np.abs(x)), L)
    return g, d, L, True


_UNARY = {
    "exp": lambda x, p: (np.exp(x), np.exp(x), None, False),
    "log": lambda x, p: (np.log(x), 1.0 / x, np.abs(x), False),
    "abs": lambda x, p: (np.abs(x), np.sign(x), np.abs(x), True),
    "sin": lambda x, p: (np.sin(x), np.cos(x), None, False),
    "cos": lambda x, p: (np.cos(x), -np.sin(x), None, False),
    "tan": lambda x, p: (np.tan(x), 1.0 + np.tan(x) ** 2, np.abs(np.cos(x)), False),
    "arcsin": lambda x, p: (np.arcsin(x), 1.0 / np.sqrt(1.0 - x * x), 1.0 - np.abs(x), False),
    "arccos": lambda x, p: (np.arccos(x), -1.0 / np.sqrt(1.0 - x * x), 1.0 - np.abs(x), False),
    "arctan": lambda x, p: (np.arctan(x), 1.0 / (1.0 + x * x), None, False),
    "sinh": lambda x, p: (np.sinh(x), np.cosh(x), None, False),
    "cosh": lambda x, p: (np.cosh(x), np.sinh(x), None, False),
    "tanh": lambda x, p: (np.tanh(x), 1.0 / np.cosh(x) ** 2, None, False),
    "arcsinh": lambda x, p: (np.arcsinh(x), 1.0 / np.sqrt(x * x + 1.0), None, False),
    "arccosh": lambda x, p: (np.arccosh(x), 1.0 / np.sqrt(x * x - 1.0), x - 1.0, False),
    "arctanh": lambda x, p: (np.arctanh(x), 1.0 / (1.0 - x * x), 1.0 - np.abs(x), False),
    "heaviside": lambda x, p: (_heav(x, p.get("zerovalue", 0.5)), np.zeros_like(x),
                               np.abs(x), True),
    "heaviside_smooth": lambda x, p: (
        0.5 + np.arctan(x / p["eps"]) / math.pi,
        (p["eps"] / (p["eps"] ** 2 + x * x)) / math.pi,
        np.sqrt(x * x + p["eps"] ** 2), False),
    # value: sharp Heaviside; derivative: that of the smooth regularisation
    "RegularizedHeaviside": lambda x, p: (
        _heav(x, 0.0), (p["eps"] / (p["eps"] ** 2 + x * x)) / math.pi,
        np.minimum(np.abs(x), np.sqrt(x * x + p["eps"] ** 2)), True),
    "characteristic_function": lambda x, p: (
        (np.abs(x) <= p["tol"]).astype(float), np.zeros_like(x),
        np.abs(np.abs(x) - p["tol"]), True),
    "safe_power": _safe_power,
}


# -------------------------------------------------------------------------- numpy values
def _np_l2(dim, x):
    return np.linalg.norm(np.reshape(x, (dim, -1), order="F"), axis=0)


NUMPY_FUNCS = {
    "exp": lambda p: np.exp, "log": lambda p: np.log, "abs": lambda p: np.abs,
    "sin": lambda p: np.sin, "cos": lambda p: np.cos, "tan": lambda p: np.tan,
    "arcsin": lambda p: np.arcsin, "arccos": lambda p: np.arccos,
    "arctan": lambda p: np.arctan, "sinh": lambda p: np.sinh, "cosh": lambda p: np.cosh,
    "tanh": lambda p: np.tanh, "arcsinh": lambda p: np.arcsinh,
    "arccosh": lambda p: np.arccosh, "arctanh": lambda p: np.arctanh,
    "heaviside": lambda p: (lambda x: np.heaviside(x, p.get("zerovalue", 0.5))),
    "heaviside_smooth": lambda p: (
        lambda x: 0.5 * (1.0 + 2.0 / np.pi * np.arctan(x / p["eps"]))),
    "RegularizedHeaviside": lambda p: (lambda x: np.heaviside(x, 0.0)),
    "characteristic_function": lambda p: (
        lambda x: (np.abs(x) <= p["tol"]).astype(float)),
    "safe_power": lambda p: (
        lambda x: np.where(np.abs(x) > p["tol"],
                           np.where(np.abs(x) > p["tol"], x, 1.0) ** float(p["power"]),
                           float(p["zero_val"]))),
    "l2_norm": lambda p: (lambda x: _np_l2(int(p["dim"]), x)),
    "maximum": lambda p: np.maximum,
}


class NumpyAlgebra(_Base):
    """Plain numpy evaluation; ``leaf(node, alg)`` returns floats / ndarrays / sparse."""

    def __init__(self, leaf):
        super().__init__()
        self._leaf = leaf

    def leaf(self, node):
        return self._leaf(node, self)

    def const(self, node):
        if node["op"] == "mat":
            return dense_of_mat(node)      # dense: independent of scipy's dispatch
        c = raw_const(node)
        if isinstance(c, np.ndarray):
            return c.astype(float)
        if isinstance(c, int):
            return float(c)
        return c

    def neg(self, a, node=None):
        return -a

    def binop(self, op, a, b, node=None):
        with np.errstate(all="ignore"):
            if sps.issparse(a):
                a = a.toarray()
            if sps.issparse(b):
                b = b.toarray()
            if op == "matmul" and np.ndim(b) == 0:
                b = np.full(a.shape[1], float(b))
            if op == "pow":
                return np.asarray(a, dtype=float) ** np.asarray(b, dtype=float) \
                    if (np.ndim(a) or np.ndim(b)) else float(np.float64(a) ** np.float64(b))
            return PYOP[op](a, b)

    def getitem(self, a, key, node=None):
        return np.atleast_1d(np.asarray(a)[key])

    def fn(self, name, p, args, node=None):
        with np.errstate(all="ignore"):
            return NUMPY_FUNCS[name](p)(*[np.asarray(x, dtype=float) for x in args])


# ------------------------------------------------------------------ python operator algebra
class PythonOpsAlgebra(_Base):
    """Applies Python's operators to the leaf objects.

    ``leaf(node, alg)`` returns the objects (AdArray / Operator / float / ndarray /
    sparse matrix), ``funcs[name](p)`` returns the callable for a library function.
    A raw ndarray as the *Python-level* left operand of a non-numpy object is documented
    as unsupported by porepy (numpy broadcasting); such a node is evaluated by calling the
    reflected overload of the right operand directly, which is what porepy's parser does.
    ``on_op(label)`` is called once per evaluated operation.
    """

    def __init__(self, leaf, funcs, on_op=None, shift=None, time_increment=None,
                 const=None):
        super().__init__()
        self._leaf = leaf
        self._funcs = funcs
        self._on_op = on_op or (lambda label: None)
        self._shift = shift
        self._tinc = time_increment
        self._const = const

    def leaf(self, node):
        return self._leaf(node, self)

    def const(self, node):
        if self._const is not None:
            return self._const(node)
        return raw_const(node)

    def neg(self, a, node=None):
        self._on_op(f"neg[{kind_of(a)}]")
        return -a

    def binop(self, op, a, b, node=None):
        ka, kb = kind_of(a), kind_of(b)
        plain = (int, float, np.ndarray, np.generic)
        if isinstance(a, np.ndarray) and not isinstance(b, plain) and not sps.issparse(b):
            self._on_op(f"{RDUNDER[op]}[{ka},{kb}]")
            return getattr(b, RDUNDER[op])(a)
        if isinstance(a, plain) or sps.issparse(a):
            if isinstance(b, plain) or sps.issparse(b):
                self._on_op(f"plain-{op}[{ka},{kb}]")
            else:
                self._on_op(f"{RDUNDER[op]}[{ka},{kb}]")
        else:
            self._on_op(f"{DUNDER[op]}[{ka},{kb}]")
        return PYOP[op](a, b)

    def getitem(self, a, key, node=None):
        self._on_op(f"__getitem__[{node['key']['k'] if node else '?'}]")
        return a[key]

    def fn(self, name, p, args, node=None):
        self._on_op(f"fn:{name}")
        return self._funcs[name](p)(*args)

    def shift(self, node, thunk):
        if self._shift is None:
            return super().shift(node, thunk)
        return self._shift(node, thunk, self)

    def time_increment(self, node, thunk):
        if self._tinc is None:
            return super().time_increment(node, thunk)
        return self._tinc(node, thunk, self)


# -------------------------------------------------------------------- comparison helpers
def value_residual(got, ref_v, ref_S):
    """max |got - ref| / S  (S >= |ref| is the running round-off scale)."""
    got = np.asarray(got, dtype=float)
    if got.shape != ref_v.shape:
        return math.inf
    if got.size == 0:
        return 0.0
    with np.errstate(all="ignore"):
        err = np.abs(got - ref_v)
        err = np.where(np.isnan(err), np.inf, err)
        # identical entries (also identical inf / nan) count as equal
        err = np.where((got == ref_v) | (np.isnan(got) & np.isnan(ref_v)), 0.0, err)
        sc = np.where(ref_S > 0, ref_S, 1.0)
        r = np.where(err == 0, 0.0, err / sc)
    return float(np.max(r))


def jac_residual(got, ref_J, ref_A, ref_S=None):
    """max over rows of  |got - ref|_max / max(row max of A)  where A is the absolute
    Jacobian.  Rows with A == 0 (structurally zero derivative) must be exactly zero."""
    got = np.asarray(got, dtype=float)
    if got.shape != ref_J.shape:
        return math.inf, -1
    if got.size == 0:
        return 0.0, -1
    with np.errstate(all="ignore"):
        err = np.abs(got - ref_J)
        err = np.where(np.isnan(err), np.inf, err)
        err = np.where((got == ref_J) | (np.isnan(got) & np.isnan(ref_J)), 0.0, err)
        err = err.max(axis=1)
        sc = ref_A.max(axis=1)
        r = np.where(err == 0, 0.0, err / np.where(sc > 0, sc, 1e-300))
    k = int(np.argmax(r))
    return float(r[k]), k


def fd_directional(f, x, d, h, levels=3):
    """Central differences of t -> f(x + t d) at t = 0 with Richardson extrapolation.

    Returns (D, err_estimate): ``D`` from the two finest levels, ``err_estimate`` the
    difference to the extrapolation from the two coarser levels."""
    D1 = []
    for k in range(levels):
        hk = h / (2 ** k)
        fp = np.asarray(f(x + hk * d), dtype=float)
        fm = np.asarray(f(x - hk * d), dtype=float)
        D1.append((fp - fm) / (2.0 * hk))
    R = [(4.0 * D1[k + 1] - D1[k]) / 3.0 for k in range(levels - 1)]
    if len(R) == 1:
        return R[0], np.abs(R[0] - D1[-1])
    return R[-1], np.abs(R[-1] - R[-2])


# ------------------------------------------------------- porepy function table (lazy import)
def porepy_funcs():
    """name -> (params -> callable) for the functions of ``porepy.numerics.ad.functions``
    (the callables accept AdArrays and ndarrays, as when wrapped in ``pp.ad.Function``)."""
    from functools import partial

    import porepy as pp

    F = pp.ad.functions
    t = {n: (lambda p, f=getattr(F, n): f) for n in
         ("exp", "log", "abs", "sin", "cos", "tan", "arcsin", "arccos", "arctan", "sinh",
          "cosh", "tanh", "arcsinh", "arccosh", "arctanh", "maximum")}
    t["heaviside"] = lambda p: partial(F.heaviside, float(p.get("zerovalue", 0.5)))
    t["heaviside_smooth"] = lambda p: partial(F.heaviside_smooth, eps=float(p["eps"]))
    t["RegularizedHeaviside"] = lambda p: F.RegularizedHeaviside(
        partial(F.heaviside_smooth, eps=float(p["eps"])))
    t["characteristic_function"] = lambda p: partial(F.characteristic_function,
                                                     float(p["tol"]))
    t["safe_power"] = lambda p: partial(F.safe_power, float(p["power"]),
                                        float(p["zero_val"]), float(p["tol"]))
    t["l2_norm"] = lambda p: partial(F.l2_norm, int(p["dim"]))
    return t
