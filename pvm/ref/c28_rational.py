"""Exact geometry on integer / rational coordinates (reference model for C28, C29, C30, C44).

Everything works on tuples of Python ``int`` or ``fractions.Fraction``; no floating point
enters before the final conversion.  Integer inputs stay integers until a quotient is
needed (``Fraction(num, den)``), which keeps the exhaustive C28 enumeration cheap.

Conventions: points are tuples of length 2 or 3; a segment is a pair of points; a polygon
is a list of points (closed implicitly, simple, not necessarily convex, any orientation).
"""
from __future__ import annotations

import math
from fractions import Fraction as F

# ----------------------------------------------------------------------------- vectors


def fr(p):
    """Exact rational copy of a point given as ints / floats-with-integer-value / Fractions."""
    out = []
    for x in p:
        if isinstance(x, (int, F)):
            out.append(x)
        else:
            xf = float(x)
            out.append(int(xf) if xf == int(xf) else F(xf))
    return tuple(out)


def sub(a, b):
    return tuple(x - y for x, y in zip(a, b))


def add(a, b):
    return tuple(x + y for x, y in zip(a, b))


def mul(a, s):
    return tuple(x * s for x in a)


def dot(a, b):
    return sum(x * y for x, y in zip(a, b))


def cross3(a, b):
    return (a[1] * b[2] - a[2] * b[1], a[2] * b[0] - a[0] * b[2], a[0] * b[1] - a[1] * b[0])


def cross2(a, b):
    return a[0] * b[1] - a[1] * b[0]


def pad3(a):
    return tuple(a) if len(a) == 3 else (a[0], a[1], 0)


def is_zero(a):
    return all(x == 0 for x in a)


def lerp(a, b, t):
    return tuple(x + (y - x) * t for x, y in zip(a, b))


def quot(n, d):
    """Exact quotient (int when it divides)."""
    q = F(n, d) if isinstance(n, int) and isinstance(d, int) else F(n) / F(d)
    return q


def to_float(p):
    return tuple(float(x) for x in p)


def sqrt_f(x) -> float:
    """Correctly rounded-ish sqrt of a non-negative rational."""
    x = F(x)
    if x == 0:
        return 0.0
    # scale to keep precision for huge / tiny rationals
    return math.sqrt(x.numerator) / math.sqrt(x.denominator) if x.denominator < 2**500 \
        else math.sqrt(float(x))


# ---------------------------------------------------------------- segment - segment


def seg_intersection(a0, a1, b0, b1):
    """Exact intersection of the closed segments a0a1 and b0b1 (2-D or 3-D).

    Returns ("none",), ("point", P) or ("segment", P, Q) with P, Q tuples of Fractions.
    Segments must have positive length.
    """
    nd = len(a0)
    A0, A1, B0, B1 = pad3(a0), pad3(a1), pad3(b0), pad3(b1)
    d1 = sub(A1, A0)
    d2 = sub(B1, B0)
    w = sub(B0, A0)
    if is_zero(d1) or is_zero(d2):
        raise ValueError("zero-length segment")
    n = cross3(d1, d2)
    if not is_zero(n):
        if dot(w, n) != 0:
            return ("none",)  # skew
        nn = dot(n, n)
        t1n = dot(cross3(w, d2), n)
        t2n = dot(cross3(w, d1), n)
        # 0 <= t <= 1  <=>  0 <= tn <= nn   (nn > 0)
        if t1n < 0 or t1n > nn or t2n < 0 or t2n > nn:
            return ("none",)
        t1 = quot(t1n, nn)
        P = tuple(F(x) + F(d) * t1 for x, d in zip(A0, d1))
        return ("point", P[:nd])
    # parallel
    if not is_zero(cross3(w, d1)):
        return ("none",)
    dd = dot(d1, d1)
    s0 = dot(sub(B0, A0), d1)
    s1 = dot(sub(B1, A0), d1)
    lo = max(0, min(s0, s1))
    hi = min(dd, max(s0, s1))
    if lo > hi:
        return ("none",)
    P = tuple(F(x) + F(d) * quot(lo, dd) for x, d in zip(A0, d1))
    if lo == hi:
        return ("point", P[:nd])
    Q = tuple(F(x) + F(d) * quot(hi, dd) for x, d in zip(A0, d1))
    return ("segment", P[:nd], Q[:nd])


def seg_relation(a0, a1, b0, b1, r=None) -> str:
    """Finer class label of a pair (for histograms); ``r`` = seg_intersection result."""
    A0, A1, B0, B1 = pad3(a0), pad3(a1), pad3(b0), pad3(b1)
    d1 = sub(A1, A0)
    d2 = sub(B1, B0)
    w = sub(B0, A0)
    n = cross3(d1, d2)
    if r is None:
        r = seg_intersection(a0, a1, b0, b1)
    if not is_zero(n):
        if dot(w, n) != 0:
            return "skew"
        if r[0] == "none":
            return "coplanar-miss"
        P = r[1]
        k = sum(1 for e in (a0, a1, b0, b1) if all(x == y for x, y in zip(e, P)))
        if k >= 2:
            return "L-endpoint-endpoint"
        if k == 1:
            return "T-endpoint-interior"
        return "X-interior"
    if r[0] == "none":
        return "collinear-disjoint" if is_zero(cross3(w, d1)) else "parallel-offset"
    if r[0] == "point":
        return "collinear-touching"
    # overlap
    S = {tuple(r[1]), tuple(r[2])}
    EA = {tuple(a0), tuple(a1)}
    EB = {tuple(b0), tuple(b1)}
    if EA == EB:
        return "collinear-identical"
    if S == EA or S == EB:
        return "collinear-contained"
    return "collinear-overlap"


def param_on_segment(p, a0, a1):
    """Exact parameter t of the projection of p on the line a0a1 and the squared
    distance of p from that line."""
    d = sub(a1, a0)
    v = sub(p, a0)
    dd = dot(d, d)
    t = quot(dot(v, d), dd)
    foot = tuple(F(x) + F(y) * t for x, y in zip(a0, d))
    r = sub(tuple(F(x) for x in p), foot)
    return t, dot(r, r)


# ---------------------------------------------------------------- distances (squared)


def point_segment_dist2(p, a0, a1):
    """(squared distance, clamped parameter t, closest point)."""
    d = sub(a1, a0)
    dd = dot(d, d)
    if dd == 0:
        v = sub(p, a0)
        return F(dot(v, v)), F(0), tuple(F(x) for x in a0)
    t = quot(dot(sub(p, a0), d), dd)
    t = min(max(t, F(0)), F(1))
    c = tuple(F(x) + F(y) * t for x, y in zip(a0, d))
    v = sub(tuple(F(x) for x in p), c)
    return dot(v, v), t, c


def segment_segment_dist2(a0, a1, b0, b1):
    """Exact squared distance of two closed segments: minimum over the closed-form
    candidates (interior critical point of the two lines, four endpoint projections)."""
    best = None
    for (p, s0, s1) in ((a0, b0, b1), (a1, b0, b1), (b0, a0, a1), (b1, a0, a1)):
        d2, _, _ = point_segment_dist2(p, s0, s1)
        if best is None or d2 < best:
            best = d2
    d1 = sub(a1, a0)
    d2v = sub(b1, b0)
    w = sub(a0, b0)
    a = dot(d1, d1)
    b = dot(d1, d2v)
    c = dot(d2v, d2v)
    d = dot(d1, w)
    e = dot(d2v, w)
    den = a * c - b * b
    if den != 0:
        s = quot(b * e - c * d, den)
        t = quot(a * e - b * d, den)
        if 0 <= s <= 1 and 0 <= t <= 1:
            P = tuple(F(x) + F(y) * s for x, y in zip(a0, d1))
            Q = tuple(F(x) + F(y) * t for x, y in zip(b0, d2v))
            v = sub(P, Q)
            dd = dot(v, v)
            if dd < best:
                best = dd
    return F(best)


# ---------------------------------------------------------------- polygons (2-D)


def polygon_area2_2d(poly):
    """Twice the signed area."""
    n = len(poly)
    return sum(cross2(poly[i], poly[(i + 1) % n]) for i in range(n))


def point_on_segment(p, a0, a1) -> bool:
    d = sub(a1, a0)
    v = sub(p, a0)
    if len(p) == 2:
        if cross2(d, v) != 0:
            return False
    else:
        if not is_zero(cross3(d, v)):
            return False
    s = dot(v, d)
    return 0 <= s <= dot(d, d)


def point_in_polygon_2d(p, poly) -> int:
    """+1 strictly inside, 0 on the boundary, -1 outside (exact; crossing number)."""
    n = len(poly)
    for i in range(n):
        if point_on_segment(p, poly[i], poly[(i + 1) % n]):
            return 0
    inside = False
    px, py = p
    for i in range(n):
        x0, y0 = poly[i]
        x1, y1 = poly[(i + 1) % n]
        if (y0 > py) != (y1 > py):
            # x coordinate of the edge at height py, compared with px exactly
            # x = x0 + (py-y0)*(x1-x0)/(y1-y0)
            lhs = (px - x0) * (y1 - y0)
            rhs = (py - y0) * (x1 - x0)
            if (y1 - y0) > 0:
                if lhs < rhs:
                    inside = not inside
            else:
                if lhs > rhs:
                    inside = not inside
    return 1 if inside else -1


def is_simple_polygon(poly) -> bool:
    """No two non-adjacent edges meet, adjacent edges meet only in their common vertex,
    no zero-length edge, non-zero area."""
    n = len(poly)
    if n < 3:
        return False
    for i in range(n):
        if tuple(poly[i]) == tuple(poly[(i + 1) % n]):
            return False
    if polygon_area2_2d(poly) == 0:
        return False
    for i in range(n):
        a0, a1 = poly[i], poly[(i + 1) % n]
        for j in range(i + 1, n):
            b0, b1 = poly[j], poly[(j + 1) % n]
            r = seg_intersection(a0, a1, b0, b1)
            adjacent = (j == i + 1) or (i == 0 and j == n - 1)
            if not adjacent:
                if r[0] != "none":
                    return False
            else:
                if r[0] == "segment":
                    return False
    return True


def segment_polygon_intervals(a0, a1, poly):
    """Exact parameter intervals [(t0, t1), ...] (t in [0,1], t0 < t1) of the part of the
    segment a0a1 that lies in the closed polygon region, maximal and sorted.  Isolated
    touching points are not reported.  ``poly`` must be simple."""
    ts = {F(0), F(1)}
    n = len(poly)
    for i in range(n):
        r = seg_intersection(a0, a1, poly[i], poly[(i + 1) % n])
        if r[0] == "none":
            continue
        for P in r[1:]:
            t, _ = param_on_segment(P, a0, a1)
            ts.add(t)
    ts = sorted(ts)
    out = []
    for t0, t1 in zip(ts[:-1], ts[1:]):
        mid = lerp(tuple(F(x) for x in a0), tuple(F(x) for x in a1), (t0 + t1) / 2)
        if point_in_polygon_2d(mid, poly) >= 0:
            if out and out[-1][1] == t0:
                out[-1] = (out[-1][0], t1)
            else:
                out.append((t0, t1))
    return out


def segment_length2(a0, a1):
    d = sub(a1, a0)
    return dot(d, d)


def min_dist2_point_polygon_boundary(p, poly):
    n = len(poly)
    return min(point_segment_dist2(p, poly[i], poly[(i + 1) % n])[0] for i in range(n))


# ---------------------------------------------------------------- planar polygons in 3-D


def polygon_normal(poly):
    """Newell normal (exact); length = twice the area for a planar polygon."""
    n = len(poly)
    s = (0, 0, 0)
    o = poly[0]
    for i in range(1, n - 1):
        s = add(s, cross3(sub(poly[i], o), sub(poly[i + 1], o)))
    return s


def polygon_is_planar(poly) -> bool:
    nrm = polygon_normal(poly)
    if is_zero(nrm):
        return False
    return all(dot(sub(q, poly[0]), nrm) == 0 for q in poly)


def drop_axis(nrm) -> int:
    a = [abs(x) for x in nrm]
    return a.index(max(a))


def project2(p, axis):
    return tuple(x for i, x in enumerate(p) if i != axis)


def polygon_area_3d(poly) -> float:
    nrm = polygon_normal(poly)
    return 0.5 * sqrt_f(dot(nrm, nrm))


def point_polygon_dist2_3d(p, poly):
    """Exact squared distance of p from the closed planar polygon region, and whether the
    orthogonal projection falls strictly inside (+1), on the boundary (0) or outside (-1)."""
    nrm = polygon_normal(poly)
    nn = dot(nrm, nrm)
    h = quot(dot(sub(p, poly[0]), nrm), nn)
    foot = tuple(F(x) - F(y) * h for x, y in zip(p, nrm))
    ax = drop_axis(nrm)
    where = point_in_polygon_2d(project2(foot, ax), [project2(q, ax) for q in poly])
    if where >= 0:
        return h * h * nn, where, foot
    n = len(poly)
    best = None
    bc = None
    for i in range(n):
        d2, _, c = point_segment_dist2(p, poly[i], poly[(i + 1) % n])
        if best is None or d2 < best:
            best, bc = d2, c
    return best, where, bc


def segment_polygon_dist2_3d(a0, a1, poly):
    """Exact squared distance between a closed segment and a closed planar polygon region."""
    nrm = polygon_normal(poly)
    ax = drop_axis(nrm)
    poly2 = [project2(q, ax) for q in poly]
    h0 = dot(sub(a0, poly[0]), nrm)
    h1 = dot(sub(a1, poly[0]), nrm)
    n = len(poly)
    if h0 == 0 and h1 == 0:
        # in the plane: zero iff an endpoint is in the region or the segment meets an edge
        if point_in_polygon_2d(project2(a0, ax), poly2) >= 0:
            return F(0)
        if point_in_polygon_2d(project2(a1, ax), poly2) >= 0:
            return F(0)
    elif (h0 <= 0 <= h1) or (h1 <= 0 <= h0):
        t = quot(h0, h0 - h1)
        x = lerp(tuple(F(v) for v in a0), tuple(F(v) for v in a1), t)
        if point_in_polygon_2d(project2(x, ax), poly2) >= 0:
            return F(0)
    best = min(point_polygon_dist2_3d(a0, poly)[0], point_polygon_dist2_3d(a1, poly)[0])
    for i in range(n):
        d2 = segment_segment_dist2(a0, a1, poly[i], poly[(i + 1) % n])
        if d2 < best:
            best = d2
    return F(best)


# ---------------------------------------------------------------- convex clipping


def clip_polygon_halfspace(poly, q, nrm):
    """Sutherland-Hodgman step: keep the part of the (planar, convex or not - exact for
    convex) polygon with (x - q).nrm <= 0.  Returns a list of points (Fractions)."""
    out = []
    n = len(poly)
    if n == 0:
        return out
    vals = [dot(sub(p, q), nrm) for p in poly]
    for i in range(n):
        p0, p1 = poly[i], poly[(i + 1) % n]
        v0, v1 = vals[i], vals[(i + 1) % n]
        if v0 <= 0:
            out.append(tuple(F(x) for x in p0))
        if (v0 < 0 and v1 > 0) or (v0 > 0 and v1 < 0):
            t = quot(v0, v0 - v1)
            out.append(lerp(tuple(F(x) for x in p0), tuple(F(x) for x in p1), t))
    # remove consecutive duplicates
    res = []
    for p in out:
        if not res or res[-1] != p:
            res.append(p)
    if len(res) > 1 and res[0] == res[-1]:
        res.pop()
    return res


def clip_polygon_convex(poly, halfspaces):
    """Clip a convex planar polygon by a list of half-spaces (q, outward normal)."""
    cur = [tuple(F(x) for x in p) for p in poly]
    for q, nrm in halfspaces:
        cur = clip_polygon_halfspace(cur, q, nrm)
        if len(cur) < 3:
            return []
    return cur


def convex_polygon_is_convex(poly) -> bool:
    """Planar polygon in 3-D: all turns have the same orientation (collinear allowed)."""
    nrm = polygon_normal(poly)
    n = len(poly)
    sgn = 0
    for i in range(n):
        a, b, c = poly[i], poly[(i + 1) % n], poly[(i + 2) % n]
        s = dot(cross3(sub(b, a), sub(c, b)), nrm)
        if s != 0:
            if sgn == 0:
                sgn = 1 if s > 0 else -1
            elif (s > 0) != (sgn > 0):
                return False
    return sgn != 0
