"""Network geometry of ``pvm.gen.mdg`` recipes (independent of the mesh): distances of
points to fractures, to their relative boundary and to the domain boundary.

2-D: fracture k is the segment recipe["fractures"][k] (z = 0).
3-D: fracture k is an axis-aligned rectangle given by four vertices.
All functions take points as an array of shape (3, n) and return arrays of length n.
"""
from __future__ import annotations

import numpy as np


def _seg_dist(p, a, b):
    """Distance of points p (3, n) to the segment ab."""
    a = np.asarray(a, float).reshape(3, 1)
    b = np.asarray(b, float).reshape(3, 1)
    d = b - a
    t = np.sum((p - a) * d, axis=0) / float(np.sum(d * d))
    t = np.clip(t, 0.0, 1.0)
    q = a + d * t
    return np.sqrt(np.sum((p - q) ** 2, axis=0))


def _pts(p):
    p = np.asarray(p, float)
    if p.ndim == 1:
        p = p.reshape(3, 1)
    return p


class Network:
    def __init__(self, recipe):
        self.dim = int(recipe["dim"])
        self.L = [float(v) for v in recipe["domain"]]
        self.n = len(recipe["fractures"])
        self.fr = []
        for f in recipe["fractures"]:
            v = np.asarray(f, float)
            if self.dim == 2:
                a = np.array([v[0, 0], v[0, 1], 0.0])
                b = np.array([v[1, 0], v[1, 1], 0.0])
                self.fr.append(("seg", a, b))
            else:
                lo, hi = v.min(axis=0), v.max(axis=0)
                ax = int(np.flatnonzero(hi - lo == 0)[0])
                self.fr.append(("rect", ax, lo, hi))

    # -------------------------------------------------------------- measures
    def measure(self, k):
        f = self.fr[k]
        if f[0] == "seg":
            return float(np.linalg.norm(f[2] - f[1]))
        _, ax, lo, hi = f
        ext = [hi[i] - lo[i] for i in range(3) if i != ax]
        return float(ext[0] * ext[1])

    def domain_measure(self):
        return float(np.prod(self.L))

    # -------------------------------------------------------------- distances
    def dist(self, k, p):
        p = _pts(p)
        f = self.fr[k]
        if f[0] == "seg":
            return _seg_dist(p, f[1], f[2])
        _, ax, lo, hi = f
        q = np.clip(p, lo.reshape(3, 1), hi.reshape(3, 1))
        return np.sqrt(np.sum((p - q) ** 2, axis=0))

    def boundary_dist(self, k, p):
        """Distance to the relative boundary of fracture k (end points / edges)."""
        p = _pts(p)
        f = self.fr[k]
        if f[0] == "seg":
            da = np.sqrt(np.sum((p - f[1].reshape(3, 1)) ** 2, axis=0))
            db = np.sqrt(np.sum((p - f[2].reshape(3, 1)) ** 2, axis=0))
            return np.minimum(da, db)
        _, ax, lo, hi = f
        o = [i for i in range(3) if i != ax]
        c = []
        for u, w in ((lo[o[0]], lo[o[1]]), (hi[o[0]], lo[o[1]]), (hi[o[0]], hi[o[1]]),
                     (lo[o[0]], hi[o[1]])):
            x = np.zeros(3)
            x[ax] = lo[ax]
            x[o[0]] = u
            x[o[1]] = w
            c.append(x)
        d = [_seg_dist(p, c[i], c[(i + 1) % 4]) for i in range(4)]
        return np.min(np.array(d), axis=0)

    def _edges(self, k):
        f = self.fr[k]
        _, ax, lo, hi = f
        o = [i for i in range(3) if i != ax]
        c = []
        for u, w in ((lo[o[0]], lo[o[1]]), (hi[o[0]], lo[o[1]]), (hi[o[0]], hi[o[1]]),
                     (lo[o[0]], hi[o[1]])):
            x = np.zeros(3)
            x[ax] = lo[ax]
            x[o[0]] = u
            x[o[1]] = w
            c.append(x)
        return [(c[i], c[(i + 1) % 4]) for i in range(4)]

    def _in_domain_boundary(self, a, b):
        """Is the whole segment ab contained in one face of the domain box?"""
        for i in range(self.dim):
            for v in (0.0, self.L[i]):
                if a[i] == v and b[i] == v:
                    return True
        return False

    def tip_dist(self, k, p):
        """Distance to the tips of fracture k: its end points (2-D) / edges (3-D) that are
        not contained in the domain boundary.  inf when the fracture has no tip."""
        p = _pts(p)
        f = self.fr[k]
        out = np.full(p.shape[1], np.inf)
        if f[0] == "seg":
            for e in (f[1], f[2]):
                if self.domain_boundary_dist(e)[0] > 0:
                    out = np.minimum(out, np.sqrt(np.sum((p - e.reshape(3, 1)) ** 2, axis=0)))
            return out
        for a, b in self._edges(k):
            if not self._in_domain_boundary(a, b):
                out = np.minimum(out, _seg_dist(p, a, b))
        return out

    def domain_boundary_dist(self, p):
        p = _pts(p)
        d = []
        for i in range(self.dim):
            d.append(np.abs(p[i]))
            d.append(np.abs(p[i] - self.L[i]))
        return np.min(np.array(d), axis=0)

    def supporting(self, p, tol):
        """Indices of the fractures that contain every point of p."""
        p = _pts(p)
        return [k for k in range(self.n) if np.all(self.dist(k, p) <= tol)]

    def intersection_ends(self, ks):
        """3-D: end points of the segment common to the rectangles ks (or None)."""
        lo = np.max(np.array([self.fr[k][2] for k in ks]), axis=0)
        hi = np.min(np.array([self.fr[k][3] for k in ks]), axis=0)
        if np.any(hi < lo):
            return None
        free = np.flatnonzero(hi - lo > 0)
        if free.size != 1:
            return None
        return lo.copy(), hi.copy()
