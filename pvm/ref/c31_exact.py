"""Exact (integer / rational) geometry used as the reference model of C31.

All functions take coordinates as Python ints or ``fractions.Fraction`` (the callers
scale the generated multiples of 1/4 to integers), never floats, so every sign below is
decided without rounding.
"""
from __future__ import annotations

from fractions import Fraction as Fr


def sub(a, b):
    return tuple(x - y for x, y in zip(a, b))


def dot(a, b):
    return sum(x * y for x, y in zip(a, b))


def cross3(a, b):
    return (a[1] * b[2] - a[2] * b[1], a[2] * b[0] - a[0] * b[2], a[0] * b[1] - a[1] * b[0])


def cross2(a, b):
    return a[0] * b[1] - a[1] * b[0]


def sign(x) -> int:
    return (x > 0) - (x < 0)


# --------------------------------------------------------------------------- distances
def dist2_point_segment(q, a, b) -> Fr:
    """Exact squared distance of q to the segment ab (any dimension)."""
    e = sub(b, a)
    w = sub(q, a)
    ee = dot(e, e)
    if ee == 0:
        return Fr(dot(w, w))
    t = dot(w, e)
    if t <= 0:
        return Fr(dot(w, w))
    if t >= ee:
        w2 = sub(q, b)
        return Fr(dot(w2, w2))
    return Fr(dot(w, w)) - Fr(t * t, ee)


def dist2_point_triangle(q, a, b, c) -> Fr:
    """Exact squared distance of q to the (non-degenerate) triangle abc in 3-D."""
    n = cross3(sub(b, a), sub(c, a))
    nn = dot(n, n)
    w = sub(q, a)
    if nn != 0:
        # is the orthogonal projection inside the triangle?  (n-component drops out)
        s0 = dot(n, cross3(sub(b, a), sub(q, a)))
        s1 = dot(n, cross3(sub(c, b), sub(q, b)))
        s2 = dot(n, cross3(sub(a, c), sub(q, c)))
        if s0 >= 0 and s1 >= 0 and s2 >= 0:
            s = dot(n, w)
            return Fr(s * s, nn)
    return min(dist2_point_segment(q, a, b), dist2_point_segment(q, b, c),
               dist2_point_segment(q, c, a))


# ----------------------------------------------------------------------------- polygon
def polygon_area2(poly) -> int:
    """Twice the signed area (positive = counter-clockwise)."""
    n = len(poly)
    return sum(cross2(poly[i], poly[(i + 1) % n]) for i in range(n))


def _on_segment(q, a, b) -> bool:
    if cross2(sub(b, a), sub(q, a)) != 0:
        return False
    return min(a[0], b[0]) <= q[0] <= max(a[0], b[0]) and \
        min(a[1], b[1]) <= q[1] <= max(a[1], b[1])


def segments_intersect_2d(a, b, c, d) -> bool:
    """Closed segments ab, cd share at least one point."""
    d1 = sign(cross2(sub(b, a), sub(c, a)))
    d2 = sign(cross2(sub(b, a), sub(d, a)))
    d3 = sign(cross2(sub(d, c), sub(a, c)))
    d4 = sign(cross2(sub(d, c), sub(b, c)))
    if d1 * d2 < 0 and d3 * d4 < 0:
        return True
    return (_on_segment(c, a, b) or _on_segment(d, a, b)
            or _on_segment(a, c, d) or _on_segment(b, c, d))


def polygon_is_simple(poly) -> bool:
    """No zero-length edge, no straight/spiked vertex touching, non-adjacent edges
    disjoint, adjacent edges share only their common vertex."""
    n = len(poly)
    if n < 3 or len(set(poly)) != n:
        return False
    for i in range(n):
        a, b = poly[i], poly[(i + 1) % n]
        for j in range(i + 1, n):
            c, d = poly[j], poly[(j + 1) % n]
            adjacent = (j == i + 1) or (i == 0 and j == n - 1)
            if not adjacent:
                if segments_intersect_2d(a, b, c, d):
                    return False
            else:
                # share exactly one endpoint; the other endpoints must not lie on the
                # neighbouring edge (no fold-back)
                if j == i + 1:
                    if _on_segment(d, a, b) or _on_segment(a, c, d):
                        return False
                else:  # i == 0, j == n-1 : edge j ends where edge i starts
                    if _on_segment(c, a, b) or _on_segment(b, c, d):
                        return False
    return polygon_area2(poly) != 0


def point_in_polygon(q, poly) -> bool:
    """Crossing number with a half-open rule.  q must not lie on the boundary."""
    inside = False
    n = len(poly)
    for i in range(n):
        a, b = poly[i], poly[(i + 1) % n]
        if (a[1] > q[1]) != (b[1] > q[1]):
            # x-coordinate of the crossing compared with q.x, without division
            lhs = cross2(sub(b, a), sub(q, a))   # >0 : q left of a->b
            if (lhs > 0) == (b[1] > a[1]):
                inside = not inside
    return inside


def winding_number_polygon(q, poly) -> int:
    """Exact winding number of the closed polyline around q (q off the boundary)."""
    wn = 0
    n = len(poly)
    for i in range(n):
        a, b = poly[i], poly[(i + 1) % n]
        left = cross2(sub(b, a), sub(q, a))
        if a[1] <= q[1]:
            if b[1] > q[1] and left > 0:
                wn += 1
        else:
            if b[1] <= q[1] and left < 0:
                wn -= 1
    return wn


def min_dist2_to_polygon_boundary(q, poly) -> Fr:
    n = len(poly)
    return min(dist2_point_segment(q, poly[i], poly[(i + 1) % n]) for i in range(n))


# -------------------------------------------------------------------------- polyhedron
def surface_is_closed_oriented(tris) -> bool:
    """Every directed edge occurs exactly once and its reverse exactly once."""
    seen = {}
    for t in tris:
        for k in range(3):
            e = (t[k], t[(k + 1) % 3])
            if e in seen:
                return False
            seen[e] = 1
    return all((b, a) in seen for (a, b) in seen)


def surface_edge_connected(tris) -> bool:
    if not tris:
        return False
    edge_to_tri = {}
    for i, t in enumerate(tris):
        for k in range(3):
            e = frozenset((t[k], t[(k + 1) % 3]))
            edge_to_tri.setdefault(e, []).append(i)
    seen = {0}
    stack = [0]
    while stack:
        i = stack.pop()
        t = tris[i]
        for k in range(3):
            for j in edge_to_tri[frozenset((t[k], t[(k + 1) % 3]))]:
                if j not in seen:
                    seen.add(j)
                    stack.append(j)
    return len(seen) == len(tris)


RAY_DIRECTIONS = [(977, 563, 331), (-701, 887, 419), (613, -389, 953), (307, 811, -997),
                  (-863, -467, 241), (229, -947, -587), (991, 101, 13), (17, 983, 173),
                  (-37, 59, 967), (521, 523, 541)]


def ray_parity(q, verts, tris):
    """Number of proper crossings of a ray from q with the triangles; None if every
    tried direction hits an edge or vertex line exactly."""
    for d in RAY_DIRECTIONS:
        count = 0
        degenerate = False
        for t in tris:
            a, b, c = (sub(verts[t[0]], q), sub(verts[t[1]], q), sub(verts[t[2]], q))
            s0 = dot(d, cross3(a, b))
            s1 = dot(d, cross3(b, c))
            s2 = dot(d, cross3(c, a))
            if s0 == 0 or s1 == 0 or s2 == 0:
                # the line through q along d meets an edge line: only harmless if the
                # remaining signs already disagree strictly
                nz = [s for s in (s0, s1, s2) if s != 0]
                if len(nz) == 2 and sign(nz[0]) != sign(nz[1]):
                    continue
                degenerate = True
                break
            if sign(s0) == sign(s1) == sign(s2):
                # the line crosses the triangle interior; which side of q?
                n = cross3(sub(b, a), sub(c, a))
                num = dot(n, a)        # n.(a - q)
                den = dot(n, d)
                if den == 0:
                    degenerate = True
                    break
                if sign(num) == sign(den):
                    count += 1         # t = num/den > 0
                # num == 0 would mean q on the plane inside the triangle: excluded
        if not degenerate:
            return count
    return None


def signed_volume6(verts, tris):
    """Six times the signed volume enclosed by the oriented surface."""
    return sum(dot(verts[t[0]], cross3(verts[t[1]], verts[t[2]])) for t in tris)


def min_dist2_to_surface(q, verts, tris) -> Fr:
    return min(dist2_point_triangle(q, verts[t[0]], verts[t[1]], verts[t[2]]) for t in tris)


def on_plane_of_some_triangle(q, verts, tris) -> bool:
    for t in tris:
        a, b, c = verts[t[0]], verts[t[1]], verts[t[2]]
        if dot(cross3(sub(b, a), sub(c, a)), sub(q, a)) == 0:
            return True
    return False


# ------------------------------------------------------------------------------ ranks
def points_collinear(pts) -> bool:
    p0 = pts[0]
    d = None
    for p in pts[1:]:
        v = sub(p, p0)
        if any(x != 0 for x in v):
            d = v
            break
    if d is None:
        return True
    return all(all(x == 0 for x in cross3(sub(p, p0), d)) for p in pts)


def points_coplanar(pts) -> bool:
    if points_collinear(pts):
        return True
    p0 = pts[0]
    n = None
    for i in range(1, len(pts)):
        for j in range(i + 1, len(pts)):
            c = cross3(sub(pts[i], p0), sub(pts[j], p0))
            if any(x != 0 for x in c):
                n = c
                break
        if n is not None:
            break
    return all(dot(n, sub(p, p0)) == 0 for p in pts)
