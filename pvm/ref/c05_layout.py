"""Reference model of the EquationSystem dof layout (used by C05, C06, C07, C08).

The model is a plain Python list of the live atomic variables.  The layout demanded by
the property statement: blocks are contiguous and ordered by
(position of the domain in ``mdg.subdomains() + mdg.interfaces()``, creation order).

Nothing here reads private state of the EquationSystem; sizes are computed from the grid
entity counts and the dof multiplicities handed to ``create_variables``.
"""
from __future__ import annotations

import numpy as np


def block_size(grid, dof: dict, is_interface: bool) -> int:
    """Number of dofs of an atomic variable (interfaces carry cell dofs only)."""
    n = int(grid.num_cells) * int(dof.get("cells", 0))
    if not is_interface:
        n += int(grid.num_faces) * int(dof.get("faces", 0))
        n += int(grid.num_nodes) * int(dof.get("nodes", 0))
    return n


def image_size(grid, per: dict, is_interface: bool) -> int:
    """Number of rows an equation contributes on one grid."""
    return block_size(grid, per, is_interface)


class Entry:
    __slots__ = ("var", "name", "grid", "kind", "gpos", "seq", "size", "call")

    def __init__(self, var, name, grid, kind, gpos, seq, size, call):
        self.var = var          # the real pp.ad.Variable (identity only)
        self.name = name
        self.grid = grid
        self.kind = kind        # "sd" | "intf"
        self.gpos = gpos        # position in subdomains()+interfaces()
        self.seq = seq          # creation sequence number
        self.size = size
        self.call = call        # index of the creating call


class RefLayout:
    def __init__(self, mdg):
        self.sds = list(mdg.subdomains())
        self.intfs = list(mdg.interfaces())
        self.domains = self.sds + self.intfs
        self._pos = {id(g): k for k, g in enumerate(self.domains)}
        self.live: list[Entry] = []
        self._seq = 0

    def pos(self, grid) -> int:
        return self._pos[id(grid)]

    def add(self, var, name, grid, dof, call=-1) -> Entry:
        kind = "intf" if self.pos(grid) >= len(self.sds) else "sd"
        e = Entry(var, name, grid, kind, self.pos(grid), self._seq,
                  block_size(grid, dof, kind == "intf"), call)
        self._seq += 1
        self.live.append(e)
        return e

    def remove_where(self, pred) -> list[Entry]:
        gone = [e for e in self.live if pred(e)]
        self.live = [e for e in self.live if not pred(e)]
        return gone

    def ordered(self) -> list[Entry]:
        return sorted(self.live, key=lambda e: (e.gpos, e.seq))

    def blocks(self) -> dict[int, tuple[int, int]]:
        """id(var) -> (start, stop) in the global vector."""
        out = {}
        a = 0
        for e in self.ordered():
            out[id(e.var)] = (a, a + e.size)
            a += e.size
        return out

    def num_dofs(self) -> int:
        return sum(e.size for e in self.live)

    def indices(self, entries) -> np.ndarray:
        """Sorted union of the global indices of ``entries``."""
        b = self.blocks()
        idx = [np.arange(*b[id(e.var)]) for e in entries]
        if not idx:
            return np.zeros(0, dtype=int)
        return np.unique(np.concatenate(idx)).astype(int)

    def global_order(self, entries) -> list[Entry]:
        ids = {id(e.var) for e in entries}
        return [e for e in self.ordered() if id(e.var) in ids]


def express(es, ref: RefLayout, entries, rng, count=None):
    """Express a set of live entries as a VariableList (variable names / md-variables /
    atomic variables in random list order) that names every atomic variable at most once.

    Returns ``(variable_list, entries actually selected)`` - the two describe the same set.
    """
    remaining = list(entries)
    rng.shuffle(remaining)
    wanted = {id(e.var) for e in entries}
    out = []
    chosen = []
    while remaining:
        e = remaining[0]
        same_name = [x for x in ref.live if x.name == e.name]
        r = rng.random()
        if r < 0.35 and all(id(x.var) in wanted for x in same_name) and \
                all(x in remaining for x in same_name):
            out.append(e.name)
            grp = same_name
            kind = "selector_name"
        elif r < 0.65:
            grp = [x for x in remaining if x.name == e.name and x.kind == e.kind]
            grp = grp[:int(rng.integers(1, len(grp) + 1))]
            out.append(es.md_variable(e.name, [x.grid for x in grp]))
            kind = "selector_md"
        else:
            grp = [e]
            out.append(e.var)
            kind = "selector_atomic"
        if count is not None:
            count(kind)
        for x in grp:
            remaining.remove(x)
        chosen += grp
    perm = rng.permutation(len(out))
    return [out[int(k)] for k in perm], chosen


def warm_grids(dims=(2, 3), simplex=True):
    """Build one md-grid of every kind once (numba kernels of the meshing / geometry code
    compile here, outside case timing and before reach counting)."""
    from pvm.gen import mdg as gm
    for r in gm.floor_recipes(dims=(2,), meshes=("cartesian",))[2:4]:
        gm.build(r)
    if simplex:
        gm.build(gm.floor_recipes(dims=(2,), meshes=("simplex",))[2])
    if 3 in dims:
        gm.build(gm.floor_recipes(dims=(3,), meshes=("cartesian",))[1])
