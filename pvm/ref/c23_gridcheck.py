"""Validity identities of a computed grid (the C19 identities), used by C23 to decide
"produces a valid grid" for refined / extruded grids.

``identities(g)`` returns a dict of scalar residuals (all should be ~0 / True):

* ``min_volume``            smallest cell volume (must be > 0)
* ``outward_min``           min of  sign * n_f . (x_f - x_c)  (must be > 0, convex cells)
* ``closed``                max_c | sum_f sigma n_f |                  / h^(dim-1)
* ``normal_length``         max_f | |n_f| - area_f |                   / max area
* ``div_x``                 max_c | sum_f sigma (y_f.n_f) - dim V_c |   / h^dim
* ``div_xx``                max_c | sum_f sigma (y_f.n_f) y_f - (dim+1) V_c y_c | / (h^dim |y|)

with y = x - x0, x0 a node of the grid.  The last three assume planar faces.
"""
from __future__ import annotations

import numpy as np
import scipy.sparse as sps


def identities(g) -> dict:
    dim = g.dim
    nc = g.num_cells
    V = np.asarray(g.cell_volumes, dtype=float)
    out = {"min_volume": float(V.min()), "sum_volume": float(V.sum())}
    if dim == 0 or g.num_faces == 0:
        return out
    h = float(np.max(V)) ** (1.0 / dim)
    fi, ci, sgn = sps.find(g.cell_faces)
    n_out = g.face_normals[:, fi] * sgn
    d = np.sum(n_out * (g.face_centers[:, fi] - g.cell_centers[:, ci]), axis=0)
    out["outward_min"] = float(d.min()) / h ** dim
    S = np.zeros((3, nc))
    for k in range(3):
        S[k] = np.bincount(ci, weights=n_out[k], minlength=nc)
    out["closed"] = float(np.max(np.abs(S))) / h ** (dim - 1)
    nl = np.linalg.norm(g.face_normals, axis=0)
    out["normal_length"] = float(np.max(np.abs(nl - g.face_areas))) / float(np.max(g.face_areas))
    x0 = g.nodes[:, [0]]
    yf = g.face_centers[:, fi] - x0
    yc = g.cell_centers - x0
    yn = np.sum(yf * n_out, axis=0)
    lhs = np.bincount(ci, weights=yn, minlength=nc)
    out["div_x"] = float(np.max(np.abs(lhs - dim * V))) / h ** dim
    M = np.zeros((3, nc))
    for k in range(3):
        M[k] = np.bincount(ci, weights=yn * yf[k], minlength=nc)
    sc = h ** dim * max(1.0, float(np.max(np.abs(yc))))
    out["div_xx"] = float(np.max(np.abs(M - (dim + 1) * V * yc))) / sc
    # every face has one or two cells, with opposite signs if two
    per_face = np.bincount(fi, minlength=g.num_faces)
    ssum = np.bincount(fi, weights=sgn, minlength=g.num_faces)
    out["faces_ok"] = bool(np.all((per_face == 1) | ((per_face == 2) & (ssum == 0))))
    return out


def report(mon, g, prefix: str, mechanism: str, tol: float, detail=None) -> bool:
    """Feed the identities to the monitor; returns True if the grid is valid."""
    r = identities(g)
    ok = True
    if not r["min_volume"] > 0:
        mon.violation(mechanism, {"what": "non-positive cell volume", "min": r["min_volume"],
                                  "detail": detail})
        ok = False
    if "outward_min" not in r:
        return ok
    if not r["faces_ok"]:
        mon.violation(mechanism, {"what": "face with wrong number / signs of cells",
                                  "detail": detail})
        ok = False
    if not r["outward_min"] > 0:
        mon.violation(mechanism, {"what": "normal not outward", "value": r["outward_min"],
                                  "detail": detail})
        ok = False
    for k in ("closed", "normal_length", "div_x", "div_xx"):
        mon.measure(f"{prefix}:{k}", r[k])
        if not r[k] <= tol:
            mon.violation(mechanism, {"what": k, "residual": r[k], "tol": tol,
                                      "detail": detail})
            ok = False
    return ok
