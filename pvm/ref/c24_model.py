"""Reference model of pp.MixedDimensionalGrid for C24: plain dicts fed by the recorded
operations (never by querying the container under test).

    sds   : {subdomain object: data-dict object}            (insertion ordered)
    intfs : {interface object: (first, second) as given}    pair is sorted on read
    bgs   : {subdomain object: boundary-grid object | None} learnt when the real
            container created it (identity only - the model just tracks *which*
            object belongs to which subdomain and when it must disappear)
Objects are compared by identity; ordering key is (-dim, id).
"""
from __future__ import annotations


def _key(g):
    return (-int(g.dim), int(g.id))


class RefMdg:
    def __init__(self):
        self.sds: dict = {}
        self.intfs: dict = {}
        self.intf_data: dict = {}
        self.bgs: dict = {}
        self.bg_data: dict = {}
        self.removed_sds: list = []
        self.removed_intfs: list = []
        self.removed_bgs: list = []

    # ------------------------------------------------------------------ operations
    def add_subdomains(self, grids):
        for g in grids:
            assert not any(g is h for h in self.sds)
            self.sds[g] = None          # data dict identity learnt by observe_sd
            self.bgs[g] = None

    def observe_sd(self, g, data, bg, bg_data):
        """Record the identities of the objects the container created for ``g``."""
        self.sds[g] = data
        self.bgs[g] = bg
        if bg is not None:
            self.bg_data[bg] = bg_data

    def add_interface(self, intf, pair, data):
        assert not any(intf is i for i in self.intfs)
        self.intfs[intf] = tuple(pair)
        self.intf_data[intf] = data

    def remove_subdomain(self, g):
        del self.sds[g]
        self.removed_sds.append(g)
        for i in [i for i, p in self.intfs.items() if p[0] is g or p[1] is g]:
            del self.intfs[i]
            del self.intf_data[i]
            self.removed_intfs.append(i)
        bg = self.bgs.pop(g)
        if bg is not None:
            self.bg_data.pop(bg)
            self.removed_bgs.append(bg)

    def replace_subdomain(self, old, new):
        """Data dictionary moves to the new key; interface pairs point to ``new``; the
        boundary grid is replaced by a fresh one (identity learnt afterwards) that keeps
        the old boundary data dictionary."""
        data = self.sds.pop(old)
        self.sds[new] = data
        self.removed_sds.append(old)
        for i, p in list(self.intfs.items()):
            if p[0] is old or p[1] is old:
                self.intfs[i] = tuple(new if q is old else q for q in p)
        bg = self.bgs.pop(old)
        keep = None
        if bg is not None:
            keep = self.bg_data.pop(bg)
            self.removed_bgs.append(bg)
        self.bgs[new] = None
        return keep                      # data dict the new boundary grid must carry

    def observe_bg(self, g, bg, bg_data):
        self.bgs[g] = bg
        if bg is not None:
            self.bg_data[bg] = bg_data

    # ------------------------------------------------------------------ queries
    def subdomains(self, dim=None):
        return sorted([g for g in self.sds if dim is None or g.dim == dim], key=_key)

    def interfaces(self, dim=None, codim=None):
        return sorted([i for i in self.intfs
                       if (dim is None or i.dim == dim)
                       and (codim is None or i.codim == codim)], key=_key)

    def boundaries(self, dim=None):
        return sorted([b for b in self.bgs.values()
                       if b is not None and (dim is None or b.dim == dim)], key=_key)

    def pair(self, intf):
        a, b = self.intfs[intf]
        return tuple(sorted((a, b), key=_key))

    def interfaces_of(self, g):
        return sorted([i for i, p in self.intfs.items() if p[0] is g or p[1] is g],
                      key=_key)

    def neighbours(self, g, higher=False, lower=False):
        out = []
        for p in self.intfs.values():
            if p[0] is g:
                out.append(p[1])
            elif p[1] is g:
                out.append(p[0])
        if higher:
            out = [h for h in out if h.dim > g.dim]
        if lower:
            out = [h for h in out if h.dim < g.dim]
        return sorted(out, key=_key)
