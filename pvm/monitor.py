"""The per-worker monitor object handed to every check.

A check calls
    mon.violation(mechanism, detail)   the property was observed broken on this case;
                                       ``mechanism`` is a short stable key naming WHAT
                                       failed (a predicate over the case, never a seed
                                       or hash) - known findings are matched on it
    mon.count(key, n=1)                monitor event counters (events observed, oracle
                                       evaluations, per-operation counters, ...)
    mon.klass(label)                   histogram of case classes
    mon.nontrivial(flag=True)          this case is non-trivial by the check's RULE
    mon.measure(name, value)           residuals; min / median / max end up in evidence
    mon.excluded(rule)                 the case (or part of it) was excluded by ``rule``
    mon.inconclusive(reason)           the oracle could not decide this case
"""
from __future__ import annotations

import hashlib
import json
import time
from collections import Counter, defaultdict
from fractions import Fraction

import numpy as np


def to_jsonable(x, _depth=0):
    if _depth > 12:
        return repr(x)[:200]
    if isinstance(x, dict):
        return {str(k): to_jsonable(v, _depth + 1) for k, v in x.items()}
    if isinstance(x, (list, tuple)):
        return [to_jsonable(v, _depth + 1) for v in x]
    if isinstance(x, (set, frozenset)):
        return sorted(to_jsonable(v, _depth + 1) for v in x)
    if isinstance(x, np.ndarray):
        return to_jsonable(x.tolist(), _depth + 1)
    if isinstance(x, (np.integer,)):
        return int(x)
    if isinstance(x, (np.floating,)):
        return float(x)
    if isinstance(x, (np.bool_,)):
        return bool(x)
    if isinstance(x, Fraction):
        return f"{x.numerator}/{x.denominator}"
    if isinstance(x, complex):
        return [x.real, x.imag]
    if isinstance(x, float):
        if x != x or x in (float("inf"), float("-inf")):
            return repr(x)
        return x
    if isinstance(x, (str, int, bool)) or x is None:
        return x
    if hasattr(x, "toarray"):
        return to_jsonable(x.toarray(), _depth + 1)
    return repr(x)[:300]


def case_hash(case) -> str:
    s = json.dumps(to_jsonable(case), sort_keys=True, separators=(",", ":"))
    return hashlib.sha1(s.encode()).hexdigest()[:16]


def shorten(x, limit=1500):
    s = json.dumps(to_jsonable(x), default=str)
    if len(s) <= limit:
        return to_jsonable(x)
    return s[:limit] + "...(truncated)"


class Monitor:
    MAX_MEASURES = 20000

    def __init__(self, prop: str):
        self.prop = prop
        self.counters: Counter = Counter()
        self.classes: Counter = Counter()
        self.exclusions: Counter = Counter()
        self.measures: dict[str, list[float]] = defaultdict(list)
        self.records: list[dict] = []
        self._cur: dict | None = None

    # -- case bracket -------------------------------------------------------
    def begin_case(self, index: int, case) -> None:
        self._cur = {
            "i": index,
            "hash": case_hash(case),
            "nontrivial": False,
            "violations": [],
            "inconclusive": [],
            "classes": [],
            "t0": time.time(),
        }

    def end_case(self) -> dict:
        r = self._cur
        assert r is not None
        r["wall"] = round(time.time() - r.pop("t0"), 4)
        self.records.append(r)
        self._cur = None
        return r

    # -- API for checks -----------------------------------------------------
    def violation(self, mechanism: str, detail=None) -> None:
        assert self._cur is not None
        if len(self._cur["violations"]) < 20:
            self._cur["violations"].append(
                {"mechanism": str(mechanism), "detail": shorten(detail)})
        self.counters["violations_raised"] += 1

    def count(self, key: str, n: int = 1) -> None:
        self.counters[key] += int(n)

    def klass(self, label: str) -> None:
        self.classes[str(label)] += 1
        if self._cur is not None and len(self._cur["classes"]) < 8:
            self._cur["classes"].append(str(label))

    def nontrivial(self, flag: bool = True) -> None:
        assert self._cur is not None
        self._cur["nontrivial"] = bool(flag) or self._cur["nontrivial"]

    def measure(self, name: str, value) -> None:
        v = float(value)
        if v != v or v in (float("inf"), float("-inf")):
            # non-finite residuals are counted, not stored (they would break statistics)
            self.counters[f"nonfinite_measure:{name}"] += 1
            return
        lst = self.measures[name]
        if len(lst) < self.MAX_MEASURES:
            lst.append(v)
        else:  # keep extremes
            if v > lst[0]:
                lst[0] = v

    def excluded(self, rule: str, n: int = 1) -> None:
        self.exclusions[str(rule)] += int(n)

    def inconclusive(self, reason: str) -> None:
        assert self._cur is not None
        self._cur["inconclusive"].append(str(reason)[:500])

    # convenience: compare two arrays, record the residual, raise a violation
    def close(self, name: str, got, want, tol: float, mechanism: str | None = None,
              scale: float | None = None, detail=None) -> bool:
        got = np.asarray(got, dtype=float)
        want = np.asarray(want, dtype=float)
        if got.shape != want.shape:
            self.violation(mechanism or name, {"what": "shape mismatch",
                                               "got": list(got.shape),
                                               "want": list(want.shape),
                                               "detail": detail})
            return False
        if got.size == 0:
            return True
        sc = scale if scale is not None else max(1.0, float(np.max(np.abs(want))))
        with np.errstate(invalid="ignore"):
            err = np.abs(got - want)
        if np.any(np.isnan(err)):
            bad = float("nan")
        else:
            bad = float(np.max(err)) / sc
        self.measure(name, 0.0 if bad != bad else bad)
        if not (bad <= tol):
            k = int(np.nanargmax(np.where(np.isnan(err), np.inf, err)))
            self.violation(mechanism or name, {
                "residual": bad, "tol": tol, "scale": sc, "flat_index": k,
                "got": got.ravel()[k], "want": want.ravel()[k], "detail": detail})
            return False
        return True

    # -- output ---------------------------------------------------------------
    def dump(self) -> dict:
        return {
            "counters": dict(self.counters),
            "classes": dict(self.classes),
            "exclusions": dict(self.exclusions),
            "measures": {k: v for k, v in self.measures.items()},
            "records": self.records,
        }
