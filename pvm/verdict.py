"""Aggregation of worker outputs, three-valued verdict, known findings, evidence."""
from __future__ import annotations

import fnmatch
import json
import statistics
from collections import Counter, defaultdict
from pathlib import Path

ROOT = Path(__file__).resolve().parent.parent
import os
KNOWN = Path(os.environ.get("PVM_KNOWN_FINDINGS", ROOT / "known_findings.json"))


def load_known(prop: str):
    if not KNOWN.exists():
        return [], []
    data = json.loads(KNOWN.read_text())
    known = [e for e in data.get("findings", [])
             if e["property"] == prop and e.get("status") == "known"]
    fixed = [e for e in data.get("findings", [])
             if e["property"] == prop and e.get("status") == "fixed"]
    return known, fixed


def aggregate(mod, prop, tier, seed, total, results, crashed) -> dict:
    counters: Counter = Counter()
    classes: Counter = Counter()
    exclusions: Counter = Counter()
    measures = defaultdict(list)
    reach_fn: Counter = Counter()
    reach_ln: Counter = Counter()
    unresolved = set()
    hashes_nontrivial = set()
    hashes = set()
    ncases = 0
    ninconcl = 0
    inconcl_reasons: Counter = Counter()
    violations = []
    samples = []
    not_run = 0
    wall_cases = []
    porepy_paths = set()
    for r in results:
        counters.update(r["counters"])
        classes.update(r["classes"])
        exclusions.update(r["exclusions"])
        for k, v in r["measures"].items():
            measures[k].extend(v)
        for k, v in r["reach"]["functions"].items():
            reach_fn[k] += v
        for k, v in r["reach"]["lines"].items():
            reach_ln[k] += v
        unresolved.update(r["reach"]["unresolved"])
        for rec in r["records"]:
            ncases += 1
            hashes.add(rec["hash"])
            wall_cases.append(rec.get("wall", 0.0))
            if rec["inconclusive"]:
                ninconcl += 1
                for s in rec["inconclusive"]:
                    inconcl_reasons[s[:160]] += 1
            elif rec["nontrivial"]:
                hashes_nontrivial.add(rec["hash"])
        violations.extend(r["violation_cases"])
        samples.extend(r["samples"])
        not_run += r.get("not_run", 0)
        porepy_paths.add(r.get("porepy_path", "?"))
    # make sure requested reach targets appear even if no worker reported
    for f, q in getattr(mod, "REACH", ()):
        reach_fn.setdefault(f"{f}:{q}", 0)
    for f, s in getattr(mod, "REACH_LINES", ()):
        reach_ln.setdefault(f"{f}:{s}", 0)
    violations.sort(key=lambda v: v["index"])
    samples.sort(key=lambda s: s["index"])
    return dict(
        prop=prop, tier=tier, seed=seed, planned=total, evaluations=ncases,
        distinct=len(hashes), distinct_nontrivial=len(hashes_nontrivial),
        inconclusive_cases=ninconcl, inconclusive_reasons=dict(inconcl_reasons.most_common(5)),
        counters=dict(counters), classes=dict(classes), exclusions=dict(exclusions),
        measures={k: summarize(v) for k, v in measures.items()},
        reach_functions=dict(reach_fn), reach_lines=dict(reach_ln),
        reach_unresolved=sorted(unresolved), violations=violations,
        samples=samples[:6], crashed=crashed, not_run=not_run,
        case_wall_max=max(wall_cases) if wall_cases else 0.0,
        porepy_paths=sorted(porepy_paths),
    )


def summarize(v):
    if not v:
        return {"n": 0}
    return {"n": len(v), "min": min(v), "median": statistics.median(v), "max": max(v)}


def match_known(mech: str, known):
    for e in known:
        if fnmatch.fnmatchcase(mech, e["mechanism"]):
            return e
    return None


def decide(mod, prop, agg, replay_dir: Path) -> int:
    """Print verdict lines, write replay files, return the exit code."""
    known, fixed = load_known(prop)
    new = []
    by_known = defaultdict(list)
    for v in agg["violations"]:
        unknown_mechs = []
        for viol in v["violations"]:
            e = match_known(viol["mechanism"], known)
            if e is None:
                unknown_mechs.append(viol)
            else:
                by_known[e["mechanism"]].append(v)
        if unknown_mechs:
            new.append((v, unknown_mechs))
    agg["known_finding_hits"] = {k: len(v) for k, v in by_known.items()}
    agg["new_violation_cases"] = len(new)
    for e in known:
        # the brief: on the unchanged tree print one line per listed finding
        n = len(by_known.get(e["mechanism"], []))
        print(f"KNOWN-FINDING: property={prop} {e['mechanism']}: {e['description']} "
              f"(observed on {n} cases this run)")
    if new:
        d = replay_dir / prop
        d.mkdir(parents=True, exist_ok=True)
        seen_mech = Counter()
        for v, mechs in new:
            m0 = mechs[0]["mechanism"]
            seen_mech[m0] += 1
            if seen_mech[m0] > 3:
                continue
            p = d / f"{v['hash']}.json"
            p.write_text(json.dumps({
                "property": prop, "seed": agg["seed"], "tier": agg["tier"],
                "index": v["index"], "case": v["case"], "violations": v["violations"],
            }, indent=1))
            print(f"VIOLATION property={prop} replay={p} mechanism={m0}")
        print(f"# {prop}: {len(new)} violating cases, mechanisms: "
              f"{dict(Counter(m[0]['mechanism'] for _, m in new).most_common(8))}")
        agg["verdict"] = "violated"
        return 1
    # inconclusive?
    reasons = []
    ev = max(1, agg["evaluations"])
    if agg["crashed"]:
        reasons.append(f"{len(agg['crashed'])} worker(s) crashed or timed out")
    if agg["evaluations"] + agg["not_run"] < agg["planned"] and not agg["crashed"]:
        reasons.append("fewer cases reported than planned")
    if agg["not_run"] > 0.5 * agg["planned"]:
        reasons.append(f"{agg['not_run']} of {agg['planned']} cases not run (time budget)")
    if agg["inconclusive_cases"] > max(0.02 * ev, 0):
        reasons.append(f"{agg['inconclusive_cases']} inconclusive cases: "
                       f"{agg['inconclusive_reasons']}")
    for k, n in agg["reach_functions"].items():
        if n == 0:
            reasons.append(f"required function never executed: {k}")
    for k, n in agg["reach_lines"].items():
        if n == 0 and k in agg["reach_unresolved"]:
            # the source line the branch monitor was anchored on no longer exists (the code
            # was edited): the branch counter is unavailable, the oracle still decides
            print(f"# WARN {prop}: reach anchor not found in the current source: {k}")
        elif n == 0:
            reasons.append(f"required line never executed: {k}")
    for k, minimum in getattr(mod, "REQUIRED", {}).items():
        if agg["counters"].get(k, 0) < minimum:
            reasons.append(f"monitor counter {k}={agg['counters'].get(k, 0)} < {minimum}")
    if agg["distinct_nontrivial"] < 2:
        reasons.append("fewer than 2 distinct non-trivial cases")
    if reasons:
        agg["verdict"] = "inconclusive"
        agg["inconclusive_why"] = reasons
        for r in reasons:
            print(f"INCONCLUSIVE property={prop} {r}")
        return 2
    agg["verdict"] = "held"
    print(f"# {prop}: held on {agg['evaluations']} cases "
          f"({agg['distinct_nontrivial']} distinct non-trivial), {agg['wall_s']} s")
    return 0


def evidence(mod, prop, tier, seed, agg) -> dict:
    cov = {
        "evaluations": agg["evaluations"],
        "distinct_nontrivial": agg["distinct_nontrivial"],
        "distinct": agg["distinct"],
        "rule": getattr(mod, "RULE", ""),
        "samples": agg["samples"] or [{"note": "no sample recorded"}],
        "verdict": agg.get("verdict"),
        "planned_cases": agg["planned"],
        "cases_not_run_time_budget": agg["not_run"],
        "inconclusive_cases": agg["inconclusive_cases"],
        "inconclusive_reasons": agg["inconclusive_reasons"],
        "monitor_counters": agg["counters"],
        "case_classes": agg["classes"],
        "exclusions": agg["exclusions"],
        "residuals": agg["measures"],
        "reach_functions": agg["reach_functions"],
        "reach_lines": agg["reach_lines"],
        "reach_anchors_not_found_in_source": agg["reach_unresolved"],
        "known_finding_hits": agg.get("known_finding_hits", {}),
        "new_violation_cases": agg.get("new_violation_cases", 0),
        "max_case_wall_s": agg["case_wall_max"],
        "porepy_under_test": agg["porepy_paths"],
        "exhaustive": bool(getattr(mod, "EXHAUSTIVE", {}).get(tier, False)),
    }
    if agg.get("inconclusive_why"):
        cov["inconclusive_why"] = agg["inconclusive_why"]
    if agg["crashed"]:
        cov["crashed_workers"] = agg["crashed"]
    return {
        "property_id": prop,
        "tier": tier,
        "seed": seed,
        "level": getattr(mod, "LEVEL", "exploration"),
        "coverage": cov,
        "assumptions": list(getattr(mod, "ASSUMPTIONS", [])),
        "wall_s": agg["wall_s"],
        "violations": agg.get("new_violation_cases", 0),
    }
