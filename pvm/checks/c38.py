"""C38 Exported states are restored exactly on import.

Reference-model monitor on a file round trip.  A generated md-grid (independent
subdomains mixing triangles, quadrilaterals, pentagons, hexagons and their extrusions,
several subdomains per dimension; fractured Cartesian / simplex md-grids with interfaces)
receives cell data that *encode their own address*:

    value = ((step * 100 + entity_index) * 1000 + cell) * 10 + component

The real ``Exporter`` writes every time step (``write_vtu(..., time_step=k)``,
``write_pvd``) into a per-case temporary directory; the stored data are overwritten with
-1; a fresh ``Exporter`` on the same md-grid imports (``import_from_pvd`` on the
collection file, ``import_from_pvd(is_mdg_pvd=True)`` on one step, and
``import_state_from_vtu`` on the files of one step); every restored value is decoded and
compared with the address it was read from (time step, subdomain/interface, cell,
component).  ``TimeManager.write_time_information`` / ``load_time_information`` is
round-tripped alongside.
"""
from __future__ import annotations

import shutil
import tempfile
from pathlib import Path

import numpy as np

from pvm.gen import c38_grids as cg
from pvm.gen import mdg as gm

PROP = "C38"
N = {"quick": 20, "thorough": 600}
WORKERS = {"quick": 4, "thorough": 16}
TIMEOUT = {"quick": 600, "thorough": 3000}
CASE_TIMEOUT = 300.0
RULE = ("md-grid: 1-3 independent subdomains (general-polygon grids with 3/4/5/6-gons, "
        "their 1-2 layer extrusions, recipes of pvm.gen.grids incl. tetrahedra and "
        "Cartesian hexahedra) or a fractured md-grid of pvm.gen.mdg (with interfaces); "
        "1-4 exported time steps (indices may cross a power of ten), default or explicit "
        "times, binary or ascii files, scalar and 2/3-component vector data on subdomains "
        "and interfaces given by key or by (grid, key, array) tuples; constant data exported "
        "separately, redefined (all or some grids) or extended by a key between 2-4 "
        "exports; non-trivial = at "
        "least two subdomains or two cell shapes; distinct = case hash")
_EX = "viz/exporter.py"
REACH = [
    (_EX, "Exporter._export_grid_0d"), (_EX, "Exporter._export_grid_1d"),
    (_EX, "Exporter._export_grid_2d"), (_EX, "Exporter._export_grid_3d"),
    (_EX, "Exporter._export_simplex_3d"), (_EX, "Exporter._export_hexahedron_3d"),
    (_EX, "Exporter._export_polyhedron_3d"), (_EX, "Exporter._write"),
    (_EX, "Exporter.write_pvd"), (_EX, "Exporter.import_state_from_vtu"),
    (_EX, "Exporter.import_from_pvd"),
    ("numerics/time_step_control.py", "TimeManager.write_time_information"),
    ("numerics/time_step_control.py", "TimeManager.load_time_information"),
]
REACH_LINES = [
    (_EX, "time_index = int(pvd_file.stem[-self._padding :])"),       # md-grid pvd
    (_EX, "time_index = int(float(restart_timestep_str))"),           # collection pvd
    (_EX, "cell_data[field.name].append(field.values[:, ids].T)"),    # vector data
]
REQUIRED = {"imports:collection_pvd": 10, "imports:mdg_pvd": 10, "imports:vtu": 10,
            "values_compared": 1000, "entities_compared:subdomain": 30,
            "entities_compared:interface": 4, "groups:mixed_cell_shapes": 4,
            "groups:several_subdomains": 4, "time_information_round_trips": 10,
            "time_information_repeated_time": 3,
            "constants:imports": 10, "constants:redefinitions": 3,
            "tmpdirs_removed": 10}
ASSUMPTIONS = [
    "file names follow the exporter's convention (prefix without trailing number)",
    "the returned time index is asserted only when the pvd times are the step indices",
    "cell values are integers < 2**31, exactly representable in binary and ascii files",
]
LEVEL_TEXT = ("Every value imported from the exported vtu/pvd files sat on the subdomain / "
              "interface, cell and component it was written from, at the requested (latest) "
              "time step, on the generated md-grids incl. mixed cell shapes; time and dt "
              "lists were restored (exploration).")
TECHNIQUE = "self-addressing cell data, write-read round trip"
KEYS_SD = ("p", "u")
KEYS_INTF = ("lam", "tr")


# ------------------------------------------------------------------------ generators
def _case(rng, grid=None):
    grid = grid or cg.random_spec(rng)
    mode = str(rng.choice(["low", "cross", "single", "static"], p=[0.45, 0.3, 0.15, 0.1]))
    if mode == "low":
        steps = sorted(int(v) for v in rng.choice(9, size=int(rng.integers(2, 5)),
                                                  replace=False))
    elif mode == "cross":
        s0 = int(rng.integers(7, 10))
        steps = list(range(s0, s0 + int(rng.integers(2, 5))))
        if steps[-1] < 10:
            steps.append(10)
    elif mode == "single":
        steps = [int(rng.integers(0, 30))]
    else:
        steps = []
    return {"grid": grid, "steps": steps,
            "times": str(rng.choice(["default", "default", "scaled"])),
            "dt": float(rng.choice([0.5, 0.25, 2.0, 1e-3])),
            "binary": bool(rng.random() < 0.7), "ncomp": int(rng.choice([2, 3])),
            "form": str(rng.choice(["str", "tuple"])),
            "keys": str(rng.choice(["none", "explicit"])),
            "prefix": str(rng.choice(["out", "res_run"])),
            "seed": int(rng.integers(0, 2**31))}


def generate(rng, tier, i):
    return _case(rng)


def _mk(grid, steps, **kw):
    c = {"grid": grid, "steps": steps, "times": "default", "dt": 0.5, "binary": True,
         "ncomp": 3, "form": "str", "keys": "none", "prefix": "out", "seed": 1}
    c.update(kw)
    return c


def floor(tier):
    poly = lambda n, s, l=0: {"kind": "polygon", "n": n, "seed": s, "layers": l}  # noqa: E731
    rec = lambda r: {"kind": "recipe", "recipe": r}  # noqa: E731
    cart3 = {"kind": "cart", "dim": 3, "n": [2, 2, 2], "phys": [1.0, 1.0, 1.0]}
    tet = {"kind": "tet", "dim": 3, "n": [2, 1, 1], "phys": [1.0, 1.0, 1.0]}
    tri = {"kind": "tri", "dim": 2, "n": [2, 2], "phys": [1.0, 1.0]}
    cart2 = {"kind": "cart", "dim": 2, "n": [3, 2], "phys": [3.0, 1.0]}
    line = {"kind": "cart", "dim": 1, "n": [4], "phys": [1.0]}
    multi = lambda *p: {"type": "multi", "parts": list(p)}  # noqa: E731
    out = [
        _mk(multi(poly([4, 2], 3)), [0, 1]),
        _mk(multi(poly([4, 2], 3), poly([3, 2], 5)), [0, 1, 2], form="tuple"),
        _mk(multi(poly([3, 1], 5, 2)), [0, 3], binary=False),
        _mk(multi(poly([3, 1], 5, 1), poly([2, 2], 7, 2)), [2], ncomp=2),
        _mk(multi(rec(cart3)), [0, 1], keys="explicit"),
        _mk(multi(rec(tet)), [0, 1]),
        _mk(multi(rec(cart3), rec(tet)), [1, 2], prefix="res_run"),
        _mk(multi(rec(tri), rec(cart2), rec(line)), [0, 1, 2]),
        _mk(multi(rec(cart2), rec(tri)), [], form="tuple"),
        _mk(multi(poly([4, 2], 11), rec(line)), [8, 9, 10]),
        _mk(multi(rec(cart2)), [8, 9, 10, 11], times="scaled", dt=1.0),
        _mk(multi(rec(cart2)), [0, 1, 2], times="scaled", dt=0.25),
    ]
    for r in gm.floor_recipes():
        if r["dim"] == 3 and r["mesh"] == "simplex":
            out.append(_mk({"type": "mdg", "recipe": r}, [0, 1]))
            continue
        out.append(_mk({"type": "mdg", "recipe": r}, [0, 1, 2] if len(out) % 2 else [9, 10],
                       form="tuple" if len(out) % 3 == 0 else "str",
                       keys="explicit" if len(out) % 2 else "none",
                       binary=bool(len(out) % 4)))
    return out


# --------------------------------------------------------------------------- encoding
def encode(step, idx, ncells, ncomp):
    """Flattened (cell-major) array of self-addressing values."""
    cell = np.arange(ncells)
    comp = np.arange(ncomp)
    v = ((step * 100 + idx) * 1000 + cell[:, None]) * 10 + comp[None, :]
    return v.astype(float).ravel()


def decode(v):
    v = np.asarray(v)
    ok = np.isfinite(v) & (v >= 0) & (v == np.round(v))
    w = np.where(ok, v, 0).astype(np.int64)
    comp = w % 10
    cell = (w // 10) % 1000
    idx = (w // 10000) % 100
    step = w // 1000000
    return ok, step, idx, cell, comp


def _num_cell_shapes(grids):
    kinds = set()
    for g in grids:
        if g.dim < 2:
            kinds.add(("line", g.dim))
            continue
        nn = np.asarray(g.cell_nodes().sum(axis=0)).ravel()
        if g.dim == 3:
            import porepy as pp
            nf = np.unique(np.asarray(abs(g.cell_faces).sum(axis=0)).ravel())
            if nf.size == 1 and nf[0] == 4:
                kinds.add("tetra")
                continue
            if nf.size == 1 and nf[0] == 6 and isinstance(g, pp.CartGrid):
                kinds.add("hexahedron")
                continue
        kinds.update(int(k) for k in np.unique(nn))
    # a mix of tetra/hexahedron/other is exported as polyhedra grouped by node count
    if len(kinds) > 1 and any(isinstance(k, str) for k in kinds):
        kinds = set()
        for g in grids:
            kinds.update(int(k) for k in np.unique(np.asarray(g.cell_nodes().sum(axis=0))))
    return len(kinds)


def _polyhedron_blocks_unsorted(grids3d) -> bool:
    """3-D group exported as polyhedra whose node-count blocks (in order of first
    occurrence) are not ascending: meshio's vtu reader returns cells in first-occurrence
    order but cell data in ascending order."""
    import porepy as pp
    types = set()
    for g in grids3d:
        nf = np.unique(np.asarray(abs(g.cell_faces).sum(axis=0)).ravel())
        if nf.size == 1 and nf[0] == 4:
            types.add("tetra")
        elif nf.size == 1 and nf[0] == 6 and isinstance(g, pp.CartGrid):
            types.add("hexahedron")
        else:
            types.add("polyhedron")
    if types in ({"tetra"}, {"hexahedron"}) or not types:
        return False
    order = []
    for g in grids3d:
        for n in np.unique(np.asarray(g.cell_nodes().sum(axis=0)).ravel()):
            if int(n) not in order:
                order.append(int(n))
    return order != sorted(order)


class _World:
    """The md-grid, its entities in listing order and the data bookkeeping."""

    def __init__(self, mdg, ncomp):
        self.mdg = mdg
        self.sds = list(mdg.subdomains(return_data=True))
        self.intfs = list(mdg.interfaces(return_data=True, codim=1))
        self.ncomp = {"p": 1, "u": ncomp, "lam": 1, "tr": ncomp}

    def entities(self):
        for i, (sd, d) in enumerate(self.sds):
            yield "subdomain", i, sd, d, KEYS_SD
        for i, (intf, d) in enumerate(self.intfs):
            yield "interface", i, intf, d, KEYS_INTF

    def set_step(self, step):
        import porepy as pp
        for kind, i, e, d, keys in self.entities():
            for k in keys:
                pp.set_solution_values(k, encode(step, i, e.num_cells, self.ncomp[k]), d,
                                       time_step_index=0)

    def scramble(self):
        import porepy as pp
        for kind, i, e, d, keys in self.entities():
            for k in keys:
                pp.set_solution_values(k, -np.ones(e.num_cells * self.ncomp[k]), d,
                                       time_step_index=0)

    def tuples(self):
        import porepy as pp
        out = []
        for kind, i, e, d, keys in self.entities():
            for k in keys:
                out.append((e, k, pp.get_solution_values(k, d, time_step_index=0).copy()))
        return out


def _compare(mon, world, want_step, when, string_order_step=None, poly_unsorted=False):
    """Decode every restored value and compare with its address."""
    import porepy as pp
    groups: dict = {}
    for kind, i, e, d, keys in world.entities():
        groups.setdefault((kind, e.dim), []).append(e)
    for kind, i, e, d, keys in world.entities():
        grp = groups[(kind, e.dim)]
        side = [g for intf in grp for g in intf.side_grids.values()] \
            if kind == "interface" else grp
        mixed = _num_cell_shapes(side) > 1
        for k in keys:
            nc = world.ncomp[k]
            got = np.asarray(pp.get_solution_values(k, d, time_step_index=0))
            mon.count(f"entities_compared:{kind}")
            if got.shape != (e.num_cells * nc,):
                mon.violation("import:array-shape", {"when": when, "key": k,
                                                     "got": list(got.shape),
                                                     "want": [e.num_cells * nc]})
                continue
            mon.count("values_compared", got.size)
            ok, step, idx, cell, comp = decode(got)
            if not np.all(ok):
                mon.violation("import:values-not-restored",
                              {"when": when, "key": k, "entity": [kind, i],
                               "first": got[:6]})
                continue
            wcell = np.repeat(np.arange(e.num_cells), nc)
            wcomp = np.tile(np.arange(nc), e.num_cells)
            if got.size and not np.all(step == want_step):
                s = int(step[0])
                uniform = bool(np.all(step == s))
                mech = ("pvd:latest-step-chosen-by-string-order"
                        if uniform and string_order_step is not None
                        and s == string_order_step else "import:wrong-time-step")
                mon.violation(mech, {"when": when, "key": k, "entity": [kind, i],
                                     "got_step": s, "want_step": want_step})
                # continue with the address check: independent of the step
            bad = (idx != i) | (cell != wcell) | (comp != wcomp)
            if np.any(bad):
                j = int(np.flatnonzero(bad)[0])
                mech = ("import:mixed-cell-types-permuted"
                        if mixed and np.all(comp == wcomp) else "import:values-misplaced")
                if poly_unsorted and kind == "subdomain" and e.dim == 3:
                    mech = "import:polyhedron-blocks-not-ascending"
                mon.violation(mech, {
                    "when": when, "key": k, "entity": [kind, i], "dim": e.dim,
                    "position": [int(wcell[j]), int(wcomp[j])],
                    "holds_value_of": {"entity": int(idx[j]), "cell": int(cell[j]),
                                       "component": int(comp[j])},
                    "misplaced_values": int(bad.sum()), "of": int(bad.size)})


def _time_information(case, mon, tmp):
    import porepy as pp
    rng = np.random.default_rng([3838, int(case["seed"])])
    n = int(rng.integers(1, 8))
    tm = pp.TimeManager([0.0, 100.0], 1.0, constant_dt=True)
    times, dts = [], []
    for k in range(n):
        mode = int(rng.integers(0, 3))
        t = [float(rng.uniform(0, 100)), float(k) / 3.0, np.int64(k)][mode]
        dt = [float(rng.uniform(1e-6, 10)), 0.1 * (k + 1), np.int32(k + 1)][mode]
        if k > 0 and rng.random() < 0.25:
            # the same time exported twice in a row (state written twice, stationary
            # problem, repeated export after a failed step): one entry per export
            t = times[-1]
            if rng.random() < 0.5:
                dt = dts[-1]
            mon.count("time_information_repeated_time")
        tm.time, tm.dt = t, dt
        tm.write_time_information(tmp / "times" / "times.json")
        times.append(t)
        dts.append(dt)
    if rng.random() < 0.5:
        tm2 = pp.TimeManager([0.0, 100.0], 1.0, constant_dt=True)
    else:
        # restart with adaptive stepping: the stored dt of a step (possibly shortened below
        # dt_min to land on a scheduled time, or written under other bounds) is restored
        # as written
        tm2 = pp.TimeManager([0.0, 100.0], 1.0, dt_min_max=(0.5, 2.0))
        mon.count("time_information_loaded_into_adaptive_manager")
    tm2.load_time_information(tmp / "times" / "times.json")
    mon.count("time_information_round_trips")
    ok = (len(tm2.exported_times) == n and len(tm2.exported_dt) == n
          and all(float(a) == float(b) for a, b in zip(tm2.exported_times, times))
          and all(float(a) == float(b) for a, b in zip(tm2.exported_dt, dts)))
    if not ok:
        mon.violation("time-information:lists-not-restored",
                      {"written": [times, dts],
                       "read": [tm2.exported_times, tm2.exported_dt]})
        return
    k = int(rng.integers(0, n))
    tm2.set_time_and_dt_from_exported_steps(k)
    if float(tm2.time) != float(times[k]) or float(tm2.dt) != float(dts[k]):
        mon.violation("time-information:time-or-dt-of-step",
                      {"index": k, "got": [tm2.time, tm2.dt], "want": [times[k], dts[k]]})


def _vtu_files(tmp, prefix, world, step):
    ext = "" if step is None else "_" + str(step).zfill(6)
    sdims = sorted({sd.dim for sd, _ in world.sds})
    idims = sorted({intf.dim for intf, _ in world.intfs})
    files = [tmp / f"{prefix}_{d}{ext}.vtu" for d in sdims]
    files += [tmp / f"{prefix}_mortar_{d}{ext}.vtu" for d in idims]
    return files


def _run(case, mon, tmp):
    import porepy as pp
    mdg = cg.build(case["grid"])
    world = _World(mdg, int(case["ncomp"]))
    steps = [int(s) for s in case["steps"]]
    prefix = case["prefix"]
    # classes / non-triviality
    by_dim: dict = {}
    for sd, _ in world.sds:
        by_dim.setdefault(sd.dim, []).append(sd)
    nshape = max(_num_cell_shapes(v) for v in by_dim.values())
    several = max(len(v) for v in by_dim.values()) > 1
    mon.klass(case["grid"]["type"] + (":mixed-shapes" if nshape > 1 else ":uniform")
              + (":several-per-dim" if several else "")
              + (":interfaces" if world.intfs else ""))
    mon.klass("steps:" + ("static" if not steps else "single" if len(steps) == 1 else
                          "cross-decade" if len({len(str(s)) for s in steps}) > 1
                          else "same-width"))
    mon.nontrivial(len(world.sds) >= 2 or nshape > 1)
    for v in by_dim.values():
        if _num_cell_shapes(v) > 1:
            mon.count("groups:mixed_cell_shapes")
        if len(v) > 1:
            mon.count("groups:several_subdomains")
    if max(e.num_cells for _, _, e, _, _ in world.entities()) >= 1000 \
            or len(world.sds) >= 100 or len(world.intfs) >= 100:
        mon.inconclusive("grid too large for the value encoding")
        return

    poly_unsorted = _polyhedron_blocks_unsorted(by_dim.get(3, []))
    if poly_unsorted:
        mon.klass("3d:polyhedron-blocks-not-ascending")

    def guarded(what, fn):
        """Run an import; in the polyhedron-unsorted class meshio's reader may raise."""
        try:
            return True, fn()
        except ValueError as e:
            if not (poly_unsorted and "Incompatible cell data" in str(e)):
                raise
            mon.violation("import:polyhedron-blocks-not-ascending",
                          {"when": what, "error": str(e)[:300]})
            return False, None

    keys = list(KEYS_SD) + (list(KEYS_INTF) if world.intfs else [])
    import_keys = None if case["keys"] == "none" else keys
    ex = pp.Exporter(mdg, prefix, folder_name=tmp, binary=bool(case["binary"]))

    def data_arg():
        return keys if case["form"] == "str" else world.tuples()

    if not steps:
        world.set_step(0)
        ex.write_vtu(data_arg())
        mon.count("vtu_exports")
        world.scramble()
        ex2 = pp.Exporter(mdg, prefix, folder_name=tmp)
        ok, _ = guarded("import_state_from_vtu (no time step)",
                        lambda: ex2.import_state_from_vtu(
                            _vtu_files(tmp, prefix, world, None), import_keys))
        mon.count("imports:vtu")
        if ok:
            _compare(mon, world, 0, "import_state_from_vtu (no time step)",
                     poly_unsorted=poly_unsorted)
        return

    for s in steps:
        world.set_step(s)
        ex.write_vtu(data_arg(), time_step=s)
        mon.count("vtu_exports")
    if case["times"] == "default":
        ex.write_pvd()
        times = [float(s) for s in steps]
    else:
        times = [float(case["dt"]) * s for s in steps]
        ex.write_pvd(np.array(times))
    latest = steps[int(np.argmax(times))]
    # what a comparison of the '%f' strings would select
    strs = ["%f" % t for t in times]
    string_pick = steps[strs.index(sorted(strs)[-1])]
    string_pick = string_pick if string_pick != latest else None
    if string_pick is not None:
        mon.count("pvd:string_order_differs_from_numeric")

    # (a) collection pvd -> latest time step
    world.scramble()
    ex2 = pp.Exporter(mdg, prefix, folder_name=tmp)
    ok, ti = guarded("import_from_pvd(collection)",
                     lambda: ex2.import_from_pvd(tmp / f"{prefix}.pvd", keys=import_keys))
    mon.count("imports:collection_pvd")
    if ok:
        _compare(mon, world, latest, "import_from_pvd(collection)", string_pick,
                 poly_unsorted)
    if ok and case["times"] == "default" and ti != latest:
        mon.violation("pvd:latest-step-chosen-by-string-order"
                      if string_pick is not None and ti == string_pick
                      else "pvd:returned-time-index",
                      {"got": ti, "want": latest, "steps": steps})

    # (b) md-grid pvd of one step
    rng = np.random.default_rng([38, int(case["seed"])])
    s = steps[int(rng.integers(0, len(steps)))]
    world.scramble()
    ex3 = pp.Exporter(mdg, prefix, folder_name=tmp)
    ok, ti = guarded("import_from_pvd(is_mdg_pvd)",
                     lambda: ex3.import_from_pvd(tmp / f"{prefix}_{str(s).zfill(6)}.pvd",
                                                 is_mdg_pvd=True, keys=import_keys))
    mon.count("imports:mdg_pvd")
    if ok:
        _compare(mon, world, s, "import_from_pvd(is_mdg_pvd)", poly_unsorted=poly_unsorted)
    if ok and ti != s:
        mon.violation("pvd:returned-time-index", {"got": ti, "want": s, "mdg_pvd": True})

    # (c) vtu files of one step
    s = steps[int(rng.integers(0, len(steps)))]
    world.scramble()
    ex4 = pp.Exporter(mdg, prefix, folder_name=tmp)
    ok, _ = guarded("import_state_from_vtu",
                    lambda: ex4.import_state_from_vtu(_vtu_files(tmp, prefix, world, s),
                                                      import_keys))
    mon.count("imports:vtu")
    if ok:
        _compare(mon, world, s, "import_state_from_vtu", poly_unsorted=poly_unsorted)


def _constants(case, mon, tmp):
    """Constant-in-time cell data exported to separate files and (re)defined between
    exports: the import of a step restores the values that were current when it was written."""
    import porepy as pp
    rng = np.random.default_rng([3839, int(case["seed"])])
    mdg = cg.build(case["grid"])
    sds = list(mdg.subdomains(return_data=True))
    intfs = list(mdg.interfaces(return_data=True, codim=1))
    ents = [("subdomain", i, e, d) for i, (e, d) in enumerate(sds)] + \
           [("interface", i, e, d) for i, (e, d) in enumerate(intfs)]
    if max(e.num_cells for _, _, e, _ in ents) >= 1000 or len(ents) >= 100:
        return
    tmp = tmp / "const"
    prefix = case["prefix"]
    ex = pp.Exporter(mdg, prefix, folder_name=tmp, binary=bool(case["binary"]),
                     export_constants_separately=True)
    nsteps = int(rng.integers(2, 5))
    version = 0
    current: dict = {}          # (kind, i, key) -> array, as handed to the exporter last
    at_step: list = []          # snapshot of `current` per written step
    for s in range(nsteps):
        defs = []
        if s == 0 or rng.random() < 0.7:
            # (re)definition of the key "kc" on all, or on a random subset of, the grids
            subset = s > 0 and rng.random() < 0.3
            version += 1
            for kind, i, e, d in ents:
                if subset and rng.random() < 0.5:
                    continue
                v = encode(version, i, e.num_cells, 1)
                defs.append((e, "kc", v))
                current[(kind, i, "kc")] = v
            mon.count("constants:redefinitions" if s > 0 else "constants:definitions")
        if s > 0 and rng.random() < 0.3 and not any(k[2] == "kd" for k in current):
            version += 1
            for kind, i, e, d in ents:
                v = encode(version, i, e.num_cells, 1)
                defs.append((e, "kd", v))
                current[(kind, i, "kd")] = v
            mon.count("constants:key_added_later")
        if defs:
            ex.add_constant_data(defs)
        var = [(e, "p", encode(50 + s, i, e.num_cells, 1)) for kind, i, e, d in ents]
        ex.write_vtu(var, time_step=s)
        at_step.append({k: v.copy() for k, v in current.items()})
    ex.write_pvd()

    def imported(what, s, fn):
        for kind, i, e, d in ents:
            d.pop(pp.TIME_STEP_SOLUTIONS, None)
        keys = ["p"] + sorted({k[2] for k in at_step[s]})
        im = pp.Exporter(mdg, prefix, folder_name=tmp, export_constants_separately=True)
        fn(im, keys)
        mon.count("constants:imports")
        for kind, i, e, d in ents:
            for key in keys:
                want = (encode(50 + s, i, e.num_cells, 1) if key == "p"
                        else at_step[s].get((kind, i, key)))
                if want is None:
                    continue
                got = np.asarray(pp.get_solution_values(key, d, time_step_index=0))
                mon.count("constants:values_compared", got.size)
                if got.shape != want.shape or not np.array_equal(got, want):
                    ok, ver, idx, cell, comp = decode(got.ravel()[:1])
                    mon.violation(
                        "constants:not-the-values-of-the-imported-step",
                        {"when": what, "step": s, "key": key, "entity": [kind, i],
                         "got_first": got.ravel()[:3], "want_first": want[:3],
                         "got_definition_no": int(ver[0]) if ver.size else None})
                    return

    last = nsteps - 1
    imported("import_from_pvd(collection)", last,
             lambda im, keys: im.import_from_pvd(tmp / f"{prefix}.pvd", keys=keys))
    s = int(rng.integers(0, nsteps))
    imported("import_from_pvd(is_mdg_pvd)", s,
             lambda im, keys: im.import_from_pvd(tmp / f"{prefix}_{str(s).zfill(6)}.pvd",
                                                 is_mdg_pvd=True, keys=keys))


def check(case, mon):
    tmp = Path(tempfile.mkdtemp(prefix="c38_", dir="/tmp"))
    try:
        _run(case, mon, tmp)
        _time_information(case, mon, tmp)
        _constants(case, mon, tmp)
    finally:
        shutil.rmtree(tmp, ignore_errors=True)
        mon.count("tmpdirs_removed")
