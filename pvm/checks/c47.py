"""C47 Fracture network and data files round-trip.

Reference-model monitor on file round trips: the real writers (``FractureNetwork2d.to_csv``,
``FractureNetwork3d.to_csv``, ``export_data_to_txt``) write a generated object into a
per-case temporary directory, the real readers (``network_2d_from_csv``,
``network_3d_from_csv``, ``read_data_from_txt``) read it back, and the result is compared
with the generated object (the reference is the in-memory description of the case;
for rounded txt formats the reference value is ``float(fmt % value)``).
"""
from __future__ import annotations

import shutil
import tempfile
from pathlib import Path

import numpy as np

PROP = "C47"
N = {"quick": 300, "thorough": 12000}
WORKERS = {"quick": 4, "thorough": 16}
TIMEOUT = {"quick": 300, "thorough": 3000}
CASE_TIMEOUT = 60.0
RULE = ("kind drawn from csv2d (0-8 line fractures, endpoints on a 1/7 lattice or random "
        "floats of scale 1e-3..1e3, shared endpoints allowed, distinct points separated by "
        ">= 1e-3 * scale >> tol, no zero-length fractures; with/without header, with/without "
        "explicit domain, with/without returned ids), csv3d (0-5 planar convex polygons with "
        "3-7 vertices in random planes or axis-aligned rectangles, with/without domain box), "
        "txt (1-5 named arrays of length 1-50, formats %.17e / %.16e / %.6e / default "
        "%2.2e, values of mixed magnitude and sign); non-trivial = at least two fractures "
        "or two arrays / two rows; distinct = case hash")
REACH = [
    ("fracs/fracture_importer.py", "network_2d_from_csv"),
    ("fracs/fracture_importer.py", "network_3d_from_csv"),
    ("fracs/fracture_network_2d.py", "FractureNetwork2d.to_csv"),
    ("fracs/fracture_network_3d.py", "FractureNetwork3d.to_csv"),
    ("utils/txt_io.py", "export_data_to_txt"),
    ("utils/txt_io.py", "read_data_from_txt"),
]
REACH_LINES = [
    ("fracs/fracture_importer.py", "domain = pp.Domain(bbox)"),
    ("fracs/fracture_network_3d.py", "csv_writer.writerow([domain.bounding_box[o] for o in order])"),
]
REQUIRED = {"files_written:csv2d": 10, "files_written:csv3d": 10, "files_written:txt": 10,
            "fractures_compared_2d": 20, "fractures_compared_3d": 20,
            "arrays_compared": 20, "txt:single_array_files": 2, "tmpdirs_removed": 30}
ASSUMPTIONS = [
    "2-D endpoints are either identical or further apart than 1e5 * tol (the importer "
    "merges points closer than tol by design)",
    "txt header names contain no white space and do not start with '#'",
    "3-D polygons are planar and convex; a cyclic re-numbering of the same vertex loop "
    "would not be counted as a difference (none observed)",
]
LEVEL_TEXT = ("csv (2-D, 3-D incl. domain box) and txt round trips restored the generated "
              "fractures / arrays exactly (to the written precision) on the generated "
              "files (exploration).")
TECHNIQUE = "write-read round trip against the in-memory reference"
FORMATS = ["%.17e", "%.16e", "%.6e", "%2.2e"]


# ------------------------------------------------------------------------ generators
def _pts2d(rng, k):
    """k distinct well-separated 2-D points."""
    mode = str(rng.choice(["lattice", "float"]))
    scale = 1.0 if mode == "lattice" else float(10.0 ** int(rng.integers(-3, 4)))
    pts: list[list[float]] = []
    for _ in range(200):
        if len(pts) == k:
            break
        if mode == "lattice":
            p = [int(rng.integers(-14, 15)) / 7.0, int(rng.integers(-14, 15)) / 7.0]
        else:
            p = [float(rng.uniform(-1, 1) * scale), float(rng.uniform(-1, 1) * scale)]
        if all(max(abs(p[0] - q[0]), abs(p[1] - q[1])) >= 1e-3 * scale for q in pts):
            pts.append(p)
    return pts, scale


def _gen_csv2d(rng):
    nf = int(rng.integers(0, 9))
    npts = 0 if nf == 0 else int(rng.integers(max(2, nf // 2 + 1), 2 * nf + 1))
    pts, scale = _pts2d(rng, max(npts, 2))
    fr = []
    for _ in range(nf):
        a, b = rng.choice(len(pts), size=2, replace=False)
        fr.append([pts[int(a)], pts[int(b)]])
    return {"kind": "csv2d", "fractures": fr, "with_header": bool(rng.random() < 0.8),
            "give_domain": bool(rng.random() < 0.5), "return_frac_id": bool(rng.random() < 0.5),
            "box": [-2.0 * scale - 3, 2.0 * scale + 3]}


def _polygon(rng):
    if rng.random() < 0.3:
        # axis-aligned rectangle with lattice coordinates
        ax = int(rng.integers(0, 3))
        c = int(rng.integers(-6, 7)) / 3.0
        lo = [int(rng.integers(-6, 0)) / 3.0, int(rng.integers(-6, 0)) / 3.0]
        hi = [int(rng.integers(1, 7)) / 3.0, int(rng.integers(1, 7)) / 3.0]
        loop = [[lo[0], lo[1]], [hi[0], lo[1]], [hi[0], hi[1]], [lo[0], hi[1]]]
        P = []
        for u, v in loop:
            p = [u, v]
            p.insert(ax, c)
            P.append(p)
        P = np.array(P).T
    else:
        for _ in range(50):
            k = int(rng.integers(3, 8))
            th = np.sort(rng.uniform(0, 2 * np.pi, k))
            gaps = np.diff(np.append(th, th[0] + 2 * np.pi))
            if gaps.min() > 0.3 and gaps.max() < 2.6:
                break
        else:
            th = np.array([0.0, 2.0, 4.0])
            k = 3
        a, b = rng.uniform(0.5, 2.0, size=2)
        p2 = np.vstack((a * np.cos(th), b * np.sin(th)))
        q, _ = np.linalg.qr(rng.normal(size=(3, 3)))
        P = q[:, :2] @ p2 + rng.uniform(-1, 1, size=(3, 1))
    P = P[:, rng.permutation(P.shape[1])]
    return [[float(v) for v in row] for row in P]


def _gen_csv3d(rng):
    give_domain = bool(rng.random() < 0.6)
    nf = int(rng.integers(0 if give_domain else 1, 6))
    box = [float(v) for v in np.round(rng.uniform(-9, -4, size=3), 3)] + \
          [float(v) for v in np.round(rng.uniform(4, 9, size=3), 3)]
    if rng.random() < 0.3:
        box = [-5, -5, -5, 5, 5, 5]        # integers are written without decimal point
    return {"kind": "csv3d", "fractures": [_polygon(rng) for _ in range(nf)],
            "give_domain": give_domain, "box": box}


# names without white space; punctuation, digits-first, python keywords and names that
# differ only in punctuation are all legal column headers of the white-space separated format
_NAMES = ["pressure", "flux", "t", "x_0", "Var1", "a", "b2", "time_step", "T", "y",
          "error_p-norm", "flux[0]", "flux[1]", "k_x/k_y", "u(t)", "rel.error", "file",
          "return", "2nd", "p+", "a:b", "dt=", "x-0", "x0"]


def _values(rng, L):
    mode = str(rng.choice(["unit", "wide", "int", "mixed"]))
    if mode == "unit":
        v = rng.uniform(-1, 1, size=L)
    elif mode == "wide":
        v = rng.uniform(-1, 1, size=L) * 10.0 ** rng.integers(-200, 200, size=L)
    elif mode == "int":
        v = rng.integers(-1000, 1000, size=L).astype(float)
    else:
        v = rng.uniform(-1, 1, size=L) * 10.0 ** rng.integers(-8, 8, size=L)
        v[rng.random(L) < 0.2] = 0.0
    return [float(x) for x in v]


def _gen_txt(rng):
    k = int(rng.choice([1, 1, 2, 3, 4, 5]))
    L = int(rng.choice([1, 2, 3, 5, 10, 50])) if rng.random() < 0.5 else int(rng.integers(1, 51))
    names = [str(s) for s in rng.permutation(_NAMES)[:k]]
    return {"kind": "txt", "names": names,
            "formats": [str(rng.choice(FORMATS)) for _ in range(k)],
            "arrays": [_values(rng, L) for _ in range(k)],
            # data handed over as (1, n) row vectors (np.atleast_2d / table[i:i+1])
            "row_vectors": bool(rng.random() < 0.2)}


def generate(rng, tier, i):
    # a 3-D case costs ~0.4 s (PlaneFracture checks convexity with sympy): lower share
    kind = str(rng.choice(["csv2d", "csv3d", "txt"], p=[0.35, 0.15, 0.5]))
    return {"csv2d": _gen_csv2d, "csv3d": _gen_csv3d, "txt": _gen_txt}[kind](rng)


def floor(tier):
    out = []
    for j in range(10):
        out.append(_gen_csv2d(np.random.default_rng([47, 0, j])))
        out.append(_gen_csv3d(np.random.default_rng([47, 1, j])))
        out.append(_gen_txt(np.random.default_rng([47, 2, j])))
    third = 1.0 / 3.0
    out += [
        # txt: single named array (DESIGN section 3), single row, single value
        {"kind": "txt", "names": ["a"], "formats": ["%2.2e"], "arrays": [[1.0, 2.0, 3.0]]},
        {"kind": "txt", "names": ["a"], "formats": ["%.17e"], "arrays": [[third, -2.5]]},
        {"kind": "txt", "names": ["a", "b"], "formats": ["%.17e", "%2.2e"],
         "arrays": [[1.0], [2.0]]},
        {"kind": "txt", "names": ["a"], "formats": ["%.17e"], "arrays": [[1.0]]},
        {"kind": "txt", "names": ["a"], "formats": ["%.17e"], "arrays": [[1.0, 2.0, 3.0]],
         "row_vectors": True},
        {"kind": "txt", "names": ["a", "b"], "formats": ["%.17e", "%.17e"],
         "arrays": [[1.0, 2.0, 3.0], [4.0, 5.0, 6.0]], "row_vectors": True},
        {"kind": "txt", "names": ["error_p-norm", "flux[0]", "rel.error", "file"],
         "formats": ["%.17e"] * 4, "arrays": [[1.0, 2.0], [3.0, 4.0], [5.0, 6.0], [7.0, 8.0]]},
        {"kind": "txt", "names": ["u(t)", "k_x/k_y"], "formats": ["%2.2e", "%.17e"],
         "arrays": [[0.5, 0.25, 1.0], [third, 2.0, -1.0]]},
        {"kind": "txt", "names": ["a", "b"], "formats": ["%.17e", "%2.2e"],
         "arrays": [[1.0, 2.0], [2.0, third]]},
        {"kind": "txt", "names": ["p", "q", "r", "s", "t"], "formats": ["%.17e"] * 5,
         "arrays": [[float(i + 10 * j) * third for i in range(50)] for j in range(5)]},
        # 2-D: none, one, shared endpoints, no header
        {"kind": "csv2d", "fractures": [], "with_header": True, "give_domain": True,
         "return_frac_id": True, "box": [-1.0, 1.0]},
        {"kind": "csv2d", "fractures": [[[0.1, 0.2], [third, 0.7]]], "with_header": True,
         "give_domain": False, "return_frac_id": False, "box": [-1.0, 1.0]},
        {"kind": "csv2d", "fractures": [[[0.1, 0.2], [third, 0.7]],
                                        [[third, 0.7], [2.0, -1e-5]],
                                        [[2.0, -1e-5], [0.1, 0.2]]],
         "with_header": True, "give_domain": False, "return_frac_id": True,
         "box": [-3.0, 3.0]},
        {"kind": "csv2d", "fractures": [[[0.0, 0.0], [1.0, 1.0]], [[0.0, 1.0], [1.0, 0.0]]],
         "with_header": False, "give_domain": True, "return_frac_id": False,
         "box": [-3.0, 3.0]},
        # 3-D: with and without domain, no fractures
        {"kind": "csv3d", "fractures": [[[0, 1, 1, 0], [0, 0, 1, 1], [0.5, 0.5, 0.5, 0.5]],
                                        [[0.5, 0.5, 0.5], [0, 1, third], [0, 0, 1.0]]],
         "give_domain": True, "box": [-1, -1, -2, 3, 3, 2.5]},
        {"kind": "csv3d", "fractures": [[[0, 1, 1, 0], [0, 0, 1, 1], [0.5, 0.5, 0.5, 0.5]]],
         "give_domain": False, "box": [-1, -1, -2, 3, 3, 2.5]},
        {"kind": "csv3d", "fractures": [], "give_domain": True, "box": [-1, -1, -2, 3, 3, 2.5]},
    ]
    return out


# ----------------------------------------------------------------------------- checks
def _exact(mon, name, got, want, mech, detail=None):
    got = np.asarray(got, dtype=float)
    want = np.asarray(want, dtype=float)
    if got.shape != want.shape:
        mon.violation(mech, {"what": name, "got_shape": list(got.shape),
                             "want_shape": list(want.shape), "got": got, "want": want,
                             "detail": detail})
        return False
    if got.size == 0:
        return True
    with np.errstate(invalid="ignore", over="ignore"):
        d = np.abs(got - want)
        rel = float(np.max(d / np.maximum(np.abs(want), 1e-300)))
    mon.measure(name + ":rel_diff", rel if np.isfinite(rel) else 1e300)
    if not np.array_equal(got, want):
        mon.violation(mech, {"what": name, "max_rel_diff": rel, "got": got, "want": want,
                             "detail": detail})
        return False
    return True


def _csv2d(case, mon, tmp):
    import porepy as pp
    from porepy.fracs import fracture_importer as fi
    fr = [np.asarray(f, dtype=float).T for f in case["fractures"]]       # 2 x 2 each
    lo, hi = case["box"]
    dom = pp.Domain({"xmin": lo, "xmax": hi, "ymin": lo, "ymax": hi})
    net = pp.create_fracture_network([pp.LineFracture(p) for p in fr], dom)
    f = tmp / "net2d.csv"
    hdr = bool(case["with_header"])
    net.to_csv(f, with_header=hdr)
    mon.count("files_written:csv2d")
    mon.klass(f"csv2d:{len(fr)}frac" if len(fr) < 2 else "csv2d:several")
    kw = {} if hdr else {"skip_header": 0}
    if case["give_domain"]:
        kw["domain"] = dom
    res = fi.network_2d_from_csv(f, return_frac_id=bool(case["return_frac_id"]), **kw)
    if case["return_frac_id"]:
        back, ids = res
        _exact(mon, "csv2d:ids", ids, np.arange(len(fr)), "csv2d:fracture-ids")
    else:
        back = res
    if back.num_frac() != len(fr):
        mon.violation("csv2d:number-of-fractures", {"got": back.num_frac(),
                                                    "want": len(fr)})
        return
    for i, p in enumerate(fr):
        got = back._pts[:, back._edges[:2, i]]
        _exact(mon, "csv2d:endpoints", got, p, "csv2d:endpoints", {"fracture": i})
        _exact(mon, "csv2d:fracture-objects", back.fractures[i].pts, p,
               "csv2d:endpoints", {"fracture": i})
        mon.count("fractures_compared_2d")
    if case["give_domain"]:
        bb = back.domain.bounding_box
        _exact(mon, "csv2d:domain", [bb["xmin"], bb["xmax"], bb["ymin"], bb["ymax"]],
               [lo, hi, lo, hi], "csv2d:domain")
    elif fr:
        allp = np.hstack(fr)
        bb = back.domain.bounding_box
        _exact(mon, "csv2d:bounding-box", [bb["xmin"], bb["xmax"], bb["ymin"], bb["ymax"]],
               [allp[0].min(), allp[0].max(), allp[1].min(), allp[1].max()],
               "csv2d:bounding-box")


def _same_loop(a, b):
    """b is a cyclic shift (possibly reversed) of the vertex loop a."""
    k = a.shape[1]
    if b.shape != a.shape:
        return False
    for rev in (False, True):
        c = b[:, ::-1] if rev else b
        for s in range(k):
            if np.array_equal(np.roll(c, s, axis=1), a):
                return True
    return False


def _csv3d(case, mon, tmp):
    import porepy as pp
    from porepy.fracs import fracture_importer as fi
    fr = [pp.PlaneFracture(np.asarray(p, dtype=float)) for p in case["fractures"]]
    b = case["box"]
    dom = pp.Domain({"xmin": b[0], "ymin": b[1], "zmin": b[2],
                     "xmax": b[3], "ymax": b[4], "zmax": b[5]})
    net = pp.create_fracture_network(fr, dom)
    written = [f.pts.copy() for f in net.fractures]
    f = tmp / "net3d.csv"
    gd = bool(case["give_domain"])
    net.to_csv(f, domain=dom if gd else None)
    mon.count("files_written:csv3d")
    mon.klass("csv3d:" + ("domain" if gd else "no-domain")
              + (":none" if not fr else ":one" if len(fr) == 1 else ":several"))
    back = fi.network_3d_from_csv(f, has_domain=gd)
    if len(back.fractures) != len(written):
        mon.violation("csv3d:number-of-fractures", {"got": len(back.fractures),
                                                    "want": len(written)})
        return
    for i, p in enumerate(written):
        got = np.asarray(back.fractures[i].pts)
        if got.shape == p.shape and not np.array_equal(got, p) and _same_loop(p, got):
            mon.excluded("csv3d: vertex loop re-numbered (same polygon)")
            mon.klass("csv3d:renumbered-loop")
        else:
            _exact(mon, "csv3d:vertices", got, p, "csv3d:vertices", {"fracture": i})
        # the written fracture is the generated polygon (as a point set)
        src = np.asarray(case["fractures"][i], dtype=float)
        if sorted(map(tuple, src.T.tolist())) != sorted(map(tuple, p.T.tolist())):
            mon.inconclusive("PlaneFracture changed the vertex set of the generated polygon")
        mon.count("fractures_compared_3d")
    if gd:
        bb = back.domain.bounding_box
        _exact(mon, "csv3d:domain",
               [bb[k] for k in ("xmin", "ymin", "zmin", "xmax", "ymax", "zmax")],
               [float(v) for v in b], "csv3d:domain")
    elif back.domain is not None:
        mon.violation("csv3d:domain-invented", {"domain": repr(back.domain)})


def _txt(case, mon, tmp):
    from porepy.utils import txt_io
    names = list(case["names"])
    arrays = [np.asarray(a, dtype=float) for a in case["arrays"]]
    fmts = list(case["formats"])
    k, L = len(names), arrays[0].size
    shp = (lambda a: a.reshape(1, -1)) if case.get("row_vectors") else (lambda a: a)
    if case.get("row_vectors"):
        mon.count("txt:arrays_given_as_row_vectors")
    data = [txt_io.TxtData(n, shp(a.copy()), fm) if fm != "%2.2e"
            else txt_io.TxtData(n, shp(a.copy()))
            for n, a, fm in zip(names, arrays, fmts)]
    f = tmp / "data.txt"
    txt_io.export_data_to_txt(data, f)
    mon.count("files_written:txt")
    cls = ("single-array" if k == 1 else "several-arrays") + (":single-row" if L == 1 else "")
    mon.klass("txt:" + cls)
    if k == 1:
        mon.count("txt:single_array_files")
        mech = "txt:single-array-read-as-scalar"
    elif L == 1:
        mech = "txt:single-row-read-as-scalars"
    else:
        mech = "txt"
    try:
        back = txt_io.read_data_from_txt(f)
    except TypeError as e:
        if mech == "txt":
            raise
        mon.violation(mech, {"what": "reader raised", "error": repr(e), "columns": k,
                             "rows": L})
        return
    if list(back.keys()) != names:
        mon.violation("txt:names", {"got": list(back.keys()), "want": names})
        return
    for n, a, fm in zip(names, arrays, fmts):
        want = np.array([float(fm % v) for v in a])
        got = back[n]
        if np.ndim(got) != 1:
            mon.violation(mech, {"what": "array read back with wrong dimension",
                                 "name": n, "got": got, "want_shape": [L],
                                 "columns": k, "rows": L})
            continue
        _exact(mon, f"txt:{fm}", got, want, mech, {"name": n, "format": fm})
        if fm in ("%.17e", "%.16e"):
            _exact(mon, "txt:exact-format", got, a, mech, {"name": n, "format": fm})
        mon.count("arrays_compared")
    # unequal lengths are rejected
    try:
        txt_io.export_data_to_txt([txt_io.TxtData("u", np.zeros(2)),
                                   txt_io.TxtData("v", np.zeros(3))], tmp / "bad.txt")
        mon.violation("txt:unequal-lengths-accepted", {})
    except ValueError:
        mon.count("rejections_observed")


def check(case, mon):
    tmp = Path(tempfile.mkdtemp(prefix="c47_", dir="/tmp"))
    try:
        kind = case["kind"]
        if kind == "csv2d":
            mon.nontrivial(len(case["fractures"]) >= 2)
            _csv2d(case, mon, tmp)
        elif kind == "csv3d":
            mon.nontrivial(len(case["fractures"]) >= 2)
            _csv3d(case, mon, tmp)
        else:
            mon.nontrivial(len(case["names"]) >= 2 or len(case["arrays"][0]) >= 2)
            _txt(case, mon, tmp)
    finally:
        shutil.rmtree(tmp, ignore_errors=True)
        mon.count("tmpdirs_removed")
