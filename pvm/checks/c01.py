"""C01 Forward-mode AD values and Jacobians are exact.

Monitor: a generated expression (mini-AST of ``pvm.ref.c01_dual``) is evaluated with the
REAL ``AdArray`` overloads and the REAL ``porepy.numerics.ad.functions`` on leaves from
``initAdArrays``; the ``(val, jac)`` of EVERY node of the tree is recorded and decided by

  (i)   an independent dense dual-number interpreter (rules written from calculus),
  (ii)  plain numpy evaluation of the value,
  (iii) a central-difference / Richardson directional derivative of (ii), used only to
        cross-check (i): a disagreement (i) != (iii) makes the case inconclusive.

The first node (post-order) whose porepy result differs from (i) names the mechanism,
e.g. ``safe_power:jacobian`` or ``pow[ad,ad]:jacobian``.
"""
from __future__ import annotations

import math
import traceback

import numpy as np
import scipy.sparse as sps

from pvm.gen import c01_expr as G
from pvm.ref import c01_dual as R

PROP = "C01"
N = {"quick": 2000, "thorough": 200000}
WORKERS = {"quick": 4, "thorough": 16}
TIMEOUT = {"quick": 300, "thorough": 3000}
CASE_TIMEOUT = 60.0
TOL_V = 1e-11        # value, relative to the running round-off scale S >= |value|
#                      (observed floor 2.3e-15 over 2e5 cases; Jacobian floor 4e-14)
TOL_J = 1e-10        # Jacobian rows, relative to the row maximum of the absolute Jacobian
TOL_FD = 1e-5        # finite-difference cross-check of the reference
KINK_MIN = 1e-2      # required distance from kinks

RULE = ("expression trees of depth 1-5 (+ affine domain fits) over 1-3 independent AdArrays "
        "of size 1-12; binary + - * / ** with operand kinds AdArray|AdArray, float/int/"
        "1-d ndarray (float and int dtype) on the right, float/int on the left (reflected "
        "overloads), ndarray on the left through the reflected overload (the way the parser "
        "calls it; raw `ndarray <op> AdArray` is documented unsupported); csr/csc/coo/dia "
        "matrix and sparse-array @ AdArray with random rectangular matrices (empty rows, "
        "duplicates, explicit zeros); [i], [a:b:c], reversed slices, index arrays with "
        "repeats; unary minus; all of functions.__all__.  The point is drawn first and each "
        "operation admitted only inside its smooth domain (distance >= 1e-2 from kinks of "
        "abs/maximum/l2_norm/heaviside/characteristic_function/safe_power band, |x|<=0.9 for "
        "arcsin/arccos/arctanh, x>=1.2 for arccosh, x>=0.05 for log and non-integer powers, "
        "|denominator|>=0.1, |value|<=1e3, no cancellation worse than 1e2 in + and -). "
        "non-trivial = depth >= 2 and a non-zero reference Jacobian; distinct = case hash")

_OVERLOADS = ["__add__", "__radd__", "__sub__", "__rsub__", "__mul__", "__rmul__",
              "__truediv__", "__rtruediv__", "__pow__", "__rpow__", "__rmatmul__",
              "__neg__", "__getitem__", "_diagvec_mul_jac"]
_FUNCS = [f for f in R.ALL_FUNCS if f != "RegularizedHeaviside"]
REACH = ([("numerics/ad/forward_mode.py", "AdArray." + o) for o in _OVERLOADS]
         + [("numerics/ad/forward_mode.py", "initAdArrays")]
         + [("numerics/ad/functions.py", f) for f in _FUNCS]
         + [("numerics/ad/functions.py", "RegularizedHeaviside.__call__")])
REACH_LINES = [
    # x ** y with an AdArray exponent (the log term), c ** x, ndarray ** x
    ("numerics/ad/forward_mode.py", "self.val ** other.val.astype(float) * np.log(self.val)"),
    ("numerics/ad/forward_mode.py", "(float(other) ** self.val) * np.log(float(other))"),
    ("numerics/ad/forward_mode.py", "new_jac = self._diagvec_mul_jac((other**self.val) * np.log(other))"),
    # maximum: rows taken from the second argument
    ("numerics/ad/functions.py", "max_jac = jacs[0].copy()"),
    # l2_norm for dim > 1
    ("numerics/ad/functions.py", "jac = norm_jac * var.jac"),
]
REQUIRED = dict([("fn:" + f, 20) for f in R.ALL_FUNCS]
                + [("op:" + o, 20) for o in
                   ("__add__", "__radd__", "__sub__", "__rsub__", "__mul__", "__rmul__",
                    "__truediv__", "__rtruediv__", "__pow__", "__rpow__", "__rmatmul__",
                    "__getitem__", "neg")]
                + [("nodes_compared", 2000), ("fd_crosschecks_resolved", 300),
                   ("jacobian_rows_compared", 2000)])
ASSUMPTIONS = [
    "the dense dual-number interpreter is correct wherever it agrees with Richardson-"
    "extrapolated central differences of the plain numpy evaluation to 1e-5",
    "points lie inside the smooth domain of every node (generator rule; re-verified by the "
    "check from the reference's kink distances, otherwise the case is excluded)",
    "inside the safe_power tolerance band the expression is the constant zero_val, hence "
    "its true derivative there is 0 (separate mechanism key safe_power:jacobian-in-band)",
]
LEVEL_TEXT = ("Every node of randomly composed AdArray expressions (all overloads, sparse "
              "products, slicing, the whole function library) agrees with an independent "
              "dual-number interpreter to 1e-11 (values) / 1e-10 (Jacobian rows) at random "
              "points inside the smooth domain; the interpreter itself is cross-checked by "
              "finite differences. Exploration, not proof.")
TECHNIQUE = "reference-model monitor (dense dual numbers + finite-difference cross-check)"

LEFT = ["const", "const", "int", "arr", "arr_int"]
RIGHT = ["const", "const", "int", "arr", "arr", "arr_int"]


# ------------------------------------------------------------------------- generation
def _draw_point(rng, sizes):
    boxes = [(0.3, 2.5), (0.3, 2.5), (-2.0, 2.0), (-0.9, 0.9), (1.2, 4.0), (-3.0, -0.3)]
    xs = []
    for n in sizes:
        lo, hi = boxes[int(rng.integers(len(boxes)))]
        xs.append([G._r(v) for v in rng.uniform(lo, hi, size=n)])
    return xs


def _pool(xs):
    pool = []
    for i, x in enumerate(xs):
        v = np.asarray(x, dtype=float)
        pool.append({"node": {"op": "var", "i": i}, "size": v.size, "typ": "ad",
                     "val": (lambda ts, it, v=v: v if (ts, it) == (0, 0) else None)})
    return pool


def _reference(tree, xs):
    """Evaluate the tree with the dense dual interpreter; returns (alg, root result)."""
    sizes = [len(x) for x in xs]
    off = np.concatenate([[0], np.cumsum(sizes)]).astype(int)
    m = int(off[-1])

    def leaf(node, alg):
        i = node["i"]
        J = np.zeros((sizes[i], m))
        J[np.arange(sizes[i]), off[i] + np.arange(sizes[i])] = 1.0
        return R.Dual(np.asarray(xs[i], dtype=float), J)

    alg = R.RefAlgebra(m, leaf)
    with np.errstate(all="ignore"):
        root = R.walk(tree, alg)
    return alg, root, off, m


def _acceptable(tree, xs):
    try:
        alg, root, _, _ = _reference(tree, xs)
    except Exception:
        return False
    if not isinstance(root, R.Dual):
        return False
    if not (np.all(np.isfinite(root.v)) and np.all(np.isfinite(root.J))):
        return False
    for r in alg.results.values():
        if isinstance(r, R.Dual) and not (np.all(np.isfinite(r.J)) and np.all(np.isfinite(r.S))):
            return False
    return alg.kink >= G.KINK and alg.hmax > 1e-6 and alg.kappa < 1e6


def _make(rng, depth, force=None):
    nv = int(rng.integers(1, 4))
    sizes = [int(rng.integers(1, 13)) for _ in range(nv)]
    if force and force.get("l2"):
        sizes[0] = int(rng.integers(1, 5)) * force["l2"]
    for _ in range(50):
        xs = _draw_point(rng, sizes)
        gen = G.ExprGen(rng, _pool(xs), left_consts=LEFT, right_consts=RIGHT,
                        mat_left=("mat",), getitem=True, shifts=False, free_sizes=True)
        n = sizes[int(rng.integers(nv))] if rng.random() < 0.7 else int(rng.integers(1, 13))
        try:
            if force is None:
                node, val, typ = gen.vec(n, depth)
            else:
                r = _forced(gen, rng, force, n, depth)
                if r is None:
                    continue
                node, val, typ = r
        except RecursionError:
            continue
        if _acceptable(node, xs):
            return {"x": xs, "tree": R.pack_tree(node),
                    "dseed": int(rng.integers(1, 2 ** 31))}
    # fall back to something that always works
    xs = [[0.5, 1.5, 2.0]]
    return {"x": xs, "tree": {"op": "mul", "a": {"op": "var", "i": 0},
                              "b": {"op": "var", "i": 0}}, "dseed": 1}


def _forced(gen, rng, force, n, depth):
    """Floor helper: a tree whose root is a given function / operation."""
    if "fn" in force:
        name = force["fn"]
        if name == "l2_norm":
            dim = force.get("l2", 1)
            a, va, ta = gen.vec(n * dim, depth - 1)
            res = R._np_l2(dim, va)
            if np.min(res) < G.KINK:
                return None
            return {"op": "fn", "name": "l2_norm", "p": {"dim": dim}, "args": [a]}, res, ta
        if name == "maximum":
            for _ in range(20):
                r = gen._mk_fn2(n, depth, (0, 0))
                if r is not None and r[0].get("name") == "maximum":
                    return r
            return None
        a, va, ta = gen.vec(n, depth - 1)
        return gen.apply_unary(name, a, va, ta)
    op, side, kind = force["op"], force["side"], force["kind"]
    a, va, ta = gen.vec(n, depth - 1)
    if op == "neg":
        return {"op": "neg", "a": a}, -va, ta
    if op == "getitem":
        return gen._mk_getitem(n, depth, (0, 0))
    if op == "matmul":
        return gen._mk_matmul(n, depth, (0, 0))
    if kind == "ad":
        b, vb, tb = gen.vec(n, max(0, depth - 1))
        return gen._try_bin(op, a, va, b, vb, ta, tb)
    c = gen._const_for(op, side, [kind], n, va)
    if c is None:
        return None
    if side == "r":
        return gen._try_bin(op, a, va, c[0], c[1], ta, "const")
    return gen._try_bin(op, c[0], c[1], a, va, "const", ta)


def _v(i=0):
    return {"op": "var", "i": i}


def _c(v):
    return {"op": "const", "v": v}


HAND = [
    # the witnesses of DESIGN section 3: safe_power with a negative / a natural power
    {"x": [[0.5, 2.0, -3.0]], "dseed": 1, "tree": {"op": "fn", "name": "safe_power", "args": [_v()],
     "p": {"power": -1.0, "zero_val": 7.0, "tol": 1e-8}}},
    {"x": [[0.5, 2.0, -3.0]], "dseed": 2, "tree": {"op": "fn", "name": "safe_power", "args": [_v()],
     "p": {"power": 2.0, "zero_val": 7.0, "tol": 1e-8}}},
    # power 1: derivative 1 everywhere outside the band
    {"x": [[0.5, 2.0, -3.0]], "dseed": 3, "tree": {"op": "fn", "name": "safe_power", "args": [_v()],
     "p": {"power": 1.0, "zero_val": 0.0, "tol": 1e-8}}},
    # entries inside the band: value zero_val, derivative 0
    {"x": [[0.5, 2.0, 0.0, 0.05]], "dseed": 4, "tree": {"op": "fn", "name": "safe_power", "args": [_v()],
     "p": {"power": -1.0, "zero_val": 0.0, "tol": 0.1}}},
    # size-one array, integer index, exponent 0 and 1, integer scalars on both sides
    {"x": [[1.7]], "dseed": 5, "tree": {"op": "pow", "a": _v(), "b": {"op": "int", "v": 0}}},
    {"x": [[1.7, -0.4]], "dseed": 6, "tree": {"op": "pow", "a": _v(), "b": {"op": "int", "v": 1}}},
    {"x": [[1.7, -0.4, 2.2]], "dseed": 7, "tree": {"op": "getitem", "a": {"op": "mul", "a": _v(), "b": _v()},
                                                    "key": {"k": "int", "i": -1}}},
    {"x": [[1.7, 0.4]], "dseed": 8, "tree": {"op": "sub", "a": {"op": "int", "v": 3},
                                             "b": {"op": "div", "a": {"op": "int", "v": 2}, "b": _v()}}},
    # x ** y with both AdArrays, 2 ** x, array ** x, x ** array
    {"x": [[1.7, 0.4], [0.3, -1.2]], "dseed": 9, "tree": {"op": "pow", "a": _v(0), "b": _v(1)}},
    {"x": [[1.7, -0.4]], "dseed": 10, "tree": {"op": "pow", "a": _c(2.0), "b": _v()}},
    {"x": [[1.7, -0.4]], "dseed": 11, "tree": {"op": "pow", "a": {"op": "arr", "v": [2, 3], "dtype": "int"}, "b": _v()}},
    {"x": [[1.7, 0.4]], "dseed": 12, "tree": {"op": "pow", "a": _v(), "b": {"op": "arr", "v": [-1.5, 2.0]}}},
    # l2_norm of tiny but non-zero vectors (|v| ~ 1e-7 .. 1e-9): differentiable, d|v| = v/|v|
    {"x": [[3e-7, -4e-7, 1e-8, 2e-7, 5e-9, -1e-7]], "dseed": 13, "near_kink_ok": True,
     "tree": {"op": "fn", "name": "l2_norm", "p": {"dim": 2}, "args": [_v()]}},
    {"x": [[3e-7, -4e-7, 1e-8, 2e-7, 5e-9, -1e-7]], "dseed": 14, "near_kink_ok": True,
     "tree": {"op": "fn", "name": "l2_norm", "p": {"dim": 3}, "args": [_v()]}},
    {"x": [[2e-9, 1e-9, -2e-9, 1.0, 2.0, 2.0]], "dseed": 15, "near_kink_ok": True,
     "tree": {"op": "fn", "name": "l2_norm", "p": {"dim": 3},
              "args": [{"op": "mul", "a": _v(), "b": _c(0.5)}]}},
    # matrix with an empty row and a duplicate entry, all formats
] + [
    {"x": [[1.0, -2.0, 0.5]], "dseed": 20 + k, "tree": {
        "op": "matmul", "a": {"op": "mat", "fmt": f, "shape": [3, 3],
                              "ijv": [[0, 0, 2, 2], [0, 2, 1, 1], [1.5, -1.0, 2.0, 0.5]]},
        "b": {"op": "mul", "a": _v(), "b": _v()}}}
    for k, f in enumerate(G.MAT_FORMATS)
] + [
    # maximum: both orders, scalar / array second argument
    {"x": [[1.0, -2.0, 0.5]], "dseed": 30, "tree": {"op": "fn", "name": "maximum", "p": {}, "args": [_v(), _c(0.7)]}},
    {"x": [[1.0, -2.0, 0.5]], "dseed": 31, "tree": {"op": "fn", "name": "maximum", "p": {}, "args": [_c(0.7), _v()]}},
    {"x": [[1.0, -2.0, 0.5]], "dseed": 32, "tree": {"op": "fn", "name": "maximum", "p": {},
                                                    "args": [_v(), {"op": "arr", "v": [2.0, -3.0, 0.0]}]}},
    {"x": [[1.0, -2.0, 0.5]], "dseed": 33, "tree": {"op": "fn", "name": "maximum", "p": {},
                                                    "args": [{"op": "arr", "v": [2.0, -3.0, 0.0]}, _v()]}},
    {"x": [[1.0, -2.0, 0.5], [0.0, 0.0, 0.0]], "dseed": 34, "tree": {
        "op": "fn", "name": "maximum", "p": {}, "args": [{"op": "mul", "a": _v(0), "b": _v(0)},
                                                       {"op": "add", "a": _v(1), "b": _c(0.5)}]}},
]


def floor(tier):
    out = [dict(c) for c in HAND]
    k = 0
    # every function of the library 20 times at the root of a small tree
    for name in R.ALL_FUNCS:
        for j in range(20):
            rng = np.random.default_rng([101, k])
            k += 1
            force = {"fn": name}
            if name == "l2_norm":
                force["l2"] = 1 + j % 3
            out.append(_make(rng, 1 + j % 3, force))
    # every overload / operand kind at the root
    combos = []
    for op in ("add", "sub", "mul", "div", "pow"):
        combos += [(op, "r", "ad"), (op, "r", "const"), (op, "r", "int"), (op, "r", "arr"),
                   (op, "r", "arr_int"), (op, "l", "const"), (op, "l", "int"),
                   (op, "l", "arr"), (op, "l", "arr_int")]
    combos += [("neg", "r", "ad"), ("getitem", "r", "ad"), ("matmul", "l", "mat")] * 3
    for (op, side, kind) in combos:
        for j in range(8):
            rng = np.random.default_rng([102, k])
            k += 1
            out.append(_make(rng, 1 + j % 3, {"op": op, "side": side, "kind": kind}))
    return out


def generate(rng, tier, i):
    depth = int(rng.choice([1, 2, 2, 3, 3, 4, 4, 5]))
    return _make(rng, depth)


# ------------------------------------------------------------------------------ check
_PPF = None


def _ppfuncs():
    global _PPF
    if _PPF is None:
        _PPF = R.porepy_funcs()
    return _PPF


def warmup():
    import porepy  # noqa: F401
    _ppfuncs()


def _viol(mon, mechanism, detail=None):
    """Violation + a complete per-mechanism counter (the runner keeps only the first 50
    violating cases of a worker)."""
    mon.count("mechanism:" + mechanism)
    mon.violation(mechanism, detail)


def _fin(x):
    x = float(x)
    return x if math.isfinite(x) else 1e300


def _child_kind(node):
    op = node["op"]
    if op == "const":
        return "float"
    if op == "int":
        return "int"
    if op == "arr":
        return "arr_int" if node.get("dtype") == "int" else "arr"
    if op == "mat":
        return node.get("fmt", "csr")
    return "ad"


def _label(node):
    op = node["op"]
    if op == "fn":
        return node["name"]
    if op in R.BIN:
        return f"{op}[{_child_kind(node['a'])},{_child_kind(node['b'])}]"
    if op == "getitem":
        return f"getitem[{node['key']['k']}]"
    return op


def check(case, mon):
    import porepy as pp

    xs = [np.asarray(x, dtype=float) for x in case["x"]]
    tree = R.tree_of(case)
    dep = R.depth(tree)
    mon.klass(f"depth{min(dep, 7)}")
    mon.klass("root:" + _label(tree).split("[")[0])

    # (i) reference
    ref, rroot, off, m = _reference(tree, [list(x) for x in xs])
    if not isinstance(rroot, R.Dual):
        mon.excluded("expression does not depend on any AdArray")
        return
    if ref.kink < KINK_MIN and not case.get("near_kink_ok"):
        mon.excluded("point closer than 1e-2 to a kink")
        return
    if case.get("near_kink_ok"):
        # hand-written points close to, but not on, a kink where the function is
        # differentiable and the reference derivative is exact (dual numbers need no step)
        mon.count("points_close_to_a_kink_but_differentiable")
    mon.nontrivial(dep >= 2 and bool(np.any(rroot.J != 0)))
    if math.isfinite(ref.kink):
        mon.measure("kink_distance", ref.kink)
    mon.measure("max_conditioning_S_over_val", _fin(ref.kappa))

    # (ii) plain numpy value
    def np_eval(z):
        def leaf(node, alg):
            i = node["i"]
            return z[off[i]:off[i + 1]]
        with np.errstate(all="ignore"):
            return np.asarray(R.walk(tree, R.NumpyAlgebra(leaf)), dtype=float)

    z0 = np.concatenate(xs)
    v_np = np_eval(z0)
    r = R.value_residual(v_np, rroot.v, rroot.S)
    mon.measure("ref_vs_numpy_value", _fin(r))
    if not r <= TOL_V:
        mon.inconclusive(f"reference value differs from plain numpy evaluation ({r:.3g})")
        return

    # (iii) finite-difference cross-check of the reference Jacobian
    drng = np.random.default_rng(int(case.get("dseed", 1)))
    d = drng.uniform(-1.0, 1.0, size=m)
    h = min(1e-3, 0.02 * ref.hmax)
    fd_ok = None
    if any(n["op"] == "fn" and n["name"] == "RegularizedHeaviside" for n in R.postorder(tree)):
        # by design its Jacobian (of the smooth regularisation) is not the derivative of
        # its value (sharp Heaviside): finite differences of the value cannot confirm it
        mon.count("fd_crosschecks_not_applicable")
        fd_ok = True
    elif h >= 1e-9:
        D, est = R.fd_directional(np_eval, z0, d, h)
        scale = rroot.A @ np.abs(d) + 50 * np.finfo(float).eps * rroot.S / h + 1e-300
        resolved = bool(np.all(est <= 0.1 * TOL_FD * scale))
        if resolved:
            rfd = float(np.max(np.abs(rroot.J @ d - D) / scale))
            mon.measure("ref_vs_fd_directional", _fin(rfd))
            mon.count("fd_crosschecks_resolved")
            fd_ok = rfd <= TOL_FD
            if not fd_ok:
                mon.inconclusive(f"reference Jacobian differs from finite differences ({rfd:.3g})")
                return
        else:
            mon.count("fd_crosschecks_unresolved")
            mon.excluded("finite-difference cross-check did not converge (cross-check only)")
    else:
        mon.count("fd_crosschecks_unresolved")
        mon.excluded("finite-difference step below 1e-9 (cross-check only)")

    # the real code
    ads = pp.ad.initAdArrays([x.copy() for x in xs])

    def on_op(label):
        mon.count("kind:" + label)
        name = label.split("[")[0]
        if name.startswith("fn:"):
            mon.count(name)
        elif name.startswith("__"):
            mon.count("op:" + name)
        else:
            mon.count("op:" + name)

    def leaf(node, alg):
        return ads[node["i"]]

    alg = R.PythonOpsAlgebra(leaf, _ppfuncs(), on_op=on_op)
    raised = None
    try:
        with np.errstate(all="ignore"):
            R.walk(tree, alg)
    except Exception as exc:  # noqa: BLE001
        frames = traceback.extract_tb(exc.__traceback__)
        if not any("/porepy/" in f.filename for f in frames):
            raise                       # harness bug, classified by the worker
        raised = (exc, frames)
    mon.count("expressions_evaluated")

    # decide every node, children first
    worst_v = worst_j = 0.0
    worst_v_lab = worst_j_lab = ""
    for node in R.postorder(tree):
        want = ref.results.get(id(node))
        if not isinstance(want, R.Dual):
            continue
        if id(node) not in alg.results:
            continue                    # not reached because an operation raised
        got = alg.results.get(id(node))
        lab = _label(node)
        mon.count("nodes_compared")
        if not isinstance(got, pp.ad.AdArray):
            _viol(mon, f"{lab}:type", {"got": type(got).__name__})
            return
        gv = np.asarray(got.val)
        if gv.shape != want.v.shape or got.jac.shape != want.J.shape:
            if node["op"] == "getitem" and isinstance(got.jac, sps.sparray):
                # integer index on a sparse-ARRAY Jacobian yields a 1-d object
                _viol(mon, "getitem:sparse-array-jacobian",
                      {"jac": list(got.jac.shape), "want_jac": list(want.J.shape)})
                return
            _viol(mon, f"{lab}:shape", {"val": list(gv.shape), "want": list(want.v.shape),
                                           "jac": list(got.jac.shape),
                                           "want_jac": list(want.J.shape)})
            return
        rv = R.value_residual(gv, want.v, want.S)
        if rv > worst_v:
            worst_v, worst_v_lab = rv, lab
        if not rv <= TOL_V:
            # (the value oracle is (i) and (ii), which agree; no finite differences needed)
            k = int(np.argmax(np.abs(gv - want.v)))
            mech = f"{lab}:value"
            if lab == "maximum" and node["args"][0].get("dtype") == "int":
                mech = "maximum:int-array-truncation"
            _viol(mon, mech, {"residual": rv, "index": k, "got": gv[k],
                                           "want": want.v[k], "node": node})
            return
        gj = got.jac.toarray() if hasattr(got.jac, "toarray") else np.asarray(got.jac)
        rj, row = R.jac_residual(gj, want.J, want.A)
        mon.count("jacobian_rows_compared", want.J.shape[0])
        if rj > worst_j:
            worst_j, worst_j_lab = (rj if math.isfinite(rj) else 1e300), lab
        if not rj <= TOL_J:
            if fd_ok is None:
                mon.inconclusive("Jacobian mismatch but the reference was not cross-checked "
                                 "by finite differences")
                return
            mech = f"{lab}:jacobian"
            if lab == "safe_power":
                arg = ref.results.get(id(node["args"][0]))
                band = np.abs(arg.v) <= float(node["p"]["tol"])
                with np.errstate(all="ignore"):
                    e = np.abs(gj - want.J)
                    e = np.where(np.isnan(e), np.inf, e).max(axis=1)
                    sc = np.where(want.A.max(axis=1) > 0, want.A.max(axis=1), 1e-300)
                    bad = ~((e == 0) | (e / sc <= TOL_J))
                if np.all(band[bad]):
                    mech = "safe_power:jacobian-in-band"
            col = int(np.argmax(np.abs(np.nan_to_num(gj[row] - want.J[row], nan=np.inf))))
            _viol(mon, mech, {"residual": rj, "row": row, "col": col,
                                 "got": gj[row, col], "want": want.J[row, col],
                                 "node": node if R.count_nodes(node) <= 6 else lab,
                                 "fd_agrees_with_reference": True})
            return
    if raised is not None:
        # all nodes evaluated before the exception agree with the reference: the node
        # whose own operation raised is the culprit
        exc, frames = raised
        node = alg.failed
        lab = _label(node) if node is not None else "?"
        kids = R.children(node) if node is not None else []
        jacs = [getattr(alg.results.get(id(c)), "jac", None) for c in kids]
        sparray = any(isinstance(j, sps.sparray) for j in jacs)
        fmts = [getattr(j, "format", None) for j in jacs]
        where = next((f"{f.filename.split('/')[-1]}:{f.name}" for f in reversed(frames)
                      if "/porepy/" in f.filename), "?")
        mech = f"{lab}:raises-{type(exc).__name__}" + ("[sparse-array-jacobian]" if sparray else "")
        if node is not None:
            if node["op"] == "getitem" and fmts and fmts[0] == "coo":
                mech = "getitem:coo-jacobian"
            elif node["op"] == "getitem" and sparray:
                mech = "getitem:sparse-array-jacobian"
            elif lab == "maximum" and sparray and isinstance(exc, AttributeError):
                mech = "maximum:sparse-array-jacobian"
            elif lab == "maximum" and isinstance(exc, ValueError) and fmts and fmts[0] == "csc":
                mech = "maximum:csc-jacobian"
        _viol(mon, mech, {"where": where, "message": str(exc)[:300],
                          "node": node if node is not None and R.count_nodes(node) <= 8 else lab})
        return
    mon.measure("value_residual", _fin(worst_v))
    mon.measure("jacobian_residual", _fin(worst_j))
    # which operations sit highest above the round-off floor (1 % of the tolerance)
    if worst_v > 0.01 * TOL_V:
        mon.count(f"value_residual_above_{0.01 * TOL_V:g}:" + worst_v_lab)
    if worst_j > 0.01 * TOL_J:
        mon.count(f"jacobian_residual_above_{0.01 * TOL_J:g}:" + worst_j_lab)
