"""C03 Model Jacobians are the derivative of the model residual.

Monitor: for a shipped physics model built on a generated (fractured) geometry the
events ``J, b = es.assemble(state=x)`` and ``b(x +- h v) = es.assemble(evaluate_jacobian=
False, state=x +- h v)`` are recorded at the ``EquationSystem`` boundary.  Oracle: central
differences of the recorded residuals along random and coordinate directions, per
equation block.  The premise "discretization matrices held fixed" is itself monitored: a
wrapper on ``discretize_from_list`` / ``EquationSystem.discretize`` counts calls inside the
measurement window and every stored discretization matrix is fingerprinted before and
after it.  Non-smooth branch indicators are recorded by wrapping ``maximum``, ``abs``,
``l2_norm``, ``heaviside``, ``characteristic_function``; rows that depend on an entry whose
branch differs between x-hv, x and x+hv are found by dependency probing and excluded.
"""
from __future__ import annotations

import numpy as np

from pvm.gen import c03_models as cm
from pvm.gen import mdg as gm
from pvm.ref import c03_monitors as mons

PROP = "C03"
N = {"quick": 7, "thorough": 160}
WORKERS = {"quick": 4, "thorough": 16}
TIMEOUT = {"quick": 400, "thorough": 3000}
CASE_TIMEOUT = 300.0
RULE = ("case = one model configuration {SinglePhaseFlow, MassAndEnergyBalance, "
        "MomentumBalance, Poromechanics, Thermoporomechanics} x geometry {library 2-D "
        "rectangle with up to 3 fractures, library 3-D cube with up to 3 orthogonal "
        "fractures, generated 2-D/3-D md-grid recipes with 0-3 fractures (isolated, X, T, "
        "L, boundary-touching)} x {Cartesian, simplex} x constants {library defaults, "
        "random O(1) non-trivial: compressible fluid, thermal expansion, Biot != 1, "
        "dilation, friction, fracture gap, residual aperture} and 2 (quick) / 3 (thorough) "
        "states; a state = stored previous time step / iterate (random, used for "
        "upwinding and re-discretization BEFORE the window) + a different random current "
        "state x (relative perturbation 1e-2..3e-1); states closer than 1e-3 (relative) "
        "/ 3e-3 (absolute) to a switch of a non-smooth function are re-drawn; "
        "non-trivial = at least 8 dofs and at least one direction fully checked; "
        "distinct = config + seeds hash")
REACH = [
    ("models/fluid_mass_balance.py", "FluidMassBalanceEquations.set_equations"),
    ("models/energy_balance.py", "TotalEnergyBalanceEquations.set_equations"),
    ("models/momentum_balance.py", "MomentumBalanceEquations.set_equations"),
    ("models/contact_mechanics.py", "ContactMechanicsEquations.set_equations"),
    ("models/poromechanics.py", "ConstitutiveLawsPoromechanics.stress"),
    ("models/poromechanics.py", "EquationsPoromechanics.body_force"),
    ("models/thermoporomechanics.py", "ConstitutiveLawsThermoporomechanics.stress"),
    ("models/constitutive_laws.py", "AdvectiveFlux.interface_advective_flux"),
    ("models/constitutive_laws.py", "DisplacementJumpAperture.aperture"),
    ("models/constitutive_laws.py", "ThermoPoroMechanicsPorosity.porosity_change_from_temperature"),
    ("numerics/ad/equation_system.py", "EquationSystem.assemble"),
]
REACH_LINES = [
    ("numerics/ad/equation_system.py",
     "values = self.evaluate(eqs, derivative=False, state=state)"),
    ("numerics/ad/equation_system.py",
     "ad_list: list[pp.ad.AdArray] = self.evaluate(eqs, True, state)"),
]
REQUIRED = {
    "states_checked": 20, "directions_random": 40, "directions_coordinate": 80,
    "model:spf": 2, "model:meb": 2, "model:mom": 2, "model:poro": 2, "model:thm": 2,
    "assemble_jacobian_calls": 20, "assemble_residual_calls": 400,
    "windows_closed_without_discretization": 20,
    "kink_calls:maximum": 50, "kink_calls:l2_norm": 10,
    "kink_calls:characteristic_function": 10,
    "blocks_checked": 200, "kink_probe_states": 2, "flip_events": 1,
    "rows_excluded_by_flip": 1, "rows_compared": 5000,
}
ASSUMPTIONS = [
    "the residual is at least C^3 along the sampled segment once no recorded non-smooth "
    "indicator changes branch between x-hv, x and x+hv (central differences at "
    "h in {1e-4,1e-5,1e-6} and their Richardson extrapolations, best candidate per block)",
    "material constants are O(1) (well conditioned), so that the round-off floor of the "
    "difference quotient stays below 1e-8 of the block scale (tolerance 1e-6)",
    "rows depending on a flipped indicator are found by shifting the function value at "
    "the flipped entries and re-evaluating the residual (a row is missed only if its "
    "dependence is multiplied by an exact zero at x)",
]
LEVEL_TEXT = ("On every sampled model configuration and state the assembled Jacobian "
              "agreed with central differences of the assembled residual to 1e-6 of the "
              "block scale in every equation block, with no discretization call and "
              "unchanged stored matrices inside the measurement window.")
TECHNIQUE = "recorded assemble events vs central differences; discretization-window monitor"

TOL = 1e-6
HS = (1e-4, 1e-5, 1e-6)
HS_COORD = (1e-5, 1e-6)
REL_MARGIN = 1e-3
ABS_MARGIN = 3e-3

KINKS = mons.KinkRecorder()
WINDOW = mons.DiscretizationWindow()
KINKS.install()
WINDOW.install()

MODELS = ("spf", "meb", "mom", "poro", "thm")


def warmup():
    # numba kernels / lazy imports, outside reach counting and case timeouts
    cfg = {"model": "thm", "geom": {"kind": "lib2d", "fracs": [0], "cartesian": True},
           "consts": None, "dt": 1.0}
    m = cm.build(cfg)
    m.before_nonlinear_loop()
    m.equation_system.assemble()


# ------------------------------------------------------------------------- cases
def _states(seed0, n):
    return [int(seed0 + 7919 * k) for k in range(n)]


def _dirs(tier):
    """[random directions, coordinate directions] per state."""
    return [2, 4] if tier == "quick" else [3, 10]


def floor(tier):
    ns = 2 if tier == "quick" else 3
    out = []
    k = 0
    for name in MODELS:
        # library geometry, two intersecting fractures, defaults ("all ones")
        out.append({"cfg": {"model": name,
                            "geom": {"kind": "lib2d", "fracs": [0, 1], "cartesian": True},
                            "consts": None, "dt": 1.0},
                    "states": _states(1000 + k, ns), "dirs": _dirs(tier)})
        k += 1
        # simplex, one fracture, non-trivial constants
        rng = np.random.default_rng(500 + k)
        out.append({"cfg": {"model": name,
                            "geom": {"kind": "recipe", "recipe": gm.FLOOR_2D[7]},
                            "consts": cm.random_constants(rng, name), "dt": 0.5},
                    "states": _states(2000 + k, ns), "dirs": _dirs(tier)})
        k += 1
    # 3-D: cube with one fracture (Cartesian), thermoporomechanics and flow
    out.append({"cfg": {"model": "thm",
                        "geom": {"kind": "lib3d", "fracs": [0], "cartesian": True},
                        "consts": cm.random_constants(np.random.default_rng(77), "thm"),
                        "dt": 2.0},
                "states": _states(3000, ns), "dirs": _dirs(tier)})
    out.append({"cfg": {"model": "meb",
                        "geom": {"kind": "lib3d", "fracs": [0, 1], "cartesian": True},
                        "consts": None, "dt": 1.0},
                "states": _states(3001, ns), "dirs": _dirs(tier)})
    # 3-D contact mechanics (l2_norm of 2-vectors, two intersecting fractures)
    out.append({"cfg": {"model": "mom",
                        "geom": {"kind": "lib3d", "fracs": [0, 1], "cartesian": True},
                        "consts": cm.random_constants(np.random.default_rng(78), "mom"),
                        "dt": 1.0},
                "states": _states(3002, ns), "dirs": _dirs(tier)})
    # states moved onto a switch of a non-smooth function (flip detection / exclusion)
    for j, name in enumerate(("mom", "poro")):
        out.append({"cfg": {"model": name,
                            "geom": {"kind": "lib2d", "fracs": [0], "cartesian": True},
                            "consts": cm.random_constants(np.random.default_rng(90 + j),
                                                          name), "dt": 1.0},
                    "states": _states(4000 + j, 2), "dirs": [3, 4], "kink_probe": True})
    return out


def _random_geometry(rng, name, tier):
    """Geometry with <= ~60 cells (quick); mechanics on 3-D simplex grids only without
    fractures in the quick tier (MPSA cost)."""
    u = rng.random()
    mech = name in cm.HAS_MECH
    if u < 0.25:
        cart = bool(rng.random() < 0.5)
        nf = int(rng.integers(0, 4))
        pool = [0, 1] if cart else [0, 1, 2]
        nf = min(nf, len(pool))
        fr = sorted(int(i) for i in rng.choice(pool, size=nf, replace=False))
        return {"kind": "lib2d", "fracs": fr, "cartesian": cart}
    if u < 0.45:
        cart = bool(rng.random() < 0.75)
        # 3-D: building many subdomains dominates the cost -> fewer fractures in quick
        cap = 3 if tier == "thorough" else (1 if mech else 2)
        if cart:
            nf = min(int(rng.integers(0, 4)), cap)
            fr = sorted(int(i) for i in rng.choice([0, 1, 2], size=nf, replace=False))
            return {"kind": "lib3d", "fracs": fr, "cartesian": True}
        big_ok = (tier == "thorough") and rng.random() < (0.25 if mech else 0.6)
        if big_ok or (not mech and rng.random() < 0.5):
            return {"kind": "lib3d", "fracs": [int(rng.integers(0, 3))],
                    "cartesian": False, "h": 1.0}
        return {"kind": "lib3d", "fracs": [], "cartesian": False, "h": 1.0}
    if u < 0.9:
        for _ in range(50):
            r = gm.random_2d(rng, max_fracs=3)
            if r["mesh"] == "cartesian":
                ncell = r["n"][0] * r["n"][1]
            else:
                ncell = 2.6 * r["domain"][0] * r["domain"][1] / r["h"] ** 2
            if ncell <= (60 if tier == "quick" else 110):
                return {"kind": "recipe", "recipe": r}
        return {"kind": "recipe", "recipe": gm.FLOOR_2D[1]}
    cap = 3 if tier == "thorough" else (1 if mech else 2)
    r = gm.random_3d(rng, mesh="cartesian", max_fracs=cap)
    return {"kind": "recipe", "recipe": r}


def generate(rng, tier, i):
    name = MODELS[i % 5] if rng.random() < 0.8 else str(rng.choice(MODELS))
    geom = _random_geometry(rng, name, tier)
    consts = cm.random_constants(rng, name) if rng.random() < 0.65 else None
    dt = float(np.exp(rng.uniform(np.log(0.1), np.log(10.0))))
    ns = 2 if tier == "quick" else 3
    return {"cfg": {"model": name, "geom": geom, "consts": consts, "dt": dt},
            "states": _states(int(rng.integers(1, 2**31 - 10**6)), ns),
            "dirs": _dirs(tier)}


# ------------------------------------------------------------------------- oracle
def _residual(es, x, taint=None):
    """Recorded event: residual-only assembly at ``x`` with the indicator log."""
    KINKS.start(taint)
    try:
        r = es.assemble(evaluate_jacobian=False, state=x)
    finally:
        log = KINKS.stop()
    return np.asarray(r, dtype=float), log


def _inadmissible(e: Exception) -> bool:
    s = str(e)
    return isinstance(e, ValueError) and "positive definite" in s


def _prepare_state(model, rng, mon):
    """Stored history (previous time step = previous iterate, random) and derived
    quantities (upwind directions, re-discretized fluxes) BEFORE the window."""
    es = model.equation_system
    x_init = model._pvm_x_init
    amp = float(np.exp(rng.uniform(np.log(1e-2), np.log(3e-1))))
    for attempt in range(6):
        xp = cm.random_state(model, rng, amp, base=x_init)
        es.set_variable_values(xp, time_step_index=0)
        es.set_variable_values(xp, iterate_index=0)
        try:
            model.before_nonlinear_loop()
            return xp, amp
        except Exception as e:  # noqa: BLE001
            if _inadmissible(e):
                # porosity / aperture left the admissible range: documented rejection
                mon.excluded("inadmissible stored state (tensor not positive definite): "
                             "amplitude reduced")
                amp *= 0.3
                continue
            raise
    return None, amp


def _check_direction(model, mon, x, J, b, b0, log0, v, hs, kind, blocks):
    """Decide one direction: J v against central differences D(h) of the recorded
    residuals and their Richardson extrapolations (100 D(h/10) - D(h)) / 99; the best
    candidate per equation block must agree to TOL (a wrong term gives an O(1) error in
    every candidate, truncation O(h^2) / O(h^4) and round-off O(eps/h) do not)."""
    es = model.equation_system
    Jv = J @ v
    nrow = b.size
    excluded_rows = np.zeros(nrow, dtype=bool)
    cands = []          # (label, fd, excluded rows)
    for h in hs:
        bp, logp = _residual(es, x + h * v)
        bm, logm = _residual(es, x - h * v)
        mon.count("assemble_residual_calls", 2)
        if not (np.all(np.isfinite(bp)) and np.all(np.isfinite(bm))):
            mon.excluded("non-finite residual at perturbed state")
            return False
        flips = {}
        for lg in (logp, logm):
            f = mons.compare_logs(log0, lg)
            if f is None:
                mon.inconclusive("indicator call sequences differ between evaluations")
                return False
            for k, ent in f.items():
                flips[k] = np.union1d(flips.get(k, np.empty(0, dtype=int)), ent)
        rows_h = np.zeros(nrow, dtype=bool)
        if flips:
            mon.count("flip_events", sum(len(e) for e in flips.values()))
            bt, _ = _residual(es, x, taint={k: e.astype(int) for k, e in flips.items()})
            mon.count("assemble_residual_calls", 1)
            # reference = the value-mode residual at x (bitwise reproducible)
            rows_h = ~(bt == b0)
            mon.excluded("rows depending on a flipped non-smooth indicator",
                         int(rows_h.sum()))
            excluded_rows |= rows_h
        if kind == "random" and np.array_equal(bp, bm):
            # a dense random direction must move the residual: otherwise the residual
            # assembly ignores the state it is given (vacuous agreement 0 == 0)
            mon.violation("residual-independent-of-state",
                          {"model": model._pvm_name, "h": h})
            return False
        # b = -residual  =>  J v = -(b+ - b-)/(2h)
        cands.append((f"D({h:g})", -(bp - bm) / (2 * h), rows_h))
    nd = len(cands)
    for i in range(nd - 1):
        q = (hs[i] / hs[i + 1]) ** 2
        cands.append((f"R({hs[i]:g},{hs[i + 1]:g})",
                      (q * cands[i + 1][1] - cands[i][1]) / (q - 1.0),
                      cands[i][2] | cands[i + 1][2]))
    errs = []
    for label, fd, rows_x in cands:
        e = np.abs(Jv - fd)
        e[rows_x] = 0.0
        errs.append(e)
    gscale = max(float(np.max(np.abs(Jv))), float(np.max(np.abs(b))), 1e-300)
    errs_glob = [float(np.max(e)) / gscale for e in errs]
    mon.measure(f"fd_error_global_best[{kind}]", min(errs_glob))
    mon.measure("fd_error_global_plain_smallest_h", errs_glob[nd - 1])
    if errs_glob[nd - 2] > 0:
        mon.measure("fd_error_growth_last_decade", errs_glob[nd - 1] / errs_glob[nd - 2])
    ok = True
    for name, rows in blocks.items():
        if rows.size == 0:
            continue
        sc = max(float(np.max(np.abs(Jv[rows]))), float(np.max(np.abs(b[rows]))))
        if sc == 0.0:
            sc = 1.0
        per = [float(np.max(e[rows])) / sc for e in errs]
        k = int(np.argmin(per))
        mon.count("blocks_checked")
        mon.count("best_candidate:" + ("richardson" if k >= nd else "plain"))
        mon.measure("fd_error_block_best", per[k])
        if not (per[k] <= TOL):
            ok = False
            r = rows[int(np.argmax(errs[k][rows]))]
            mon.violation(
                f"jacobian-differs-from-residual-derivative:{name}",
                {"model": model._pvm_name, "equation": name, "direction": kind,
                 "rel_error_best": per[k], "candidate": cands[k][0], "tol": TOL,
                 "row": int(r), "Jv": float(Jv[r]), "fd": float(cands[k][1][r]),
                 "block_scale": sc,
                 "errors_per_candidate": dict(zip([c[0] for c in cands], per))})
    if min(errs_glob) > TOL and ok:
        # global criterion of the design (cannot exceed the block criterion)
        mon.violation("jacobian-differs-from-residual-derivative:global",
                      {"errors_per_candidate_global": errs_glob})
        ok = False
    mon.count("rows_excluded_by_flip", int(excluded_rows.sum()))
    mon.count("rows_compared", int(nrow - excluded_rows.sum()))
    return ok


def _kink_probe(model, mon, rng, x, log0):
    """Move the state along a random line until some recorded indicator is about to
    switch (bisection to 1e-7), so that the finite-difference stencil straddles the
    switch: exercises the flip detection and the row exclusion."""
    es = model.equation_system
    for attempt in range(4):
        d = rng.standard_normal(x.size) * (0.5 * 2 ** attempt)
        _, log1 = _residual(es, x + d)
        f = mons.compare_logs(log0, log1)
        if not f:
            continue
        lo, hi = 0.0, 1.0
        for _ in range(24):
            mid = 0.5 * (lo + hi)
            _, lg = _residual(es, x + mid * d)
            if mons.compare_logs(log0, lg):
                hi = mid
            else:
                lo = mid
        mon.count("assemble_residual_calls", 25)
        mon.count("kink_probe_states")
        xk = x + lo * d
        bk, logk = _residual(es, xk)
        return xk, bk, logk
    return None


def _one_state(model, mon, seed, dirs, kink_probe=False):
    es = model.equation_system
    rng = np.random.default_rng(seed)
    xp, amp0 = _prepare_state(model, rng, mon)
    if xp is None:
        mon.excluded("no admissible stored state found")
        return False
    amp = float(np.exp(rng.uniform(np.log(1e-2), np.log(3e-1))))
    # half of the states leave the initial (closed, sticking) contact regime
    boost = {"contact_traction": 8.0, "u_interface": 2.0} if rng.random() < 0.5 else None
    x = None
    prev_log = None
    for attempt in range(8):
        xc = cm.random_state(model, rng, amp, base=xp, boost=boost)
        b0, log0 = _residual(es, xc)
        mon.count("assemble_residual_calls")
        if not np.all(np.isfinite(b0)):
            mon.excluded("non-finite residual at drawn state: re-drawn")
            amp *= 0.5
            continue
        rel, ab = mons.min_margins(log0)
        if (rel < REL_MARGIN or ab < ABS_MARGIN) and prev_log is not None:
            # ignore indicator entries that do not depend on the current state
            rel, ab = mons.min_margins(log0, prev_log)
        if rel < REL_MARGIN or ab < ABS_MARGIN:
            mon.excluded("state within 1e-3 (rel) / 3e-3 (abs) of a non-smooth switch: "
                         "re-drawn")
            prev_log = log0
            continue
        x = xc
        mon.measure("min_rel_margin_maximum", rel if np.isfinite(rel) else 1.0)
        if np.isfinite(ab):
            mon.measure("min_abs_margin_norm", ab)
        break
    if x is None:
        mon.excluded("no state at distance from the switches found in 8 draws")
        return False
    if kink_probe:
        res = _kink_probe(model, mon, rng, x, log0)
        if res is None:
            mon.excluded("kink probe: no switch found along 4 random lines")
        else:
            x, b0, log0 = res
    for k, v in mons.branch_histogram(log0).items():
        mon.count("branch:" + k, v)
    n = x.size

    # ---- measurement window ------------------------------------------------------
    fp0 = WINDOW.fingerprint(model.mdg)
    WINDOW.start()
    try:
        J, b = es.assemble(state=x)
        mon.count("assemble_jacobian_calls")
        J = J.tocsr()
        b = np.asarray(b, dtype=float)
        blocks = {name: np.asarray(rows, dtype=int)
                  for name, rows in es.assembled_equation_indices.items()}
        if J.shape != (b.size, n):
            mon.violation("jacobian-shape", {"J": list(J.shape), "b": int(b.size), "n": n})
            return False
        if sum(r.size for r in blocks.values()) != b.size:
            mon.violation("assembled-equation-indices-do-not-cover-rows",
                          {"rows": int(b.size)})
            return False
        if J.nnz == 0 or not np.any(J.data):
            mon.violation("jacobian-identically-zero", {"model": model._pvm_name})
            return False
        if not np.all(np.isfinite(J.data)):
            mon.excluded("non-finite Jacobian at drawn state")
            return False
        # the two assembly modes must report the same residual
        sc = max(1.0, float(np.max(np.abs(b))))
        mon.close("residual_two_modes", b0, b, 1e-12, "residual-differs-between-"
                  "assembly-modes", scale=sc)
        ok = True
        ndir_r, ndir_c = int(dirs[0]), int(dirs[1])
        for _ in range(ndir_r):
            v = rng.standard_normal(n)
            ok &= _check_direction(model, mon, x, J, b, b0, log0, v, HS, "random",
                                   blocks)
            mon.count("directions_random")
        # coordinate directions: at least one dof of every variable kind
        names = {}
        for name, dofs in cm.variable_blocks(model):
            if dofs.size:
                names.setdefault(name, []).append(dofs)
        picks = []
        for name, lst in names.items():
            d = np.concatenate(lst)
            picks.append(int(rng.choice(d)))
        rng.shuffle(picks)
        picks = picks[:ndir_c]
        while len(picks) < min(ndir_c, n):
            k = int(rng.integers(0, n))
            if k not in picks:
                picks.append(k)
        for k in picks:
            v = np.zeros(n)
            v[k] = 1.0
            ok &= _check_direction(model, mon, x, J, b, b0, log0, v, HS_COORD,
                                   "coordinate", blocks)
            mon.count("directions_coordinate")
            mon.count("coordinate_dir_var:" + model._pvm_dofname[k])
    finally:
        calls = WINDOW.stop()
    fp1 = WINDOW.fingerprint(model.mdg)
    if calls:
        mon.violation("discretization-inside-measurement-window", calls)
    elif fp0 != fp1:
        mon.violation("stored-discretization-changed-inside-measurement-window",
                      {"before": fp0, "after": fp1})
    else:
        mon.count("windows_closed_without_discretization")
    mon.count("states_checked")
    return ok


def check(case, mon):
    cfg = case["cfg"]
    name = cfg["model"]
    g = cfg["geom"]
    model = cm.build(cfg)
    model._pvm_name = name
    es = model.equation_system
    n = es.num_dofs()
    model._pvm_x_init = es.get_variable_values(iterate_index=0).copy()
    dofname = [""] * n
    for vn, dofs in cm.variable_blocks(model):
        for k in dofs:
            dofname[int(k)] = vn
    model._pvm_dofname = dofname
    mdg = model.mdg
    nfr = len(mdg.subdomains(dim=mdg.dim_max() - 1))
    mesh = ("cartesian" if g.get("cartesian") else "simplex") if g["kind"] != "recipe" \
        else g["recipe"]["mesh"]
    mon.count("model:" + name)
    mon.count("cells_total", mdg.num_subdomain_cells())
    mon.count("dofs_total", n)
    mon.klass(f"{name}|{mdg.dim_max()}d|{mesh}|frac{min(nfr, 3)}"
              f"|{'consts' if cfg.get('consts') else 'default'}")
    mon.klass(f"subdomain_dims:{sorted({sd.dim for sd in mdg.subdomains()})}")
    mon.count(f"geom:{g['kind']}")
    mon.count("configs_with_0d_subdomain", int(mdg.dim_min() < mdg.dim_max() - 1
                                               and mdg.dim_min() == 0))
    mon.count("discretization_calls_outside_window_seen",
              sum(WINDOW.total.values()) > 0)
    # namespaces in which the recording wrappers replaced the original (per case)
    for fn, na in KINKS.alias_count.items():
        mon.count("wrapper_aliases_patched:" + fn, na)
    mon.count("wrapper_aliases_patched:discretize_from_list", WINDOW.alias_count)
    dirs = case.get("dirs", [3, 10])
    good = 0
    for seed in case["states"]:
        if _one_state(model, mon, int(seed), dirs, bool(case.get("kink_probe"))):
            good += 1
    for k, v in KINKS.calls.items():
        mon.count("kink_calls:" + k, v)
    KINKS.calls.clear()
    mon.nontrivial(n >= 8 and good >= 1)
