"""C26 Mortar projections conserve extensive and preserve intensive quantities.

Monitor: on a generated fractured md-grid, and again after every step of a generated
sequence of mortar / secondary / primary replacements (non-matching refinements applied
through ``replace_subdomains_and_interfaces`` -> ``update_mortar`` / ``update_secondary``
/ ``update_primary``), the sixteen projection matrices of every interface are read at the
public boundary and decided *per mortar side* (``project_to_side_grids``):

* integrated maps preserve totals (random extensive fields and unit column sums),
* averaged maps send the constant 1 to 1 on the covered entities (0 elsewhere),
* mortar-to-grid ``int`` == (grid-to-mortar ``avg``)^T and vice versa,
* vector versions (nd = 2, 3) are the Kronecker products of the scalar ones,
* the faces that receive / send anything are exactly the fracture faces lying on the
  secondary grid (decided from the network geometry), one geometric side per mortar side,
* a non-zero entry couples entities that overlap geometrically.
"""
from __future__ import annotations

import numpy as np
import scipy.sparse as sps

from pvm.gen import mdg as gm
from pvm.gen import c26_nonmatching as nm
from pvm.ref.c25_geometry import Network

PROP = "C26"
N = {"quick": 40, "thorough": 2000}
WORKERS = {"quick": 4, "thorough": 16}
TIMEOUT = {"quick": 300, "thorough": 1800}
CASE_TIMEOUT = 120.0
RULE = ("md-grids from pvm.gen.mdg (2-D Cartesian/simplex with 1-3 fractures incl. X/T/L and "
        "boundary-touching; 3-D Cartesian; 3-D simplex with 2-d mortars through match_2d in "
        "the floor and the thorough tier) followed by 0-4 replacements: mortar side grids "
        "(refine_grid_1d ratio 2-4 = nested, remesh_1d = not nested, one side only, as "
        "MortarGrid or as dict), fracture grid (same choices or the grid of another mesh "
        "resolution; at most once per fracture, documented), 2-D host of another resolution "
        "or identical copy (only networks without touching fractures, documented fragility); "
        "all interfaces are checked after every step; non-trivial = at least one interface "
        "and one executed replacement; distinct = case hash")
REACH = [
    ("grids/mortar_grid.py", "MortarGrid._init_projections"),
    ("grids/mortar_grid.py", "MortarGrid._set_projections"),
    ("grids/mortar_grid.py", "MortarGrid.update_mortar"),
    ("grids/mortar_grid.py", "MortarGrid.update_secondary"),
    ("grids/mortar_grid.py", "MortarGrid.update_primary"),
    ("grids/mortar_grid.py", "MortarGrid.project_to_side_grids"),
    ("grids/match_grids.py", "match_1d"),
    ("grids/match_grids.py", "match_2d"),
    ("grids/match_grids.py", "match_grids_along_1d_mortar"),
    ("grids/md_grid.py", "MixedDimensionalGrid.replace_subdomains_and_interfaces"),
]
REACH_LINES = [
    ("grids/mortar_grid.py", "self._primary_to_mortar_int = self._primary_to_mortar_int * split_matrix_int"),
    ("grids/match_grids.py", "weights /= new_g.cell_volumes[new_g_ind]"),
    ("grids/match_grids.py", "weights /= old_g.cell_volumes[old_g_ind]"),
]
REQUIRED = {"interface_states_checked": 100, "sides_checked": 150,
            "nonmatching_interface_states": 30, "update:mortar": 10, "update:secondary": 10,
            "update:primary": 3, "one_sided_interface_states": 3, "kron_checks": 100,
            "transpose_checks": 400, "mortar_dim2_states": 1, "mortar_dim0_states": 5}
ASSUMPTIONS = [
    "all statements are per mortar side: the averaged maps from a two-sided mortar to a "
    "subdomain sum both sides by construction (constants map to num_sides)",
    "covered primary faces = faces of the current primary grid with exactly one neighbouring "
    "cell whose centre lies (1e-8) on every fracture supporting the secondary grid and inside "
    "the bounding box of the secondary grid",
    "locality is asserted up to the sum, over the replacements applied so far, of the largest "
    "cell/face diameter of the interface's grids before the replacement: replacements compose "
    "the maps through the previous grids, which smears weights over one previous cell each "
    "time (not a defect; the statement does not exclude it); exact overlap is asserted for "
    "the meshed state",
    "update_secondary at most once per fracture, update_primary only for 1-d mortars of "
    "networks without touching fractures (documented restrictions); a ValueError of the "
    "geometric matching itself is a documented rejection (counted, history ends); a "
    "rejection by MortarGrid._check_mappings (a mortar cell without any weight) of a "
    "replacement grid that covers the same fracture is a violation",
]
LEVEL_TEXT = ("All projection matrices of every interface are checked per mortar side after "
              "meshing and after each generated mortar/secondary/primary replacement.")
TECHNIQUE = "runtime monitoring: per-side conservation / constant-preservation identities"
TOL = 1e-10
# after a replacement the maps are rebuilt by match_1d / match_2d, which by their documented
# contract ignore overlaps with a measure below tol (replace_subdomains_and_interfaces
# default 1e-6): each ignored sliver loses < 1e-6 of a weight, so totals / constants are
# preserved only up to (number of cells) x 1e-6.  Observed on the unchanged tree: 1.5e-9
# (gmsh node coordinates almost coinciding with the nodes of the replacement grid).
# Realistic breaks (wrong scaling, swapped int/avg, dropped side) are O(1e-1).
TOL_UPDATED = 1e-4
TOL_ON = 1e-8
# genuine defect (see final report): update_primary on an interface whose mortar grid no
# longer matches the old primary grid counts every old face once per overlapping mortar
# cell, which scales all primary maps
M_UPDATE_PRIMARY = "update_primary:primary-maps-scaled-when-mortar-does-not-match-old-primary"

NAMES = [(a, b, c) for a in ("primary", "secondary") for b in ("to", "from")
         for c in ("int", "avg")]


def _dense(M):
    return np.asarray(sps.csr_matrix(M).todense())


def _get(intf, who, direction, kind, nd=1):
    name = f"{who}_to_mortar_{kind}" if direction == "to" else f"mortar_to_{who}_{kind}"
    return getattr(intf, name)(nd)


def _check_interface(mon, mdg, net, intf, rng, tol_on, tag, slack=0.0, pmech=None,
                     memory=None):
    T = TOL if tag == "meshing" else TOL_UPDATED
    hi, lo = mdg.interface_to_subdomain_pair(intf)
    info = {"after": tag, "mortar_dim": int(intf.dim), "sides": int(intf.num_sides()),
            "hi": [hi.dim, int(getattr(hi, "frac_num", -1))],
            "lo": [lo.dim, int(getattr(lo, "frac_num", -1))]}
    mon.count("interface_states_checked")
    mon.count(f"mortar_dim{intf.dim}_states")
    if intf.num_sides() == 1:
        mon.count("one_sided_interface_states")
    nm_ = intf.num_cells
    M = {}
    for who in ("primary", "secondary"):
        for kind in ("int", "avg"):
            M[(who, "to", kind)] = _dense(_get(intf, who, "to", kind))
            M[(who, "from", kind)] = _dense(_get(intf, who, "from", kind))
    n_hi = hi.num_faces if intf.codim < 2 else hi.num_cells
    n_lo = lo.num_cells
    # shapes
    for who, n in (("primary", n_hi), ("secondary", n_lo)):
        for kind in ("int", "avg"):
            if M[(who, "to", kind)].shape != (nm_, n) or M[(who, "from", kind)].shape != (n, nm_):
                mon.violation("projection:wrong-shape", {**info, "which": [who, kind]})
                return False
    if not all(np.all(np.isfinite(m)) for m in M.values()):
        mon.violation("projection:non-finite-entry", info)
        return False
    if any(np.any(m < -1e-14) for m in M.values()):
        mon.violation("projection:negative-weight", info)
        return False
    nonmatching = any(np.any((m > 1e-12) & (np.abs(m - 1) > 1e-12)) for m in M.values())
    if nonmatching:
        mon.count("nonmatching_interface_states")

    # (1) transposes
    for who in ("primary", "secondary"):
        mon.count("transpose_checks", 2)
        ok = mon.close("transpose", M[(who, "from", "int")], M[(who, "to", "avg")].T, 1e-14,
                       f"transpose:mortar-to-{who}-int-is-not-{who}-to-mortar-avg-transposed",
                       scale=1.0, detail=info)
        ok &= mon.close("transpose", M[(who, "from", "avg")], M[(who, "to", "int")].T, 1e-14,
                        f"transpose:mortar-to-{who}-avg-is-not-{who}-to-mortar-int-transposed",
                        scale=1.0, detail=info)
        if not ok:
            return False

    # (2) Kronecker versions: entry (i, j) of the scalar map must sit at (i*nd+k, j*nd+k)
    for nd in (2, 3):
        for key, m in M.items():
            got = sps.csr_matrix(_get(intf, key[0], key[1], key[2], nd))
            mon.count("kron_checks")
            r, c = np.nonzero(m)
            k = np.arange(nd)
            want = sps.coo_matrix(
                (np.repeat(m[r, c], nd),
                 ((r[:, None] * nd + k[None, :]).ravel(), (c[:, None] * nd + k[None, :]).ravel())),
                shape=(m.shape[0] * nd, m.shape[1] * nd)).tocsr()
            bad = got.shape != want.shape
            err = 0.0
            if not bad:
                D = (got - want).tocoo()
                err = float(np.max(np.abs(D.data))) if D.nnz else 0.0
                mon.measure("kron", err)
            if bad or not err <= 1e-14:
                mon.violation("vector-version:not-the-kronecker-product-of-the-scalar-map",
                              {**info, "which": list(key), "nd": nd, "residual": err})
                return False

    # covered entities, from the network geometry
    covered = _covered_faces(net, hi, lo, tol_on) if intf.codim == 1 else None

    # (3) per side
    sides = list(intf.project_to_side_grids())
    seen_faces = np.zeros(n_hi, dtype=bool)
    off = 0
    for s_idx, (proj, sg) in enumerate(sides):
        mon.count("sides_checked")
        Pi = _dense(proj)
        if Pi.shape != (sg.num_cells, nm_) or not np.array_equal(
                Pi, np.eye(nm_)[off:off + sg.num_cells]):
            mon.violation("side-projection:not-the-slice-of-this-side", info)
            return False
        sl = slice(off, off + sg.num_cells)
        off += sg.num_cells
        sinfo = {**info, "side": s_idx}
        p_int = M[("primary", "to", "int")][sl]
        p_avg = M[("primary", "to", "avg")][sl]
        s_int = M[("secondary", "to", "int")][sl]
        s_avg = M[("secondary", "to", "avg")][sl]
        mp_int = M[("primary", "from", "int")][:, sl]
        mp_avg = M[("primary", "from", "avg")][:, sl]
        ms_int = M[("secondary", "from", "int")][:, sl]
        ms_avg = M[("secondary", "from", "avg")][:, sl]

        # faces of this side: those with any weight in any primary map
        f_side = (np.abs(p_int).sum(axis=0) > 0) | (np.abs(p_avg).sum(axis=0) > 0)
        if np.any(seen_faces & f_side):
            mon.violation("sides:primary-face-coupled-to-both-mortar-sides", sinfo)
            return False
        seen_faces |= f_side
        if covered is not None and np.any(f_side & ~covered):
            mon.violation("coverage:weight-on-a-face-not-lying-on-the-secondary-grid",
                          {**sinfo, "faces": np.flatnonzero(f_side & ~covered)[:8]})
            return False
        # one geometric side of the fracture per mortar side
        if intf.codim == 1 and intf.num_sides() == 2 and lo.dim >= 1 and f_side.any():
            sg_sign = _geometric_side(hi, np.flatnonzero(f_side))
            if sg_sign == 0:
                mon.violation("sides:faces-of-one-mortar-side-lie-on-both-sides-of-the-fracture",
                              sinfo)
                return False
            # a replacement must not move a mortar side to the other side of the fracture
            if memory is not None:
                ref = _fixed_normal(net, lo)
                if ref is not None:
                    sg_sign = int(np.sign(np.dot(ref, hi.face_normals[:, np.flatnonzero(
                        f_side)[0]]))) * sg_sign
                    old = memory.setdefault((intf, s_idx), sg_sign)
                    mon.count("side_orientation_checks")
                    if old != sg_sign:
                        mon.violation("sides:mortar-side-moved-to-the-other-side-of-the-fracture",
                                      sinfo)
                        return False

        # extensive: totals are preserved
        q = rng.random(n_hi) + 0.5
        ok = mon.close("total_primary_to_mortar", (p_int @ q).sum(), q[f_side].sum(), T,
                       pmech or "conservation:primary-to-mortar-int-does-not-preserve-the-total",
                       scale=max(1.0, q[f_side].sum()), detail=sinfo)
        ok &= mon.close("colsum_primary_to_mortar_int", p_int.sum(axis=0)[f_side],
                        np.ones(int(f_side.sum())), T,
                        pmech or "conservation:primary-to-mortar-int-column-sum-not-one", scale=1.0,
                        detail=sinfo)
        lam = rng.random(sg.num_cells) + 0.5
        ok &= mon.close("total_mortar_to_secondary", (ms_int @ lam).sum(), lam.sum(), T,
                        "conservation:mortar-to-secondary-int-does-not-preserve-the-total",
                        scale=lam.sum(), detail=sinfo)
        ok &= mon.close("total_mortar_to_primary", (mp_int @ lam).sum(), lam.sum(), T,
                        pmech or "conservation:mortar-to-primary-int-does-not-preserve-the-total",
                        scale=lam.sum(), detail=sinfo)
        src = rng.random(n_lo) + 0.5
        ok &= mon.close("total_secondary_to_mortar", (s_int @ src).sum(), src.sum(), T,
                        "conservation:secondary-to-mortar-int-does-not-preserve-the-total",
                        scale=src.sum(), detail=sinfo)
        if not ok:
            return False

        # intensive: the constant 1 is mapped to 1 on covered entities, 0 elsewhere
        one_hi, one_lo, one_m = np.ones(n_hi), np.ones(n_lo), np.ones(sg.num_cells)
        ok = mon.close("const_primary_to_mortar", p_avg @ one_hi, one_m, T,
                       pmech or "constants:primary-to-mortar-avg-does-not-map-1-to-1", scale=1.0,
                       detail=sinfo)
        ok &= mon.close("const_secondary_to_mortar", s_avg @ one_lo, one_m, T,
                        "constants:secondary-to-mortar-avg-does-not-map-1-to-1", scale=1.0,
                        detail=sinfo)
        ok &= mon.close("const_mortar_to_secondary", ms_avg @ one_m, one_lo, T,
                        "constants:mortar-to-secondary-avg-does-not-map-1-to-1", scale=1.0,
                        detail=sinfo)
        ok &= mon.close("const_mortar_to_primary", mp_avg @ one_m, f_side.astype(float), T,
                        pmech or "constants:mortar-to-primary-avg-does-not-map-1-to-1-on-covered-faces",
                        scale=1.0, detail=sinfo)
        if not ok:
            return False

        # locality: a weight couples overlapping entities only
        if not _local(mon, hi, lo, sg, p_int + p_avg, s_int + s_avg, intf, sinfo, slack):
            return False

    if covered is not None and np.any(covered & ~seen_faces):
        mon.violation("coverage:fracture-face-on-the-secondary-grid-receives-nothing",
                      {**info, "faces": np.flatnonzero(covered & ~seen_faces)[:8]})
        return False
    return True


def _covered_faces(net, hi, lo, tol):
    """Faces of the primary grid lying on the secondary grid, from the network geometry."""
    pts = lo.nodes if lo.dim > 0 else lo.cell_centers
    pts = np.hstack([pts, lo.cell_centers])
    if lo.dim == net.dim - 1:
        ks = [int(lo.frac_num)]
    else:
        ks = net.supporting(pts, tol)
    # split faces (exactly one neighbouring cell); tags are not used: replaced grids need
    # not carry them
    on = np.diff(sps.csr_matrix(hi.cell_faces).indptr) == 1
    fcs = hi.face_centers
    for k in ks:
        on &= net.dist(k, fcs) <= tol
    lo_, hi_ = pts.min(axis=1, keepdims=True) - tol, pts.max(axis=1, keepdims=True) + tol
    on &= np.all((fcs >= lo_) & (fcs <= hi_), axis=0)
    return on


def _geometric_side(hi, faces):
    """+1 / -1: all neighbouring cells lie on the +/- side of the normal of faces[0];
    0: mixed."""
    cf = sps.csr_matrix(hi.cell_faces)
    cells = cf[faces].indices
    if cells.size != faces.size:
        return 0
    n = hi.face_normals[:, faces[0]]
    d = np.sum((hi.cell_centers[:, cells] - hi.face_centers[:, faces]) * n.reshape(3, 1), axis=0)
    if np.all(d > 0):
        return 1
    if np.all(d < 0):
        return -1
    return 0


def _fixed_normal(net, lo):
    """A normal of the fracture carrying ``lo`` that depends on the network only."""
    if lo.dim != net.dim - 1:
        return None
    f = net.fr[int(lo.frac_num)]
    if f[0] == "seg":
        t = f[2] - f[1]
        return np.array([-t[1], t[0], 0.0])
    n = np.zeros(3)
    n[f[1]] = 1.0
    return n


def _diam(g, attr):
    if g.dim == 0:
        return np.zeros(g.num_cells)
    return g.cell_diameters()


def _local(mon, hi, lo, sg, Wp, Ws, intf, info, slack=0.0):
    """Every non-zero weight couples entities whose centres are closer than the sum of
    their half diameters (+ slack): no permuted / mis-indexed couplings."""
    mon.count("locality_checks")
    mc = sg.cell_centers
    md = _diam(sg, "cell") if sg.dim > 0 else np.zeros(sg.num_cells)
    r, c = np.nonzero(Ws > 1e-12)
    if r.size:
        d = np.sqrt(np.sum((mc[:, r] - lo.cell_centers[:, c]) ** 2, axis=0))
        ld = _diam(lo, "cell")
        lim = 0.5 * (md[r] + ld[c]) + 1e-8 + slack
        if np.any(d > lim):
            k = int(np.argmax(d - lim))
            mon.violation("locality:secondary-cell-coupled-to-a-distant-mortar-cell",
                          {**info, "mortar_cell": int(r[k]), "cell": int(c[k]),
                           "dist": float(d[k]), "limit": float(lim[k])})
            return False
    if intf.codim == 1:
        r, c = np.nonzero(Wp > 1e-12)
        if r.size:
            d = np.sqrt(np.sum((mc[:, r] - hi.face_centers[:, c]) ** 2, axis=0))
            fd = hi.face_areas if hi.dim == 2 else (
                np.zeros(hi.num_faces) if hi.dim == 1 else 2.0 * np.sqrt(hi.face_areas))
            lim = 0.5 * (md[r] + fd[c]) + 1e-8 + slack
            if hi.dim == 3:
                lim = md[r] + fd[c] + 1e-8 + slack
            if np.any(d > lim):
                k = int(np.argmax(d - lim))
                mon.violation("locality:primary-face-coupled-to-a-distant-mortar-cell",
                              {**info, "mortar_cell": int(r[k]), "face": int(c[k]),
                               "dist": float(d[k]), "limit": float(lim[k])})
                return False
    return True


def check(case, mon):
    recipe = gm.apply_scale(case["recipe"])
    if case["recipe"].get("scale"):
        mon.klass("scaled-domain")
        mon.count("scaled_domains")
    mdg = gm.build(recipe)
    net = Network(recipe)
    tol_on = TOL_ON * max(net.L)
    var = nm.Variant(mdg, recipe)
    rng = np.random.default_rng(int(case["seed"]))
    mon.klass(f"{recipe['dim']}d-{recipe['mesh']}-{len(recipe['fractures'])}frac")

    slack = {}
    memory = {}

    def widen():
        """Before an update: every replacement composes the maps through the grids it
        replaces, which can smear a weight by one cell of those grids; the admissible
        coupling distance grows by the coarsest cell / face diameter at that time."""
        for intf in mdg.interfaces():
            hi, lo = mdg.interface_to_subdomain_pair(intf)
            d = [0.0]
            if intf.dim > 0:
                d.append(float(np.max(intf.cell_diameters())))
                d.append(float(np.max(lo.cell_diameters())))
                d.append(float(np.max(hi.cell_diameters())))
            slack[intf] = slack.get(intf, 0.0) + max(d)

    def all_interfaces(tag, pmech_for=()):
        for intf in mdg.interfaces():
            pm = M_UPDATE_PRIMARY if intf in pmech_for else None
            if not _check_interface(mon, mdg, net, intf, rng, tol_on, tag,
                                    slack.get(intf, 0.0), pm, memory):
                return False
        return True

    def mortar_not_matching_primary():
        """Interfaces in which some primary face feeds more than one mortar cell."""
        out = set()
        for intf in mdg.interfaces():
            P = sps.csc_matrix(intf.primary_to_mortar_int())
            P.eliminate_zeros()
            if P.shape[1] and np.max(np.diff(P.indptr)) > 1:
                out.add(intf)
        return out

    if not all_interfaces("meshing"):
        return
    executed = 0
    for u in case.get("updates", []):
        widen()
        pre = mortar_not_matching_primary() if u["kind"] == "primary" else set()
        try:
            lab = nm.apply(var, u)
        except nm.Rejected as e:
            mon.count("rejected:" + u["kind"])
            if e.where == "check_mappings":
                # the new grid covers the same fracture, yet some mortar cell ended up
                # without any weight: the updated projection is deficient
                mon.violation("update:" + u["kind"] + "-leaves-mortar-cells-without-weight-"
                              "for-a-covering-replacement", {"update": u, "error": str(e)})
            else:
                mon.excluded("replacement rejected by porepy's geometric matching "
                             "(documented ValueError)")
            return
        if lab is None:
            mon.count("skipped:" + u["kind"])
            continue
        executed += 1
        mon.count("update:" + lab.split(":")[0])
        mon.count("update:" + lab)
        if lab.startswith("primary") and pre:
            mon.count("update_primary_with_nonmatching_mortar")
        if not all_interfaces(lab, pre if lab.startswith("primary") else ()):
            return
    mon.measure("executed_updates", executed)
    mon.nontrivial(len(mdg.interfaces()) >= 1 and executed >= 1)


# ----------------------------------------------------------------------- generators
def generate(rng, tier, i):
    u = rng.random()
    p3s = 0.05 if tier == "thorough" else 0.0
    if u < p3s:
        recipe = gm.random_3d(rng, "simplex", max_fracs=1)
        while not recipe["fractures"]:
            recipe = gm.random_3d(rng, "simplex", max_fracs=1)
    elif u < p3s + 0.1:
        recipe = gm.random_3d(rng, "cartesian", max_fracs=3)
    else:
        recipe = gm.random_2d(rng, max_fracs=3)
        for _ in range(20):
            if recipe["fractures"]:
                break
            recipe = gm.random_2d(rng, max_fracs=3)
    updates = nm.random_updates(rng, recipe, 4)
    if not updates and rng.random() < 0.8:
        updates = nm.random_updates(rng, recipe, 4)
    return {"recipe": recipe, "updates": updates, "seed": int(rng.integers(0, 2 ** 31))}


def floor(tier):
    F2, F3 = gm.FLOOR_2D, gm.FLOOR_3D
    U = lambda kind, sel=0, ratio=2, how="refine", **k: {"kind": kind, "sel": sel,
                                                        "ratio": ratio, "how": how, **k}
    out = [{"recipe": r, "updates": [], "seed": 10 + k}
           for k, r in enumerate(gm.floor_recipes()) if r["fractures"]]
    out += [
        {"recipe": F2[1], "seed": 101, "updates": [
            U("mortar", 0, 2), U("secondary", 0, 3), U("primary", 0, 2, "other")]},
        {"recipe": F2[1], "seed": 102, "updates": [
            U("primary", 0, 3, "other"), U("mortar", 0, 3, "remesh", as_mortar=True),
            U("secondary", 0, 2, "remesh")]},
        {"recipe": F2[7], "seed": 103, "updates": [
            U("secondary", 0, 2, "other"), U("mortar", 0, 2, one_side=True),
            U("primary", 0, 2, "other")]},
        {"recipe": F2[7], "seed": 104, "updates": [
            U("primary", 0, 2, "copy"), U("mortar", 0, 4), U("mortar", 0, 2, "remesh")]},
        {"recipe": F2[5], "seed": 105, "updates": [
            U("mortar", 0, 3), U("primary", 0, 2, "other"), U("secondary", 0, 2)]},
        {"recipe": F2[2], "seed": 106, "updates": [
            U("secondary", 0, 2), U("secondary", 1, 3), U("mortar", 0, 2), U("mortar", 1, 3)]},
        {"recipe": F2[3], "seed": 107, "updates": [
            U("mortar", 1, 2), U("secondary", 1, 2), U("secondary", 0, 4)]},
        {"recipe": F2[8], "seed": 108, "updates": [
            U("secondary", 0, 2, "other"), U("mortar", 1, 3, as_mortar=True)]},
        {"recipe": F2[9], "seed": 109, "updates": [
            U("mortar", 0, 2), U("secondary", 1, 2, "other")]},
        {"recipe": F3[3], "seed": 110, "updates": [
            U("mortar", 0, 2, "other"), U("secondary", 0, 3, "other")]},
        {"recipe": F3[2], "seed": 111, "updates": []},
        # micrometre / kilometre domains: overlaps are far below / above any absolute
        # tolerance; conservation and constant preservation are scale invariant
        {"recipe": dict(F2[1], scale=1e-5), "seed": 112, "updates": [
            U("mortar", 0, 2), U("secondary", 0, 3)]},
        {"recipe": dict(F2[1], scale=1e-7), "seed": 113, "updates": [
            U("secondary", 0, 2), U("mortar", 0, 3)]},
        {"recipe": dict(F2[2], scale=1e3), "seed": 114, "updates": [
            U("mortar", 0, 2), U("secondary", 1, 2)]},
    ]
    return out


def warmup():
    for _ in range(3):
        try:
            gm.build(gm.FLOOR_2D[7])
            gm.build(gm.FLOOR_2D[2])
            return
        except Exception:  # noqa: BLE001 - the cases themselves report failures
            continue
