"""C20 Grid geometry is equivariant under rigid motions.

Monitor: the real ``compute_geometry()`` is run twice, once on a generated grid and once
on the same grid (same topology objects rebuilt from the recipe) whose nodes were moved
by a proper rigid motion ``x -> Q x + t``.  At the quiescent point after both calls the
geometry attributes are read at the public boundary and decided by the closed-form
transformation law: volumes and areas unchanged, centres moved by the motion, normals
rotated by Q.  The in-plane / in-line face normals of 1-D and 2-D grids are fixed by the
documented sign convention of ``cell_faces`` (normal points out of the cell with +1), so
they are compared without any sign freedom; that convention itself is asserted as well.
"""
from __future__ import annotations

import numpy as np
import scipy.sparse as sps

from pvm.gen import grids as gg

PROP = "C20"
N = {"quick": 150, "thorough": 12000}
WORKERS = {"quick": 4, "thorough": 16}
RULE = ("seeded recipes of pvm.gen.grids (Cartesian / tensor / structured+Delaunay "
        "triangles / tetrahedra / mixed polygons / prism extrusions; perturbed, affine, "
        "1-D and 2-D grids already embedded by a first rigid motion), optionally with "
        "reversed face-node order on some 2-D faces (non-oriented fallback) or built from "
        "two disconnected blocks of opposite loop orientation (orientation check 2/3: equal "
        "blocks, 3/3: unequal blocks); a second proper rigid motion (random quaternion, "
        "axis-aligned, near-axis, pure translation) is applied to the nodes; non-trivial = "
        "at least 2 cells and a rotation different from the identity; distinct = case hash")
REACH = [
    ("geometry/map_geometry.py", "compute_normal"),
    ("geometry/map_geometry.py", "compute_tangent"),
    ("grids/grid.py", "Grid._compute_geometry_1d"),
    ("grids/grid.py", "Grid._compute_geometry_2d"),
    ("grids/grid.py", "Grid._compute_geometry_3d"),
]
REACH_LINES = [
    # oriented branch / fallback branch of the plane normal
    ("grids/grid.py", "return plane_normal / len_normal"),
    ("grids/grid.py", "return pp.map_geometry.compute_normal(self.nodes)"),
    # orientation check 2/3 (globally inconsistent) and 3/3 (negative volumes)
    ("grids/grid.py", "return compute_normal(is_oriented)"),
    ("grids/grid.py", "return compute_volumes(is_oriented)"),
    # fallback volumes
    ("grids/grid.py", "subsimplex_volumes = np.sqrt(np.square(subsimplex_normals).sum(axis=0))"),
]
REQUIRED = {"grids_checked": 20, "cells_compared": 100, "faces_compared": 200,
            "motion:random": 3, "motion:axis": 1, "motion:near_axis": 1,
            "dim1": 2, "dim2": 5, "dim3": 3, "embedded_base": 2,
            "branch:flipped": 2, "branch:two-block": 2, "recomputed_on_same_object": 5}
ASSUMPTIONS = [
    "Q is a proper rotation built from a unit quaternion (det = +1 up to round-off)",
    "face normals are fixed by the cell_faces sign convention, hence compared without a "
    "free global sign; the convention (normal points out of the +1 cell) is asserted",
    "cells are convex (needed by the non-oriented 2-D fallback of the code under test)",
]
LEVEL_TEXT = ("For every explored grid and rigid motion the recomputed geometry equals the "
              "rigidly transformed geometry of the original (volumes, areas, centres, "
              "normals) to 1e-10 relative; exploration only, both 2-D orientation branches "
              "and the embedded 1-D/2-D paths are reached.")
TECHNIQUE = "metamorphic invariant monitor (rigid-motion equivariance) with reach counters"
TOL = 1e-10


# ------------------------------------------------------------------------------ cases
def _motion(rng, mode=None):
    mode = mode or str(rng.choice(["random", "axis", "near_axis", "translation"],
                                  p=[0.55, 0.17, 0.18, 0.10]))
    if mode == "translation":
        m = {"q": [1.0, 0.0, 0.0, 0.0],
             "t": [float(v) for v in rng.uniform(-3, 3, 3)]}
    else:
        m = gg.random_rigid(rng, mode)
    m["mode"] = mode
    return m


_FIXED_MOTIONS = [
    {"mode": "random", "q": [0.9, 0.1, -0.3, 0.2], "t": [0.3, -1.0, 2.0]},
    {"mode": "axis", "q": [float(np.cos(np.pi / 4)), 0.0, float(np.sin(np.pi / 4)), 0.0],
     "t": [1.0, 1.0, -1.0]},
    {"mode": "near_axis", "q": [float(np.cos(np.pi / 4)), float(np.sin(np.pi / 4)) + 3e-8,
                                1e-8, -2e-8], "t": [0.0, 0.5, 0.0]},
    {"mode": "random", "q": [0.1, 0.7, 0.5, -0.4], "t": [-2.0, 0.0, 1.5]},
    {"mode": "axis", "q": [0.0, 0.0, 0.0, 1.0], "t": [0.0, 0.0, 0.0]},
    {"mode": "translation", "q": [1.0, 0.0, 0.0, 0.0], "t": [5.0, -7.0, 11.0]},
]


def floor(tier):
    out = []
    rec = gg.floor_recipes()
    for k, r in enumerate(rec):
        out.append({"grid": r, "variant": "plain", "vseed": 0,
                    "motion": _FIXED_MOTIONS[k % len(_FIXED_MOTIONS)]})
    # non-convex cells (valid only on the oriented path) and strongly graded 1-D grids,
    # each under a half-turn about an in-plane axis ("seen from behind") and a fixed motion
    for k, r in enumerate(gg.floor_extra()):
        out.append({"grid": r, "variant": "plain", "vseed": 0,
                    "motion": {"mode": "axis", "q": [0.0, 1.0, 0.0, 0.0], "t": [0.5, 0.0, -1.0]}})
        out.append({"grid": r, "variant": "plain", "vseed": 0,
                    "motion": _FIXED_MOTIONS[(k + 3) % len(_FIXED_MOTIONS)]})
    for k, r in enumerate(gg.floor_recipes(dims=(2,))):
        out.append({"grid": r, "variant": "flipped", "vseed": 11 + k,
                    "motion": _FIXED_MOTIONS[(k + 1) % len(_FIXED_MOTIONS)]})
    # two disconnected blocks with opposite loop orientation
    for k, (n1, n2) in enumerate([([2, 2], [2, 2]), ([2, 1], [3, 2]), ([1, 1], [1, 1]),
                                  ([3, 2], [1, 2])]):
        out.append({"grid": {"kind": "twoblock", "dim": 2, "n": n1, "n2": n2,
                             "phys": [1.0, 1.0], "phys2": [1.0, 1.0] if n1 == n2 else [1.5, 0.5],
                             "tseed": 3 + k, "rigid": None if k % 2 else
                             {"q": [0.5, -0.5, 0.5, 0.5], "t": [0.0, 1.0, 2.0]}},
                    "variant": "two-block", "vseed": 0,
                    "motion": _FIXED_MOTIONS[(k + 2) % len(_FIXED_MOTIONS)]})
    for k, c in enumerate(out):
        c["recompute"] = bool(k % 2)
    return out


def generate(rng, tier, i):
    u = rng.random()
    if u < 0.07:
        n1 = [int(rng.integers(1, 4)), int(rng.integers(1, 4))]
        same = rng.random() < 0.5
        n2 = list(n1) if same else [int(rng.integers(1, 4)), int(rng.integers(1, 4))]
        L1 = [float(np.round(rng.uniform(0.5, 2.0), 3)) for _ in range(2)]
        L2 = list(L1)
        if not same:
            # keep the two block areas at least 5 % apart: the code's own threshold between
            # orientation check 2/3 and 3/3 is an ill-conditioned band the generator avoids
            for _ in range(50):
                L2 = [float(np.round(rng.uniform(0.5, 2.0), 3)) for _ in range(2)]
                a1, a2 = L1[0] * L1[1], L2[0] * L2[1]
                if abs(a1 - a2) >= 0.05 * max(a1, a2):
                    break
            else:
                L2 = [2.0 * L1[0], L1[1]]
        r = {"kind": "twoblock", "dim": 2, "n": n1, "n2": n2, "phys": L1, "phys2": L2,
             "tseed": int(rng.integers(0, 2**31)),
             "rigid": gg.random_rigid(rng) if rng.random() < 0.6 else None}
        return {"grid": r, "variant": "two-block", "vseed": 0, "motion": _motion(rng),
                "recompute": bool(rng.random() < 0.4)}
    if u < 0.2:
        r = gg.random_recipe(rng, dims=(1, 2), kinds=("graded", "nonconvex"), rigid="embedded")
    else:
        r = gg.random_recipe(rng, rigid="embedded", scales=(1e-4, 1e-3, 1e3))
    variant = "plain"
    vseed = 0
    if r["dim"] == 2 and gg.convex(r) and rng.random() < 0.3:
        variant = "flipped"
        vseed = int(rng.integers(1, 2**31))
    return {"grid": r, "variant": variant, "vseed": vseed, "motion": _motion(rng),
            "recompute": bool(rng.random() < 0.4)}


# ------------------------------------------------------------------------------ build
def _twoblock(r):
    """Two disconnected polygon blocks; the loops of the second block are clockwise."""
    n1, n2 = [int(v) for v in r["n"]], [int(v) for v in r["n2"]]
    L1, L2 = [float(v) for v in r["phys"]], [float(v) for v in r["phys2"]]
    ts = int(r.get("tseed", 0))

    def block(n, L, x0, seed):
        x, y = np.meshgrid(np.linspace(0, L[0], n[0] + 1), np.linspace(0, L[1], n[1] + 1))
        nodes = np.vstack([x.ravel() + x0, y.ravel(), np.zeros(x.size)])
        return nodes, gg._poly_cells(n, seed)

    na, ca = block(n1, L1, 0.0, ts)
    nb, cb = block(n2, L2, L1[0] + 1.0, ts if (n1 == n2 and L1 == L2) else ts + 1)
    off = na.shape[1]
    cells = [list(c) for c in ca] + [[off + v for v in c][::-1] for c in cb]
    g = gg.poly_grid_from_cells(np.hstack([na, nb]), cells)
    if r.get("rigid") is not None:
        R = gg.quat_to_rot(r["rigid"]["q"])
        t = np.asarray(r["rigid"]["t"], dtype=float).reshape(3, 1)
        g.nodes = R @ g.nodes + t
    return g


def _flip_faces(g, seed):
    rng = np.random.default_rng(seed)
    fn = g.face_nodes.tocsc(copy=True)
    ind = fn.indices.copy()
    faces = np.flatnonzero(rng.random(g.num_faces) < 0.4)
    if faces.size == 0:
        faces = np.array([0])
    for f in faces:
        a = fn.indptr[f]
        ind[a], ind[a + 1] = ind[a + 1], ind[a]
    g.face_nodes = sps.csc_matrix((fn.data, ind, fn.indptr), shape=fn.shape)
    return faces.size


def _build(case):
    r = case["grid"]
    if r["kind"] == "twoblock":
        g = _twoblock(r)
    else:
        g = gg.build(r, compute_geometry=False)
    if case["variant"] == "flipped":
        _flip_faces(g, case["vseed"])
    return g


# ------------------------------------------------------------------------------ check
def check(case, mon):
    r = case["grid"]
    m = case["motion"]
    Q = gg.quat_to_rot(m["q"])
    t = np.asarray(m["t"], dtype=float).reshape(3, 1)

    g0 = _build(case)
    g1 = _build(case)
    if case.get("recompute"):
        # the motion is applied to a grid object whose geometry was already computed
        # (compute -> move the nodes -> recompute on the same object): nothing cached
        # by the first computation may survive
        g1.compute_geometry()
        mon.count("recomputed_on_same_object")
    g1.nodes = Q @ g1.nodes + t
    g0.compute_geometry()
    g1.compute_geometry()

    dim = g0.dim
    mon.count("grids_checked")
    mon.count(f"dim{dim}")
    mon.count("motion:" + m.get("mode", "random"))
    mon.count("branch:" + case["variant"])
    if r.get("rigid") is not None and dim < 3:
        mon.count("embedded_base")
    mon.klass(f"{r['kind']}{dim}d/{case['variant']}/{m.get('mode', 'random')}"
              + ("+emb" if r.get("rigid") else ""))
    rotated = float(np.max(np.abs(Q - np.eye(3)))) > 1e-3
    mon.nontrivial(g0.num_cells >= 2 and (rotated or m.get("mode") == "translation"))
    mon.measure("det_Q_minus_1", abs(np.linalg.det(Q) - 1.0))
    mon.measure("orthogonality_Q", float(np.max(np.abs(Q @ Q.T - np.eye(3)))))

    V0, V1 = g0.cell_volumes, g1.cell_volumes
    A0, A1 = g0.face_areas, g1.face_areas
    Vs = float(np.max(V0))
    As = float(np.max(A0))
    xs = max(1.0, float(np.max(np.abs(g0.nodes))), float(np.max(np.abs(g1.nodes))))
    ns = float(np.max(np.linalg.norm(g0.face_normals, axis=0)))
    what = {"kind": r["kind"], "dim": dim, "variant": case["variant"]}

    mon.count("cells_compared", g0.num_cells)
    mon.count("faces_compared", g0.num_faces)
    if not (np.all(V0 > 0) and np.all(V1 > 0)):
        mon.violation("nonpositive-volume", what)
    mon.close("cell_volumes", V1, V0, TOL, "volume-not-invariant", scale=Vs, detail=what)
    mon.close("face_areas", A1, A0, TOL, "area-not-invariant", scale=As, detail=what)
    mon.close("cell_centers", g1.cell_centers, Q @ g0.cell_centers + t, TOL,
              "cell-center-not-equivariant", scale=xs, detail=what)
    mon.close("face_centers", g1.face_centers, Q @ g0.face_centers + t, TOL,
              "face-center-not-equivariant", scale=xs, detail=what)
    mon.close("face_normals", g1.face_normals, Q @ g0.face_normals, TOL,
              "normal-not-equivariant", scale=ns, detail=what)

    # the sign convention that removes the sign freedom: normals point out of +1 cells
    for tag, g in (("orig", g0), ("moved", g1)):
        if r["kind"] == "nonconvex":
            # centre-to-face test is meaningful for convex cells only; for non-convex
            # cells the sign is pinned by the divergence theorem: sum_f sigma y_f.n_f = 2 V
            fi, ci, sgn = sps.find(g.cell_faces)
            y = g.face_centers[:, fi] - g.nodes[:, [0]]
            lhs = np.bincount(ci, weights=sgn * np.sum(y * g.face_normals[:, fi], axis=0),
                              minlength=g.num_cells)
            mon.count("nonconvex_divergence_tests", g.num_cells)
            mon.close("nonconvex_div_x", lhs, 2 * g.cell_volumes, TOL,
                      "normal-not-outward", scale=float(np.max(g.cell_volumes)),
                      detail={**what, "grid": tag})
            continue
        fi, ci, sgn = sps.find(g.cell_faces)
        d = sgn * np.sum(g.face_normals[:, fi] * (g.face_centers[:, fi] - g.cell_centers[:, ci]),
                         axis=0)
        mon.count("outward_tests", fi.size)
        if not np.all(d > 0):
            k = int(np.argmin(d))
            mon.violation("normal-not-outward", {**what, "grid": tag, "face": int(fi[k]),
                                                 "cell": int(ci[k]), "value": float(d[k])})

    # total measure is known for the two-block grids and the recipes
    if r["kind"] == "twoblock":
        meas = float(np.prod(r["phys"]) + np.prod(r["phys2"]))
    else:
        meas = gg.measure(r)
    mon.close("sum_volume_moved", V1.sum(), meas, TOL, "total-volume-after-motion",
              scale=meas, detail=what)
