"""C22 Subgrid extraction and partitioning preserve the parent grid.

Monitor: the real functions of ``porepy.grids.partition`` are called on generated grids
and index sets; every returned object is decided against the parent grid:

* ``extract_subgrid``: the sub-grid topology mapped through the returned face / node maps
  must be the parent's topology restricted to the chosen cells (signs and node order
  included), the copied geometry and the geometry recomputed on a deep copy must equal
  the parent's geometry on the mapped entities;
* ``partition_structured`` / ``partition_coordinates``: one integer label per cell within
  the range of coarse boxes, every part a logical Cartesian box resp. separated by
  axis-aligned boxes of cell centres and (when connectivity is requested) connected by
  the reference's own flood fill;
* ``overlap``: every layer contains the previous one and all its node- / face-neighbours
  (reference from ``cell_faces`` / ``face_nodes`` triplets);
* ``grid_is_connected``: flag and components vs. the reference's own union-find.
"""
from __future__ import annotations

import copy

import numpy as np
import scipy.sparse as sps

from pvm.gen import grids as gg
from pvm.gen import mdg as gm

PROP = "C22"
N = {"quick": 120, "thorough": 4000}
WORKERS = {"quick": 4, "thorough": 16}
RULE = ("grids: seeded recipes of pvm.gen.grids (all kinds, dims 1-3, embedded 1-D/2-D) and "
        "the highest-dimensional split grid of fractured md-grids (pvm.gen.mdg); per grid: "
        "extract_subgrid on a random cell subset (random order, connected flood-fill patch or "
        "scattered, single cell, all cells), overlap with 0-3 layers for both criteria, "
        "grid_is_connected on the subset and on the whole grid, partition_coordinates with "
        "1-12 parts (with and without connectivity check), partition_structured on "
        "Cartesian/tensor grids of dim 2-3 with 1-12 parts or explicit coarse dimensions "
        "(coarse <= fine per direction); non-trivial = at least 3 cells and a proper "
        "non-empty subset; distinct = case hash")
REACH = [
    ("grids/partition.py", "extract_subgrid"),
    ("grids/partition.py", "_extract_submatrix"),
    ("grids/partition.py", "partition_structured"),
    ("grids/partition.py", "partition_coordinates"),
    ("grids/partition.py", "determine_coarse_dimensions"),
    ("grids/partition.py", "overlap"),
    ("grids/partition.py", "grid_is_connected"),
]
REQUIRED = {"op:extract_subgrid": 40, "op:overlap": 200, "op:grid_is_connected": 60,
            "op:partition_coordinates": 30, "op:partition_structured": 10,
            "subset:disconnected": 5, "subset:connected": 5, "grid:split": 5,
            "sub_cells_compared": 200, "sub_faces_compared": 400,
            "overlap:node": 80, "overlap:face": 80}
ASSUMPTIONS = [
    "the sub-grid is deep-copied before its geometry is recomputed (it shares arrays with "
    "the parent)",
    "face normals of the sub-grid are compared without sign freedom: they are fixed by the "
    "cell_faces sign convention that extraction must preserve",
    "partition_structured: range = number of coarse boxes (product of the coarse dimensions, "
    "for num_part those returned by determine_coarse_dimensions); 1-D grids excluded (no code "
    "path, documented box partitioning); coarse dimensions never exceed the fine ones",
    "partition_coordinates: a ValueError 'unconnected subgrids' is a documented rejection; "
    "connectivity of the returned parts is recorded (reference flood fill), not asserted - "
    "the statement only demands one in-range label per cell",
    "overlap: exactness (no extra cells) is recorded as a counter, not asserted",
]
LEVEL_TEXT = ("For every explored grid and cell subset the extracted sub-grid equals the "
              "parent restricted through the returned maps (topology with signs, copied and "
              "recomputed geometry to 1e-10), partitions label every cell once within range "
              "with box-shaped parts, overlap layers grow and contain all neighbours, "
              "connectivity agrees with an independent union-find; exploration only.")
TECHNIQUE = "reference-model monitor (incidence model, flood fill) at the public boundary"
TOL = 1e-10

# ------------------------------------------------------------------------------ cases
def floor(tier):
    out = []
    for k, r in enumerate(gg.floor_recipes()):
        out.append({"src": "recipe", "grid": r, "seed": 1000 + k,
                    "subset": ["patch", "scatter", "single", "all"][k % 4],
                    "parts": 1 + (3 * k) % 12, "layers": k % 4})
    for k, r in enumerate(gm.floor_recipes()):
        out.append({"src": "split", "mdg": r, "seed": 2000 + k,
                    "subset": ["patch", "scatter"][k % 2], "parts": 2 + k % 5, "layers": k % 3})
    # structured partitions: divisible, non-divisible, explicit coarse dimensions
    for k, (n, cd, npart) in enumerate([([4, 10], [2, 3], None), ([4, 4, 4], [2, 2, 2], None),
                                        ([6, 5, 4], [3, 2, 2], None), ([6, 6], None, 4),
                                        ([10, 4], None, 4), ([7, 3], None, 6),
                                        ([3, 3, 3], None, 8), ([4, 3], [4, 3], None),
                                        ([4, 3], [1, 1], None), ([8, 2], [3, 1], None),
                                        ([5, 5], None, 9), ([5, 2], [3, 1], None)]):
        r = {"kind": "cart", "dim": len(n), "n": n, "phys": [float(v) for v in n]}
        out.append({"src": "recipe", "grid": r, "seed": 3000 + k, "subset": "patch",
                    "parts": npart or 2, "layers": 1, "coarse_dims": cd})
    return out


def generate(rng, tier, i):
    seed = int(rng.integers(0, 2**31))
    subset = str(rng.choice(["patch", "scatter", "single", "all"], p=[0.47, 0.43, 0.04, 0.06]))
    case = {"seed": seed, "subset": subset, "parts": int(rng.integers(1, 13)),
            "layers": int(rng.integers(0, 4))}
    u = rng.random()
    if u < 0.2:
        case.update(src="split", mdg=gm.random_recipe(rng, max_fracs=3, p3d=0.2))
    elif u < 0.4:
        # logically Cartesian grids for partition_structured
        dim = int(rng.choice([2, 3]))
        n = [int(rng.integers(1, 9)) for _ in range(dim)] if dim == 2 else \
            [int(rng.integers(1, 5)) for _ in range(dim)]
        r = {"kind": str(rng.choice(["cart", "tensor"])), "dim": dim, "n": n,
             "phys": [float(np.round(rng.uniform(0.5, 3.0), 3)) for _ in range(dim)],
             "tseed": int(rng.integers(0, 2**31)), "perturb": 0.0, "pseed": 0,
             "affine": None, "rigid": None}
        case.update(src="recipe", grid=r)
        if rng.random() < 0.5:
            case["coarse_dims"] = [int(rng.integers(1, v + 1)) for v in n]
    else:
        case.update(src="recipe",
                    grid=gg.random_recipe(rng, rigid="embedded", max_cells=80))
    return case


# -------------------------------------------------------------------------- reference
class Ref:
    def __init__(self, g):
        cf = sps.coo_matrix(g.cell_faces)
        fn = sps.coo_matrix(g.face_nodes)
        self.nc, self.nf, self.nn = g.num_cells, g.num_faces, g.num_nodes
        self.cell_faces = [[] for _ in range(self.nc)]
        self.face_cells = [[] for _ in range(self.nf)]
        for f, c, s in zip(cf.row.tolist(), cf.col.tolist(), cf.data.tolist()):
            self.cell_faces[c].append(f)
            self.face_cells[f].append(c)
        self.face_nodes = [[] for _ in range(self.nf)]
        for n, f in zip(fn.row.tolist(), fn.col.tolist()):
            self.face_nodes[f].append(n)
        self.cell_nodes = [set() for _ in range(self.nc)]
        self.node_cells = [set() for _ in range(self.nn)]
        for c in range(self.nc):
            for f in self.cell_faces[c]:
                for n in self.face_nodes[f]:
                    self.cell_nodes[c].add(n)
                    self.node_cells[n].add(c)

    def face_nb(self, cells):
        out = set(cells)
        for c in cells:
            for f in self.cell_faces[c]:
                out.update(self.face_cells[f])
        return out

    def node_nb(self, cells):
        out = set(cells)
        for c in cells:
            for n in self.cell_nodes[c]:
                out.update(self.node_cells[n])
        return out

    def components(self, cells):
        cells = [int(c) for c in cells]
        inside = set(cells)
        seen = set()
        comps = []
        for c in cells:
            if c in seen:
                continue
            comp = {c}
            stack = [c]
            seen.add(c)
            while stack:
                a = stack.pop()
                for f in self.cell_faces[a]:
                    for b in self.face_cells[f]:
                        if b in inside and b not in seen:
                            seen.add(b)
                            comp.add(b)
                            stack.append(b)
            comps.append(frozenset(comp))
        return comps


def _subset(ref, kind, rng):
    nc = ref.nc
    if kind == "all" or nc == 1:
        return rng.permutation(nc)
    if kind == "single":
        return np.array([int(rng.integers(0, nc))])
    k = int(rng.integers(2, nc)) if nc >= 3 else 1
    if kind == "scatter":
        return rng.choice(nc, size=k, replace=False)
    # connected patch by random flood fill
    start = int(rng.integers(0, nc))
    patch = [start]
    inp = {start}
    frontier = [start]
    while len(patch) < k and frontier:
        a = frontier.pop(int(rng.integers(0, len(frontier))))
        for f in ref.cell_faces[a]:
            for b in ref.face_cells[f]:
                if b not in inp and len(patch) < k:
                    inp.add(b)
                    patch.append(b)
                    frontier.append(b)
    return rng.permutation(np.array(patch))


# ------------------------------------------------------------------------------ check
def check(case, mon):
    import porepy as pp
    rng = np.random.default_rng(case["seed"])
    if case["src"] == "recipe":
        g = gg.build(case["grid"])
        label = f"{case['grid']['kind']}{g.dim}d" + ("+emb" if case["grid"].get("rigid") else "")
        mon.count("grid:recipe")
    else:
        mdg = gm.build(case["mdg"])
        g = mdg.subdomains(dim=mdg.dim_max())[0]
        label = f"split:{case['mdg']['mesh']}{g.dim}d"
        mon.count("grid:split")
    ref = Ref(g)
    cells = _subset(ref, case["subset"], rng)
    ncomp = len(ref.components(cells))
    mon.klass(f"{label}/{case['subset']}")
    mon.count("subset:connected" if ncomp == 1 else "subset:disconnected")
    mon.nontrivial(g.num_cells >= 3 and 0 < cells.size < g.num_cells)
    what = {"grid": label, "cells": g.num_cells, "subset": case["subset"],
            "subset_size": int(cells.size)}

    _check_extract(pp, g, ref, cells, what, mon)
    # the documented sort=False form, on the subset in its random order and on ALL cells in
    # a random order (a permutation of the whole grid is a legal cell set)
    _check_extract(pp, g, ref, cells, {**what, "sort": False}, mon, sort=False)
    if g.num_cells <= 60:
        _check_extract(pp, g, ref, rng.permutation(g.num_cells),
                       {**what, "sort": False, "subset": "all-cells-permuted"}, mon, sort=False)
    _check_overlap(pp, g, ref, cells, int(case["layers"]), what, mon)
    _check_connected(pp, g, ref, cells, what, mon)
    _check_partition_coordinates(pp, g, ref, int(case["parts"]), rng, what, mon)
    if case["src"] == "recipe" and case["grid"]["kind"] in ("cart", "tensor"):
        if g.dim >= 2:
            _check_partition_structured(pp, g, case, what, mon)
        else:
            mon.excluded("partition_structured on 1-D grids (no code path for nd == 1)")


# ---- extract_subgrid
def _check_extract(pp, g, ref, cells, what, mon, sort=True):
    if sort:
        h, fmap, nmap = pp.partition.extract_subgrid(g, cells.copy())
    else:
        h, fmap, nmap = pp.partition.extract_subgrid(g, cells.copy(), sort=False)
        mon.count("op:extract_subgrid:sort=False")
    mon.count("op:extract_subgrid")
    fmap = np.asarray(fmap)
    nmap = np.asarray(nmap)
    # parent_cell_ind names the parent of every sub-grid cell: it must enumerate the chosen
    # cells exactly once (the code sorts them; any order is accepted and used below)
    cs = np.asarray(h.parent_cell_ind).ravel()
    if cs.size != cells.size or not np.array_equal(np.sort(cs), np.sort(cells)):
        mon.violation("extract_subgrid:parent_cell_ind", {**what, "got": cs[:10],
                                                          "want": np.sort(cells)[:10]})
        return
    mon.count("parent_cell_ind_sorted" if np.all(np.diff(cs) > 0) or cs.size < 2
              else "parent_cell_ind_unsorted")
    want_faces = sorted({f for c in cs for f in ref.cell_faces[int(c)]})
    want_nodes = sorted({n for f in want_faces for n in ref.face_nodes[f]})
    if h.num_cells != cs.size or h.num_faces != len(want_faces) or h.num_nodes != len(want_nodes):
        mon.violation("extract_subgrid:entity-count",
                      {**what, "got": [h.num_cells, h.num_faces, h.num_nodes],
                       "want": [cs.size, len(want_faces), len(want_nodes)]})
        return
    if fmap.size != h.num_faces or nmap.size != h.num_nodes or \
            set(fmap.tolist()) != set(want_faces) or set(nmap.tolist()) != set(want_nodes):
        mon.violation("extract_subgrid:maps-are-not-the-entities-of-the-cells", what)
        return
    # topology through the maps (signs, node order)
    hcf = h.cell_faces.tocsc()
    gcf = g.cell_faces.tocsc()
    for k, c in enumerate(cs):
        a = {(int(fmap[f]), int(s)) for f, s in
             zip(hcf.indices[hcf.indptr[k]:hcf.indptr[k + 1]],
                 hcf.data[hcf.indptr[k]:hcf.indptr[k + 1]])}
        b = {(int(f), int(s)) for f, s in
             zip(gcf.indices[gcf.indptr[c]:gcf.indptr[c + 1]],
                 gcf.data[gcf.indptr[c]:gcf.indptr[c + 1]])}
        if a != b:
            mon.violation("extract_subgrid:cell_faces-through-face-map",
                          {**what, "sub_cell": k, "parent_cell": int(c), "got": sorted(a),
                           "want": sorted(b)})
            return
    hfn = h.face_nodes.tocsc()
    gfn = g.face_nodes.tocsc()
    for k in range(h.num_faces):
        a = [int(nmap[n]) for n in hfn.indices[hfn.indptr[k]:hfn.indptr[k + 1]]]
        f = int(fmap[k])
        b = [int(n) for n in gfn.indices[gfn.indptr[f]:gfn.indptr[f + 1]]]
        if a != b:
            mon.violation("extract_subgrid:face_nodes-through-node-map",
                          {**what, "sub_face": k, "parent_face": f, "got": a, "want": b})
            return
    mon.count("sub_cells_compared", int(cs.size))
    mon.count("sub_faces_compared", int(h.num_faces))
    xs = max(1.0, float(np.max(np.abs(g.nodes))))
    Vs = float(np.max(g.cell_volumes))
    As = float(np.max(g.face_areas)) if g.num_faces else 1.0
    ns = float(np.max(np.linalg.norm(g.face_normals, axis=0))) if g.num_faces else 1.0
    mon.close("sub_nodes", h.nodes, g.nodes[:, nmap], 0.0, "extract_subgrid:node-coordinates",
              scale=xs, detail=what)
    # copied geometry
    for name, got, want, sc in (
            ("copied_cell_centers", h.cell_centers, g.cell_centers[:, cs], xs),
            ("copied_cell_volumes", h.cell_volumes, g.cell_volumes[cs], Vs),
            ("copied_face_centers", h.face_centers, g.face_centers[:, fmap], xs),
            ("copied_face_normals", h.face_normals, g.face_normals[:, fmap], ns),
            ("copied_face_areas", h.face_areas, g.face_areas[fmap], As)):
        mon.close(name, got, want, 0.0, "extract_subgrid:copied-geometry", scale=sc,
                  detail={**what, "field": name})
    # recomputed geometry on a deep copy
    h2 = copy.deepcopy(h)
    h2.compute_geometry()
    mon.count("sub_recomputed")
    for name, got, want, sc in (
            ("re_cell_volumes", h2.cell_volumes, g.cell_volumes[cs], Vs),
            ("re_cell_centers", h2.cell_centers, g.cell_centers[:, cs], xs),
            ("re_face_areas", h2.face_areas, g.face_areas[fmap], As),
            ("re_face_centers", h2.face_centers, g.face_centers[:, fmap], xs),
            ("re_face_normals", h2.face_normals, g.face_normals[:, fmap], ns)):
        mon.close(name, got, want, TOL, "extract_subgrid:recomputed-geometry", scale=sc,
                  detail={**what, "field": name})
    # the parent must not have been modified by the recomputation on the copy
    if not np.shares_memory(h2.nodes, g.nodes):
        mon.count("deep_copies_independent")


# ---- overlap
def _check_overlap(pp, g, ref, cells, layers, what, mon):
    for crit in ("node", "face"):
        nb = ref.node_nb if crit == "node" else ref.face_nb
        prev = None
        exact = set(int(c) for c in cells)
        for k in range(layers + 1):
            det = {**what, "criterion": crit, "layers": k}
            mon.count("op:overlap")
            mon.count("overlap:" + crit)
            try:
                out = pp.partition.overlap(g, cells.copy(), k, crit)
            except np.exceptions.AxisError:
                # np.sort(np.squeeze(...)) on a 0-d array: the extended set is one cell
                if k > 0:
                    exact = nb(exact)
                if len(exact) == 1:
                    mon.violation("overlap:single-cell-result-raises", det)
                    prev = set(exact)
                    continue
                raise
            out = np.atleast_1d(np.asarray(out))
            got = set(int(c) for c in out.tolist())
            if len(got) != out.size or (out.size and (out.min() < 0 or out.max() >= g.num_cells)):
                mon.violation("overlap:invalid-indices", det)
                return
            if k == 0:
                if not got >= exact:
                    mon.violation("overlap:loses-initial-cells", det)
                    return
            else:
                if not got >= prev:
                    mon.violation("overlap:layer-does-not-contain-previous",
                                  {**det, "missing": sorted(prev - got)[:10]})
                    return
                need = nb(prev)
                if not got >= need:
                    mon.violation("overlap:missing-neighbours",
                                  {**det, "missing": sorted(need - got)[:10]})
                    return
                exact = nb(exact)
            mon.count("overlap_exact" if got == exact else "overlap_not_exact")
            mon.count("overlap_cells_added", len(got) - (len(prev) if prev is not None
                                                         else len(set(cells.tolist()))))
            prev = got


# ---- grid_is_connected
def _check_connected(pp, g, ref, cells, what, mon):
    for tag, ind in (("subset", cells.copy()), ("sorted", np.sort(cells)), ("whole", None)):
        if tag == "whole":
            flag, comps = pp.partition.grid_is_connected(g)
            ind = np.arange(g.num_cells)
        else:
            flag, comps = pp.partition.grid_is_connected(g, ind)
        mon.count("op:grid_is_connected")
        want = ref.components(ind)
        det = {**what, "input": tag, "want_components": len(want)}
        if bool(flag) != (len(want) == 1):
            mon.violation("grid_is_connected:flag", {**det, "got": bool(flag)})
            continue
        mon.count("connected:true" if flag else "connected:false")
        local = {frozenset(int(ind[int(i)]) for i in np.atleast_1d(c).tolist()) for c in comps}
        glob = {frozenset(int(i) for i in np.atleast_1d(c).tolist()) for c in comps}
        if local == set(want):
            mon.count("components_as_positions_in_cell_ind")
        elif glob == set(want):
            mon.count("components_as_global_indices")
        else:
            mon.violation("grid_is_connected:components",
                          {**det, "got_sizes": sorted(len(c) for c in local),
                           "want_sizes": sorted(len(c) for c in want)})


# ---- partition_coordinates
def _check_partition_coordinates(pp, g, ref, parts, rng, what, mon):
    for conn in (True, False):
        det = {**what, "num_coarse": parts, "check_connectivity": conn}
        try:
            p = pp.partition.partition_coordinates(g, parts, check_connectivity=conn)
        except ValueError as e:
            if conn and "unconnected" in str(e):
                mon.count("partition_coordinates:rejected-unconnected")
                continue
            raise
        mon.count("op:partition_coordinates")
        p = np.asarray(p)
        if p.shape != (g.num_cells,):
            mon.violation("partition_coordinates:shape", {**det, "shape": list(p.shape)})
            continue
        if not (np.all(np.isfinite(p)) and np.all(p == np.round(p)) and np.all(p >= 0)):
            mon.violation("partition_coordinates:label-not-a-nonnegative-integer", det)
            continue
        lab = p.astype(int)
        mon.measure("partition_coordinates_parts_over_target",
                    np.unique(lab).size / max(1, min(parts, g.num_cells)))
        mon.measure("partition_coordinates_maxlabel_over_target", (lab.max() + 1) / parts)
        # box separation in the coordinates the function works in
        if g.dim == 3:
            cc = g.cell_centers
        else:
            cc = pp.map_geometry.map_grid(g.copy())[0]
        cc = np.atleast_2d(cc)
        for q in np.unique(lab):
            mine = lab == q
            lo = cc[:, mine].min(axis=1, keepdims=True)
            hi = cc[:, mine].max(axis=1, keepdims=True)
            inside = np.all((cc >= lo) & (cc <= hi), axis=0)
            if np.any(inside & ~mine):
                mon.violation("partition_coordinates:parts-not-separated-by-boxes",
                              {**det, "part": int(q),
                               "intruder": int(np.flatnonzero(inside & ~mine)[0])})
                break
        mon.count("partition_coordinates_parts", int(np.unique(lab).size))
        # connectivity of the parts is not part of the property statement: recorded only
        unconnected = sum(len(ref.components(np.flatnonzero(lab == q))) != 1
                          for q in np.unique(lab))
        if unconnected:
            mon.count("partition_coordinates:returned-with-unconnected-parts"
                      + ("(check_connectivity=True)" if conn else "(check_connectivity=False)"))
        else:
            mon.count("partition_coordinates:all-parts-connected")


# ---- partition_structured
def _check_partition_structured(pp, g, case, what, mon):
    fine = np.asarray(g.cart_dims, dtype=int)
    cd = case.get("coarse_dims")
    if cd is not None:
        cd = np.asarray(cd, dtype=int)
        p = pp.partition.partition_structured(g, coarse_dims=cd.copy())
        mode = "coarse_dims"
    else:
        npart = int(case["parts"])
        p = pp.partition.partition_structured(g, num_part=npart)
        cd = np.asarray(pp.partition.determine_coarse_dimensions(npart, fine), dtype=int)
        mode = "num_part"
    mon.count("op:partition_structured")
    mon.count("partition_structured:" + mode)
    nparts = int(np.prod(cd))
    det = {**what, "fine_dims": fine, "coarse_dims": cd, "mode": mode,
           "divisible": bool(np.all(fine % cd == 0))}
    mon.count("partition_structured:divisible" if det["divisible"]
              else "partition_structured:non-divisible")
    p = np.asarray(p)
    if p.shape != (g.num_cells,):
        mon.violation("partition_structured:shape", {**det, "shape": list(p.shape)})
        return
    if not np.issubdtype(p.dtype, np.integer) or p.min() < 0 or p.max() >= nparts:
        mon.violation("partition_structured:label-out-of-range",
                      {**det, "min": int(p.min()), "max": int(p.max()), "num_boxes": nparts,
                       "labels": p[:40]})
    # every part is a logical Cartesian box (cells are numbered x fastest)
    ijk = np.array(np.unravel_index(np.arange(g.num_cells), tuple(fine), order="F"))
    for q in np.unique(p):
        mine = p == q
        lo = ijk[:, mine].min(axis=1)
        hi = ijk[:, mine].max(axis=1)
        if int(np.prod(hi - lo + 1)) != int(mine.sum()):
            mon.violation("partition_structured:part-not-a-box",
                          {**det, "part": int(q), "lo": lo, "hi": hi, "size": int(mine.sum()),
                           "labels": p[:40]})
            break
    mon.measure("partition_structured_parts_over_boxes", np.unique(p).size / nparts)
