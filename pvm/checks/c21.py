"""C21 Grid connectivity queries agree with the cell-face incidence.

Monitor: on a generated grid (plain recipe, sub-grid from ``extract_subgrid`` or every
subdomain of a fractured mixed-dimensional grid, i.e. grids after face/node splitting) the
public connectivity queries of ``pp.Grid`` are called and every returned object is decided
by a small reference model that reads nothing but the COO triplets of ``g.cell_faces`` and
``g.face_nodes`` (plain Python dictionaries / dense integer arrays).
"""
from __future__ import annotations


import numpy as np
import scipy.sparse as sps

from pvm.gen import grids as gg
from pvm.gen import mdg as gm

PROP = "C21"
N = {"quick": 120, "thorough": 5000}
WORKERS = {"quick": 4, "thorough": 16}
RULE = ("three sources: (a) seeded recipes of pvm.gen.grids (all kinds, dims 1-3), (b) the "
        "sub-grid extracted from such a grid on a random cell subset (connected or not), "
        "(c) every subdomain (dims 0-3) of a fractured md-grid from pvm.gen.mdg (Cartesian and "
        "gmsh, X/T/L intersections: split faces and nodes); all queries are evaluated on each "
        "grid, boundary-face queries with unsorted random face subsets; non-trivial = at "
        "least 2 cells and at least one internal face; distinct = case hash")
REACH = [
    ("grids/grid.py", "Grid.cell_faces_as_dense"),
    ("grids/grid.py", "Grid.cell_connection_map"),
    ("grids/grid.py", "Grid.signs_and_cells_of_boundary_faces"),
    ("grids/grid.py", "Grid.cell_nodes"),
    ("grids/grid.py", "Grid.divergence"),
    ("grids/grid.py", "Grid.trace"),
    ("grids/grid.py", "Grid.update_boundary_face_tag"),
    ("grids/grid.py", "Grid.get_all_boundary_faces"),
    ("utils/tags.py", "all_face_tags"),
]
REQUIRED = {"grids_checked": 40, "q:cell_faces_as_dense": 40, "q:cell_connection_map": 40,
            "q:boundary_tags": 40, "q:signs_and_cells": 40, "q:cell_nodes": 40,
            "q:divergence": 100, "q:trace": 100, "src:split": 10, "src:subgrid": 5,
            "src:recipe": 10, "split_faces_seen": 10, "internal_face_rejections": 10}
ASSUMPTIONS = [
    "the reference reads only the COO triplets of cell_faces / face_nodes",
    "on split (fractured) grids the boundary faces are the union of the three standard face "
    "tags (domain boundary, fracture, tip); the domain-boundary tag alone is asserted on "
    "grids built by the Grid constructor and after update_boundary_face_tag()",
    "the diagonal of cell_connection_map (a cell shares faces with itself) is recorded, not "
    "asserted",
]
LEVEL_TEXT = ("For every explored grid (incl. split fractured grids and sub-grids) the dense "
              "face-cell array, connection map, boundary tags, signs/cells of boundary faces, "
              "cell-node map, scalar/vector divergence and trace equal a reference derived "
              "from the signed cell-face incidence alone; exploration only.")
TECHNIQUE = "reference-model monitor (dict/dense incidence model) with reach counters"


# ------------------------------------------------------------------------------ cases
def floor(tier):
    out = [{"src": "recipe", "grid": r, "seed": 100 + k}
           for k, r in enumerate(gg.floor_recipes())]
    out += [{"src": "subgrid", "grid": r, "seed": 200 + k}
            for k, r in enumerate(gg.floor_recipes(rigid=False)) if k % 2 == 0]
    out += [{"src": "split", "mdg": r, "seed": 300 + k}
            for k, r in enumerate(gm.floor_recipes())]
    return out


def generate(rng, tier, i):
    u = rng.random()
    seed = int(rng.integers(0, 2**31))
    if u < 0.45:
        return {"src": "recipe", "grid": gg.random_recipe(rng, rigid="embedded"), "seed": seed}
    if u < 0.65:
        return {"src": "subgrid", "grid": gg.random_recipe(rng, rigid="embedded"), "seed": seed}
    return {"src": "split", "mdg": gm.random_recipe(rng, max_fracs=3, p3d=0.2), "seed": seed}


# -------------------------------------------------------------------------- reference
class Incidence:
    """Reference model built from the COO triplets only."""

    def __init__(self, g):
        cf = sps.coo_matrix(g.cell_faces)
        self.nf, self.nc = g.num_faces, g.num_cells
        self.nn = g.num_nodes
        self.face_cells: dict[int, list[tuple[int, int]]] = {f: [] for f in range(self.nf)}
        for f, c, s in zip(cf.row.tolist(), cf.col.tolist(), cf.data.tolist()):
            if s != 0:
                self.face_cells[f].append((c, int(np.sign(s))))
        fn = sps.coo_matrix(g.face_nodes)
        self.face_nodes: dict[int, set[int]] = {f: set() for f in range(self.nf)}
        for n, f, v in zip(fn.row.tolist(), fn.col.tolist(), fn.data.tolist()):
            if v:
                self.face_nodes[f].add(n)
        self.one_cell = np.array([len(self.face_cells[f]) == 1 for f in range(self.nf)],
                                 dtype=bool)
        self.two_cell = np.array([len(self.face_cells[f]) == 2 for f in range(self.nf)],
                                 dtype=bool)

    def dense(self):
        out = -np.ones((2, self.nf), dtype=int)
        for f, lst in self.face_cells.items():
            for c, s in lst:
                out[0 if s > 0 else 1, f] = c
        return out

    def neighbours(self):
        m = np.zeros((self.nc, self.nc), dtype=bool)
        for lst in self.face_cells.values():
            for a, _ in lst:
                for b, _ in lst:
                    m[a, b] = True
        return m

    def cell_nodes(self):
        m = np.zeros((self.nn, self.nc), dtype=bool)
        for f, lst in self.face_cells.items():
            for c, _ in lst:
                for n in self.face_nodes[f]:
                    m[n, c] = True
        return m

    def signed_dense(self):
        m = np.zeros((self.nf, self.nc), dtype=int)
        for f, lst in self.face_cells.items():
            for c, s in lst:
                m[f, c] += s
        return m


def _dense_bool(m):
    return np.asarray((abs(m) > 0).todense()) if sps.issparse(m) else np.asarray(m) != 0


# ------------------------------------------------------------------------------ check
def _grids_of_case(case, mon):
    """Yield (label, grid, fresh_from_constructor)."""
    src = case["src"]
    rng = np.random.default_rng(case["seed"])
    if src == "recipe":
        g = gg.build(case["grid"])
        return [(f"{case['grid']['kind']}{g.dim}d", g, True)]
    if src == "subgrid":
        import porepy as pp
        g = gg.build(case["grid"])
        k = int(rng.integers(1, g.num_cells + 1))
        cells = rng.choice(g.num_cells, size=k, replace=False)
        h, _, _ = pp.partition.extract_subgrid(g, cells)
        return [(f"sub:{case['grid']['kind']}{g.dim}d", h, True)]
    mdg = gm.build(case["mdg"])
    out = []
    for sd in mdg.subdomains():
        out.append((f"split:{case['mdg']['mesh']}{case['mdg']['dim']}d/sd{sd.dim}", sd, False))
    return out


def check(case, mon):
    rng = np.random.default_rng(case["seed"] + 1)
    grids = _grids_of_case(case, mon)
    mon.count("src:" + case["src"])
    for label, g, fresh in grids:
        mon.klass(label)
        _check_grid(g, fresh, label, rng, mon)
        if g.num_faces and g.dim >= 1 and rng.random() < 0.5:
            # the incidence of the SAME grid object is changed in place (orientation of a
            # random subset of faces reversed: sign of their cell_faces rows), then every
            # query is repeated: answers must follow the current incidence, not a memory of
            # the first round
            flip = np.flatnonzero(rng.random(g.num_faces) < 0.4)
            if flip.size == 0:
                flip = np.array([0])
            D = np.ones(g.num_faces)
            D[flip] = -1.0
            import scipy.sparse as sps
            g.cell_faces = (sps.diags(D) @ g.cell_faces).tocsc()
            g.cell_faces.data = g.cell_faces.data.astype(int)
            mon.count("grids_requeried_after_in_place_change")
            _check_grid(g, False, label + "/requeried", rng, mon)


def _check_grid(g, fresh, label, rng, mon):
    ref = Incidence(g)
    nf, nc = g.num_faces, g.num_cells
    what = {"grid": label, "cells": nc, "faces": nf}
    mon.count("grids_checked")
    mon.count(f"dim{g.dim}")
    mon.nontrivial(nc >= 2 and bool(np.any(ref.two_cell)))
    per_face = np.array([len(ref.face_cells[f]) for f in range(nf)], dtype=int)
    mon.count("faces_total", nf)
    mon.count("faces_internal", int(ref.two_cell.sum()))
    mon.count("faces_boundary", int(ref.one_cell.sum()))
    if nf and (per_face.min() < 1 or per_face.max() > 2):
        mon.inconclusive(f"grid outside the model: faces with {per_face.min()}..{per_face.max()} cells")
        return

    # ---- cell_faces_as_dense
    cfd = np.asarray(g.cell_faces_as_dense())
    mon.count("q:cell_faces_as_dense")
    if cfd.shape != (2, nf):
        mon.violation("cell_faces_as_dense:shape", {**what, "shape": list(cfd.shape)})
    elif nf and not np.array_equal(cfd, ref.dense()):
        bad = np.flatnonzero(np.any(cfd != ref.dense(), axis=0))
        f = int(bad[0])
        mon.violation("cell_faces_as_dense:mismatch",
                      {**what, "face": f, "got": cfd[:, f], "want": ref.dense()[:, f],
                       "incidence": ref.face_cells[f]})

    # ---- cell_connection_map
    c2c = g.cell_connection_map()
    mon.count("q:cell_connection_map")
    C = _dense_bool(c2c)
    Nb = ref.neighbours()
    if C.shape != (nc, nc):
        mon.violation("cell_connection_map:shape", {**what, "shape": list(C.shape)})
    else:
        if not np.array_equal(C, C.T):
            mon.violation("cell_connection_map:not-symmetric", what)
        off = ~np.eye(nc, dtype=bool)
        if not np.array_equal(C & off, Nb & off):
            i, j = np.argwhere((C & off) != (Nb & off))[0]
            mon.violation("cell_connection_map:pattern", {**what, "i": int(i), "j": int(j),
                                                          "got": bool(C[i, j])})
        mon.count("c2c_offdiag_pairs", int((Nb & off).sum()))
        mon.count("c2c_diagonal_true", int(np.diag(C).sum()))

    # ---- boundary tags
    mon.count("q:boundary_tags")
    allb = np.sort(np.asarray(g.get_all_boundary_faces()))
    want_b = np.flatnonzero(ref.one_cell)
    if not np.array_equal(allb, want_b):
        mon.violation("boundary-tags:union-differs-from-one-cell-faces",
                      {**what, "tagged_not_boundary": np.setdiff1d(allb, want_b)[:10],
                       "boundary_not_tagged": np.setdiff1d(want_b, allb)[:10]})
    if fresh:
        if not np.array_equal(np.flatnonzero(g.tags["domain_boundary_faces"]), want_b):
            mon.violation("boundary-tags:domain-boundary-of-constructed-grid", what)
        if not np.array_equal(np.sort(np.asarray(g.get_boundary_faces())), want_b):
            mon.violation("boundary-tags:get_boundary_faces", what)
    else:
        mon.count("split_faces_seen", int(np.sum(g.tags["fracture_faces"])))
    # update_boundary_face_tag() on a copy of the tag dictionary
    saved = g.tags
    try:
        g.tags = {k: (v.copy() if isinstance(v, np.ndarray) else v) for k, v in saved.items()}
        g.update_boundary_face_tag()
        got = np.flatnonzero(g.tags["domain_boundary_faces"])
        if g.dim > 0 and not np.array_equal(got, want_b):
            mon.violation("boundary-tags:update_boundary_face_tag", what)
        if g.dim == 0 and got.size:
            mon.violation("boundary-tags:update_boundary_face_tag", what)
        mon.count("update_boundary_face_tag_calls")
    finally:
        g.tags = saved

    # ---- signs_and_cells_of_boundary_faces (unsorted subsets)
    if want_b.size:
        for rep in range(3):
            if rep == 0:
                faces = want_b.copy()
            else:
                k = int(rng.integers(1, want_b.size + 1))
                faces = rng.choice(want_b, size=k, replace=False)
            if rep == 2:
                faces = np.sort(faces)[::-1].copy()
            sgn, ci = g.signs_and_cells_of_boundary_faces(faces)
            mon.count("q:signs_and_cells")
            ws = np.array([ref.face_cells[int(f)][0][1] for f in faces])
            wc = np.array([ref.face_cells[int(f)][0][0] for f in faces])
            if not (np.array_equal(np.asarray(sgn), ws) and np.array_equal(np.asarray(ci), wc)):
                mon.violation("signs_and_cells:mismatch",
                              {**what, "faces": faces[:12], "got_sgn": np.asarray(sgn)[:12],
                               "want_sgn": ws[:12], "got_ci": np.asarray(ci)[:12],
                               "want_ci": wc[:12],
                               "sorted_input": bool(np.all(np.diff(faces) > 0))})
        internal = np.flatnonzero(ref.two_cell)
        if internal.size:
            faces = np.append(rng.choice(want_b, size=min(2, want_b.size), replace=False),
                              rng.choice(internal))
            faces = rng.permutation(faces)
            try:
                g.signs_and_cells_of_boundary_faces(faces)
                mon.violation("signs_and_cells:internal-face-accepted", {**what, "faces": faces})
            except ValueError:
                mon.count("internal_face_rejections")

    # ---- cell_nodes
    cn = g.cell_nodes()
    mon.count("q:cell_nodes")
    CN = _dense_bool(cn)
    if CN.shape != (g.num_nodes, nc):
        mon.violation("cell_nodes:shape", {**what, "shape": list(CN.shape)})
    elif not np.array_equal(CN, ref.cell_nodes()):
        n, c = np.argwhere(CN != ref.cell_nodes())[0]
        mon.violation("cell_nodes:pattern", {**what, "node": int(n), "cell": int(c),
                                             "got": bool(CN[n, c])})
    else:
        if g.dim > 0:
            ncn = np.asarray(g.num_cell_nodes()).ravel()
            if not np.array_equal(ncn, ref.cell_nodes().sum(axis=0)):
                mon.violation("cell_nodes:num_cell_nodes", what)

    # ---- divergence: D_k[c*k+a, f*k+a] = cell_faces[f, c]
    trip = [(f, c, s) for f, lst in ref.face_cells.items() for c, s in lst]
    for k in (1, 2, 3):
        D = g.divergence(k)
        mon.count("q:divergence")
        rows = [c * k + a for f, c, s in trip for a in range(k)]
        cols = [f * k + a for f, c, s in trip for a in range(k)]
        vals = [s for f, c, s in trip for a in range(k)]
        want = sps.csr_matrix((vals, (rows, cols)), shape=(nc * k, nf * k), dtype=float)
        if D.shape != want.shape:
            mon.violation("divergence:shape", {**what, "dim": k, "shape": list(D.shape)})
        else:
            diff = sps.csr_matrix(D, dtype=float) - want
            diff.eliminate_zeros()
            if diff.nnz:
                i, j = (int(v[0]) for v in diff.nonzero())
                mon.violation("divergence:not-kron-of-scalar",
                              {**what, "dim": k, "row": i, "col": j, "got": float(D[i, j]),
                               "want": float(want[i, j])})
        if k == 1 and nf:
            if abs(sps.csr_matrix(D, dtype=float) - sps.csr_matrix(g.cell_faces.T,
                                                                   dtype=float)).sum() != 0:
                mon.violation("divergence:scalar-is-not-cell_faces-transposed", what)
    try:
        g.divergence(0)
        mon.violation("divergence:dim0-accepted", what)
    except ValueError:
        mon.count("divergence_dim0_rejections")

    # ---- trace: T_k[f*k+a, c*k+a] = 1 for boundary faces f and their cell c
    if nf:
        for k in (1, 2, 3):
            T = g.trace(k)
            mon.count("q:trace")
            rows = [int(f) * k + a for f in want_b for a in range(k)]
            cols = [ref.face_cells[int(f)][0][0] * k + a for f in want_b for a in range(k)]
            want = sps.csr_matrix((np.ones(len(rows)), (rows, cols)), shape=(nf * k, nc * k))
            if T.shape != want.shape:
                mon.violation("trace:shape", {**what, "dim": k, "shape": list(T.shape)})
            else:
                diff = sps.csr_matrix(T, dtype=float) - want
                diff.eliminate_zeros()
                if diff.nnz:
                    i, j = (int(v[0]) for v in diff.nonzero())
                    mon.violation("trace:mismatch", {**what, "dim": k, "row": i, "col": j,
                                                     "got": float(T[i, j])})
