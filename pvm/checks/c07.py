"""C07 Schur complement reduction reproduces the full solution.

Reference-model monitor: for a generated primary/secondary split the real
``assemble_schur_complement_system`` + ``expand_schur_complement_solution`` are run and the
expanded increment is compared with a dense solve of the full linearised system obtained
from ``assemble()``.  Systems are synthetic (``pvm.gen.c06_systems``): the global Jacobian is
prescribed so that the complementary block is square and well conditioned - block diagonal
(blocks 1-4) after random row and column permutations of the secondary dofs for the default
inverter, dense for a custom dense inverter.  A fresh ``EquationSystem`` is built for every
split (the default inverter caches its permutation per system, documented).  In addition the
single-phase flow model is split by name and by grid.
"""
from __future__ import annotations

import os
import shutil
import tempfile

import numpy as np
import scipy.sparse as sps

from pvm.gen import c06_systems as cs
from pvm.gen import mdg as gm
from pvm.ref.c05_layout import express, warm_grids

PROP = "C07"
N = {"quick": 40, "thorough": 2000}
WORKERS = {"quick": 4, "thorough": 16}
TIMEOUT = {"quick": 240, "thorough": 1000}
CASE_TIMEOUT = 300.0
RULE = ("seeded synthetic square systems: 2-4 md-variables with random dof types on "
        "subdomain or interface subsets of md-grids with 0-3 fractures, one equation per "
        "variable with the same image (set in random order); 2 splits per system: primary "
        "variables = random set of atomic variables (names / md-variables / atomic), primary "
        "equations = as many rows, given as names / operators (whole equations) or dict / "
        "list-with-dict restricted to grid subsets (excluded rows join the secondary block); "
        "secondary block = randomly row- and column-permuted block-diagonal matrix with "
        "blocks 1-4 (default inverter), a single block, or dense (custom dense inverter); "
        "cond(A), cond(A_ss) <= 1e4 enforced; plus the single-phase flow model; non-trivial = "
        "both blocks non-empty and the secondary block has >= 2 dofs; distinct = case hash")
REACH = [
    ("numerics/ad/equation_system.py", "EquationSystem.assemble_schur_complement_system"),
    ("numerics/ad/equation_system.py", "EquationSystem.expand_schur_complement_solution"),
    ("numerics/ad/equation_system.py", "EquationSystem.default_schur_complement_inverter"),
    ("numerics/ad/equation_system.py", "EquationSystem._gridbased_equation_complement"),
    ("numerics/linalg/matrix_operations.py", "generate_permutation_to_block_diag_matrix"),
    ("numerics/linalg/matrix_operations.py", "invert_permuted_block_diag_matrix"),
]
REACH_LINES = [
    ("numerics/ad/equation_system.py", "A_prim.append(A_temp[idx_p])"),
    ("numerics/ad/equation_system.py", "A_prim.append(A_temp)"),
    ("numerics/ad/equation_system.py", "A_sec.append(A_temp[idx_excl_p])"),
    ("numerics/ad/equation_system.py", "A_sec.append(A_temp)"),
    ("numerics/linalg/matrix_operations.py", "block_sizes = np.array([num_rows], dtype=idx_dtype)"),
    ("numerics/linalg/matrix_operations.py", "block_sizes = np.array(block_sizes_, dtype=idx_dtype)"),
]
REQUIRED = {"splits_checked": 30, "default_inverter_splits": 15, "dense_inverter_splits": 5,
            "grid_restricted_primary_equations": 8, "whole_primary_equations": 8,
            "primary_variables_on_grid_subset": 5, "secondary_blocks_of_size_ge_2": 10,
            "model_splits": 2}
ASSUMPTIONS = [
    "the complementary block is square and invertible by construction; cond(A_full) and "
    "cond(A_ss) <= 1e4 (checked on the assembled matrices, otherwise the split is excluded)",
    "a fresh EquationSystem per split (the default inverter caches its permutation)",
    "the reduced system is solved densely (numpy) - the property is about the reduction and "
    "the expansion, not the linear solver",
]
LEVEL_TEXT = ("For generated admissible primary/secondary splits (by name, by grid-restricted "
              "equations, by atomic variables; permuted block-diagonal and dense secondary "
              "blocks) the expanded Schur solution equals the dense solution of the full "
              "linearised system to 1e-9 relative.")
TECHNIQUE = "dense full solve as reference; structured random Jacobians"
TOL = 1e-9
COND_MAX = 1e4


# ------------------------------------------------------------------------------ generator
def _rand_dof(rng, kind):
    if kind == "intf":
        return {"cells": int(rng.integers(1, 3))}
    r = rng.random()
    if r < 0.5:
        return {"cells": int(rng.integers(1, 3))}
    if r < 0.6:
        return {"faces": 1}
    if r < 0.7:
        return {"nodes": 1}
    return {"cells": int(rng.integers(0, 2)), "faces": int(rng.integers(0, 2)),
            "nodes": int(rng.integers(0, 2))}


def _small_mdg(rng):
    for _ in range(4):
        r = rng.random()
        if r < 0.8:
            rec = gm.random_2d(rng, "cartesian", max_fracs=3)
            if rec["domain"][0] * rec["domain"][1] > 6:
                rec["n"] = list(rec["domain"])
        elif r < 0.92:
            rec = gm.random_2d(rng, "simplex", max_fracs=2)
            rec["h"] = 1.0
        else:
            rec = {"dim": 3, "mesh": "cartesian", "domain": [2, 2, 2], "n": [2, 2, 2],
                   "fractures": [[[1, 0, 0], [1, 2, 0], [1, 2, 2], [1, 0, 2]]]}
        if rec["fractures"] or rng.random() < 0.15:
            break
    return rec


def _split(rng):
    return {"seed": int(rng.integers(1, 2**31)),
            "secondary": str(rng.choice(["blocks", "ones", "single", "dense"],
                                        p=[0.5, 0.15, 0.1, 0.25])),
            "p_primary": float(rng.choice([0.3, 0.5, 0.7])),
            "whole": bool(rng.random() < 0.4)}


def generate(rng, tier, i):
    if tier == "thorough" and rng.random() < 0.004:
        return {"layer": "model", "fracs": [[0], [0, 1]][int(rng.integers(0, 2))],
                "seed": int(rng.integers(1, 2**31))}
    nv = int(rng.integers(2, 5))
    spec = {"vars": [], "eqs": []}
    for k in range(nv):
        kind = "intf" if (rng.random() < 0.3 and k > 0) else "sd"
        d = _rand_dof(rng, kind)
        sel, p = int(rng.integers(1, 2**31)), float(rng.choice([0.5, 0.8, 1.0]))
        spec["vars"].append({"name": f"u{k}", "kind": kind, "sel": sel, "p": p, "dof": d})
        spec["eqs"].append({"name": f"e{k}", "kind": kind, "sel": sel, "p": p, "per": d})
    return {"layer": "synthetic", "mdg": _small_mdg(rng), "spec": spec,
            "seed": int(rng.integers(1, 2**31)), "splits": [_split(rng), _split(rng)]}


def floor(tier):
    X = gm.floor_recipes(dims=(2,), meshes=("cartesian",))
    spec = {"vars": [], "eqs": []}
    for k, (kind, d, p) in enumerate([("sd", {"cells": 1}, 1.0), ("intf", {"cells": 1}, 1.0),
                                      ("sd", {"cells": 1, "faces": 1}, 0.5)]):
        spec["vars"].append({"name": f"u{k}", "kind": kind, "sel": 3 + k, "p": p, "dof": d})
        spec["eqs"].append({"name": f"e{k}", "kind": kind, "sel": 3 + k, "p": p, "per": d})
    out = []
    for k, rec in enumerate([X[1], X[2], X[3]]):
        out.append({"layer": "synthetic", "mdg": rec, "spec": spec, "seed": 71 + k, "splits": [
            {"seed": 1 + k, "secondary": "blocks", "p_primary": 0.5, "whole": True},
            {"seed": 11 + k, "secondary": "blocks", "p_primary": 0.5, "whole": False},
            {"seed": 21 + k, "secondary": "dense", "p_primary": 0.3, "whole": False},
            {"seed": 31 + k, "secondary": "single", "p_primary": 0.7, "whole": True},
            {"seed": 41 + k, "secondary": "ones", "p_primary": 0.5, "whole": bool(k % 2)}]})
    out.append({"layer": "model", "fracs": [0, 1], "seed": 5})
    return out


# ----------------------------------------------------------------------------- the oracle
def dense_inverter(A):
    return sps.csr_matrix(np.linalg.inv(A.toarray()))


def _decide(es, prim_eqs, prim_vars, inverter, A_full, b_full, cols_p, mon, detail):
    """Run the real reduction + expansion and compare with the dense full solve."""
    x_full = np.linalg.solve(A_full, b_full)
    S, rhs = es.assemble_schur_complement_system(prim_eqs, prim_vars, inverter=inverter)
    S = S.toarray() if sps.issparse(S) else np.asarray(S)
    rhs = np.asarray(rhs).ravel()
    if S.shape != (cols_p.size, cols_p.size) or rhs.shape != (cols_p.size,):
        mon.violation("schur-system-has-unexpected-shape",
                      dict(detail, got=list(S.shape), want=int(cols_p.size)))
        return
    x_p = np.linalg.solve(S, rhs)
    x = es.expand_schur_complement_solution(x_p)
    sc = max(float(np.max(np.abs(x_full))), 1e-12)
    # a second expansion from the same assembly (line search, several right-hand sides):
    # the stored secondary right-hand side must not have been consumed by the first one
    x_again = es.expand_schur_complement_solution(x_p.copy())
    mon.close("second_expansion_vs_full", x_again, x_full, TOL,
              "second-expansion-from-one-assembly-differs-from-full-solution", scale=sc,
              detail=detail)
    mon.count("second_expansions_checked")
    mon.close("reduced_solution_vs_full", x_p, x_full[cols_p], TOL,
              "reduced-solution-differs-from-primary-part-of-full-solution", scale=sc,
              detail=detail)
    mon.close("expanded_solution_vs_full", x, x_full, TOL,
              "expanded-schur-solution-differs-from-full-solution", scale=sc, detail=detail)
    res = A_full @ np.asarray(x, dtype=float).ravel() - b_full if np.shape(x) == x_full.shape else None
    if res is not None:
        mon.measure("full_residual_of_expanded_solution",
                    float(np.max(np.abs(res))) / max(1.0, float(np.max(np.abs(b_full)))))
    mon.count("splits_checked")
    # the same split assembled again on the same system (what every Newton iteration after
    # the first does; the default inverter then works from its cached permutation)
    for rep in (2, 3):
        S2, rhs2 = es.assemble_schur_complement_system(prim_eqs, prim_vars, inverter=inverter)
        S2 = S2.toarray() if sps.issparse(S2) else np.asarray(S2)
        x_p2 = np.linalg.solve(S2, np.asarray(rhs2).ravel())
        x2 = es.expand_schur_complement_solution(x_p2)
        mon.close("repeated_assembly_solution_vs_full", x2, x_full, TOL,
                  "repeated-assembly:expanded-solution-differs-from-full-solution", scale=sc,
                  detail=dict(detail, assembly=rep))
        mon.count("repeated_assemblies_checked")
    # linearisation at an explicitly given state that differs from the stored iterate (a
    # line-search trial state): every block of the reduced system must be taken there
    x_st = np.asarray(es.get_variable_values(iterate_index=0), dtype=float)
    x1 = x_st + 0.05 * np.cos(np.arange(x_st.size) * 1.7 + 0.3)
    A1, b1 = es.assemble(state=x1)
    A1 = A1.toarray()
    if np.linalg.cond(A1) <= COND_MAX:
        xf1 = np.linalg.solve(A1, b1)
        S3, rhs3 = es.assemble_schur_complement_system(prim_eqs, prim_vars, inverter=inverter,
                                                       state=x1)
        S3 = S3.toarray() if sps.issparse(S3) else np.asarray(S3)
        x3 = es.expand_schur_complement_solution(np.linalg.solve(S3, np.asarray(rhs3).ravel()))
        mon.close("explicit_state_solution_vs_full", x3, xf1, TOL,
                  "explicit-state:expanded-solution-differs-from-full-solution",
                  scale=max(float(np.max(np.abs(xf1))), 1e-12), detail=detail)
        mon.count("explicit_state_assemblies_checked")
    else:
        mon.excluded("cond(A) above 1e4 at the explicit trial state")


def _structured_J(rng, n, rows_p, rows_s, cols_p, cols_s, secondary):
    J = np.zeros((n, n))
    ns, npr = rows_s.size, rows_p.size
    # secondary block: permuted block diagonal / single block / dense
    if secondary == "blocks":
        sizes = []
        while sum(sizes) < ns:
            sizes.append(int(min(rng.integers(1, 5), ns - sum(sizes))))
    elif secondary == "ones":
        # permuted diagonal: every block has size 1, rows and columns permuted differently
        sizes = [1] * ns
    else:
        sizes = [ns]
    B = np.zeros((ns, ns))
    a = 0
    for s in sizes:
        blk = np.diag(rng.choice([-1.0, 1.0], s) * rng.uniform(1.0, 2.0, s))
        off = rng.uniform(-1, 1, (s, s)) * (0.6 / max(1, s))
        off[off == 0] = 0.1
        np.fill_diagonal(off, 0.0)
        B[a:a + s, a:a + s] = blk + off
        a += s
    pr, pc = rng.permutation(ns), rng.permutation(ns)
    J[np.ix_(rows_s[pr], cols_s[pc])] = B
    # primary block and couplings
    D = np.diag(rng.choice([-1.0, 1.0], npr) * rng.uniform(2.0, 3.0, npr))
    Opp = rng.uniform(-1, 1, (npr, npr)) * (rng.random((npr, npr)) < 0.3) * (0.5 / max(1, np.sqrt(npr)))
    np.fill_diagonal(Opp, 0.0)
    qr = rng.permutation(npr)
    J[np.ix_(rows_p[qr], cols_p)] = D + Opp
    dens = min(0.3, 4.0 / max(1, n))
    J[np.ix_(rows_p, cols_s)] = rng.uniform(-1, 1, (npr, ns)) * (rng.random((npr, ns)) < dens) * 0.3
    J[np.ix_(rows_s, cols_p)] = rng.uniform(-1, 1, (ns, npr)) * (rng.random((ns, npr)) < dens) * 0.3
    if rng.random() < 0.5:            # badly scaled rows / columns (structure is unchanged)
        J = (10.0 ** rng.uniform(-0.75, 0.75, n))[:, None] * J * (10.0 ** rng.uniform(-0.75, 0.75, n))[None, :]
    return J, sizes


def _synthetic(case, mon):
    mdg = gm.build(case["mdg"])
    res0 = cs.resolve(mdg, case["spec"])
    r0 = case["mdg"]
    mon.klass(f"{r0['dim']}d-{r0['mesh']}-{len(r0['fractures'])}frac")
    for si, sp in enumerate(case["splits"]):
        rng = np.random.default_rng([case["seed"], sp["seed"]])
        res = {"vars": list(res0["vars"]), "eqs": list(res0["eqs"])}
        order = rng.permutation(len(res["eqs"]))
        res["eqs"] = [res["eqs"][int(k)] for k in order]         # set order is random
        m, n = cs.sizes(mdg, res)
        assert m == n
        if n > 800:
            mon.excluded("system with more than 800 dofs (dense reference too slow)")
            continue
        # choose the primary (variable, grid) pairs; equation k mirrors variable k in size
        pairs = [(k, g) for k, v in enumerate(res0["vars"]) for g in v["grids"]]
        sz = {(k, id(g)): cs.block_size(g, res0["vars"][k]["dof"], res0["vars"][k]["kind"] == "intf")
              for k, g in pairs}
        if sp["whole"]:
            ks = [k for k in range(len(res0["vars"])) if rng.random() < sp["p_primary"]]
            if not ks:
                ks = [int(rng.integers(0, len(res0["vars"])))]
            if len(ks) == len(res0["vars"]):
                ks = ks[:-1]
            prim = [(k, g) for k, g in pairs if k in ks]
        else:
            prim = [pg for pg in pairs if rng.random() < sp["p_primary"]]
        n_p = sum(sz[(k, id(g))] for k, g in prim)
        if n_p == 0 or n_p == n:
            nonzero = [pg for pg in pairs if sz[(pg[0], id(pg[1]))] > 0]
            prim = [nonzero[int(rng.integers(0, len(nonzero)))]]
            n_p = sum(sz[(k, id(g))] for k, g in prim)
            if n_p == n:
                mon.excluded("system with a single non-empty block cannot be split")
                continue
        prim_set = {(k, id(g)) for k, g in prim}
        # a first, throw-away realisation gives the layout (rows / columns of the split)
        Z = cs.realize(mdg, res, np.zeros((n, n)), np.zeros(n), np.zeros(n))
        bl = Z.ref.blocks()
        ent = {(k, id(e.grid)): e for k, v in enumerate(res0["vars"])
               for e in Z.entries[v["name"]]}
        cols_p = np.sort(np.concatenate([np.arange(*bl[id(ent[key].var)]) for key in prim_set]
                                        + [np.zeros(0, dtype=int)])).astype(int)
        cols_s = np.setdiff1d(np.arange(n), cols_p)
        rows_p = np.concatenate([Z.block[f"e{k}"].rows([g]) for k, g in prim]).astype(int)
        rows_p = np.sort(rows_p)
        rows_s = np.setdiff1d(np.arange(n), rows_p)
        assert rows_p.size == cols_p.size
        J, sizes = _structured_J(rng, n, rows_p, rows_s, cols_p, cols_s, sp["secondary"])
        c = rng.uniform(-1, 1, n)
        x0 = rng.uniform(-1, 1, n)
        T = cs.realize(mdg, res, J, c, x0)
        es = T.es
        # primary variables / equations as arguments of the real call
        entries_p = [e for k, v in enumerate(res0["vars"]) for e in T.entries[v["name"]]
                     if (k, id(e.grid)) in prim_set]
        prim_vars, _ = express(es, T.ref, entries_p, rng, mon.count)
        by_eq = {}
        for k, g in prim:
            by_eq.setdefault(k, []).append(g)
        whole = all(len(gs) == len(res0["eqs"][k]["grids"]) for k, gs in by_eq.items())

        def ident(k):
            return T.ops[f"e{k}"] if rng.random() < 0.5 else f"e{k}"

        keys = list(by_eq)
        rng.shuffle(keys)
        if whole and rng.random() < 0.75:
            prim_eqs = [ident(k) for k in keys]
            eform = "whole-equations"
            mon.count("whole_primary_equations")
        elif rng.random() < 0.6:
            prim_eqs = {ident(k): [by_eq[k][int(j)] for j in rng.permutation(len(by_eq[k]))]
                        for k in keys}
            eform = "dict"
        else:
            prim_eqs = []
            for k in keys:
                if len(by_eq[k]) == len(res0["eqs"][k]["grids"]) and rng.random() < 0.5:
                    prim_eqs.append(ident(k))
                else:
                    prim_eqs.append({ident(k): list(by_eq[k])})
            eform = "list-with-dict"
        # an equation named as primary but restricted to NO grid is entirely secondary
        others = [k for k in range(len(res0["vars"])) if k not in by_eq]
        if others and eform != "whole-equations" and rng.random() < 0.25:
            k = others[int(rng.integers(0, len(others)))]
            if isinstance(prim_eqs, dict):
                prim_eqs[ident(k)] = []
            else:
                prim_eqs.append({ident(k): []})
            mon.count("primary_equation_restricted_to_no_grid")
        if not whole:
            mon.count("grid_restricted_primary_equations")
        if any(len(gs) < len(res0["vars"][k]["grids"]) for k, gs in by_eq.items()):
            mon.count("primary_variables_on_grid_subset")
        A_full, b_full = es.assemble()
        A_full = A_full.toarray()
        cA = np.linalg.cond(A_full)
        cSS = np.linalg.cond(A_full[np.ix_(rows_s, cols_s)])
        mon.measure("cond_full", cA)
        mon.measure("cond_secondary", cSS)
        if not (cA <= COND_MAX and cSS <= COND_MAX):
            mon.excluded("cond(A_full) or cond(A_ss) above 1e4")
            continue
        inverter = dense_inverter if sp["secondary"] == "dense" else None
        mon.count("dense_inverter_splits" if inverter else "default_inverter_splits")
        mon.count("secondary_" + sp["secondary"])
        if max(sizes) >= 2:
            mon.count("secondary_blocks_of_size_ge_2")
        mon.klass(f"eq:{eform}/sec:{sp['secondary']}")
        mon.measure("n_primary", cols_p.size)
        mon.measure("n_secondary", cols_s.size)
        mon.nontrivial(cols_p.size >= 1 and cols_s.size >= 2)
        detail = {"split": si, "eform": eform, "secondary": sp["secondary"], "n": n,
                  "n_primary": int(cols_p.size), "block_sizes": sizes[:12],
                  "primary": [(k, T.ref.pos(g)) for k, g in prim][:20],
                  "set_order": [b.name for b in T.blocks]}
        _decide(es, prim_eqs, prim_vars, inverter, A_full, b_full, cols_p, mon, detail)


def _model(case, mon):
    import porepy as pp
    from porepy.applications.md_grids.model_geometries import SquareDomainOrthogonalFractures
    from porepy.models.fluid_mass_balance import SinglePhaseFlow

    class M(SquareDomainOrthogonalFractures, SinglePhaseFlow):
        pass

    def fresh():
        model = M({"fracture_indices": list(case["fracs"]),
                   "meshing_arguments": {"cell_size": 0.5}, "times_to_export": []})
        model.prepare_simulation()
        es = model.equation_system
        rng = np.random.default_rng([case["seed"], 3])
        x = es.get_variable_values(iterate_index=0)
        es.set_variable_values(x + 0.1 * rng.uniform(-1, 1, x.size), iterate_index=0)
        return model, es

    mon.klass("layer:model")
    for kind in ("by-name/default", "by-name/dense", "by-grid/dense"):
        model, es = fresh()
        mdg = model.mdg
        A_full, b_full = es.assemble()
        A_full = A_full.toarray()
        sd_top = mdg.subdomains(dim=2)
        if kind.startswith("by-name"):
            prim_eqs = ["mass_balance_equation"]
            prim_vars = ["pressure"]
            cols_p = np.sort(es.dofs_of(["pressure"]))
        else:
            prim_eqs = {"mass_balance_equation": sd_top}
            prim_vars = [v for v in es.variables if v.name == "pressure" and v.domain in sd_top]
            cols_p = np.sort(es.dofs_of(prim_vars))
        cA = np.linalg.cond(A_full)
        mon.measure("cond_full_model", cA)
        if not cA <= 1e8:
            mon.excluded("model system ill-conditioned")
            continue
        inverter = None if kind.endswith("default") else dense_inverter
        mon.count("model_splits")
        mon.klass("model:" + kind)
        mon.nontrivial(True)
        _decide(es, prim_eqs, prim_vars, inverter, A_full, b_full, cols_p, mon,
                {"model": "SinglePhaseFlow", "split": kind})


def check(case, mon):
    if case["layer"] == "model":
        cwd = os.getcwd()
        tmp = tempfile.mkdtemp(prefix="c07_model_", dir="/tmp")
        os.chdir(tmp)
        try:
            _model(case, mon)
        finally:
            os.chdir(cwd)
            shutil.rmtree(tmp, ignore_errors=True)
    else:
        _synthetic(case, mon)


def warmup():
    """Compile the numba block inverter once, outside case timing."""
    import porepy as pp
    warm_grids()
    A = sps.csr_matrix(np.array([[2.0, 0, 0], [0, 1.0, 0.5], [0, 0.5, 1.0]]))
    r, c, s = pp.matrix_operations.generate_permutation_to_block_diag_matrix(A)
    pp.matrix_operations.invert_permuted_block_diag_matrix(A, r, c, s)
    from pvm.monitor import Monitor
    m = Monitor(PROP)
    m.begin_case(-1, {})
    try:                       # throw-away model set-up; decided later by the real cases
        check({"layer": "model", "fracs": [0], "seed": 1}, m)
    except Exception:
        pass
