"""C41 Interpolation tables are exact for multilinear functions.

Monitor: the real ``InterpolationTable`` / ``AdaptiveInterpolationTable`` are built for a
generated box, resolution and function; ``interpolate`` and ``gradient`` are called at
generated query points (interior, near a node, on a node, on the lower / upper boundary of
one or several axes) and every returned number is decided by a reference model: the
multilinear function and its partial derivatives evaluated in exact rational arithmetic
(``fractions.Fraction`` on the float inputs).  The adaptive table (same resolution and base
point) is compared with the standard table at every queried point, for repeated and
out-of-order query batches, in both the function-driven and the ``assign_values`` mode.
"""
from __future__ import annotations

import itertools
from fractions import Fraction

import numpy as np

PROP = "C41"
N = {"quick": 500, "thorough": 20000}
WORKERS = {"quick": 4, "thorough": 16}
TIMEOUT = {"quick": 600, "thorough": 3000}
RULE = ("seeded boxes in 1-4 parameters (widths 1e-3..1e3, offset from the origin at most two "
        "widths so that node round-off stays a factor 10 below the table's internal 1e-13 "
        "interval assertion), 2-7 nodes per axis, range dimension 1-3; function classes: "
        "multilinear with a random coefficient per subset of the parameters, affine, and a "
        "smooth non-multilinear function (only for the adaptive-vs-standard comparison); "
        "query point classes per coordinate: interior, 1e-7 h next to a node, on a node, "
        "on the lower bound, on the upper bound (separate class, see DESIGN section 3); "
        "points passed as (d, n) arrays and as single 1-D points; adaptive tables "
        "function-driven, assign_values-driven and with a shifted base point, queried in "
        "batches, repeated, permuted and point by point; non-trivial = at least 2 nodes "
        "per axis with at least one query point that is not a node; distinct = case hash")
REACH = [
    ("utils/interpolation_tables.py", "InterpolationTable.__init__"),
    ("utils/interpolation_tables.py", "InterpolationTable.interpolate"),
    ("utils/interpolation_tables.py", "InterpolationTable.gradient"),
    ("utils/interpolation_tables.py", "InterpolationTable._find_base_vertex"),
    ("utils/interpolation_tables.py", "AdaptiveInterpolationTable.interpolate"),
    ("utils/interpolation_tables.py", "AdaptiveInterpolationTable.gradient"),
    ("utils/interpolation_tables.py", "AdaptiveInterpolationTable._fill_values"),
    ("utils/interpolation_tables.py", "AdaptiveInterpolationTable.assign_values"),
    ("utils/interpolation_tables.py",
     "AdaptiveInterpolationTable.quadrature_points_from_coordinates"),
]
REACH_LINES = [
    ("utils/interpolation_tables.py", "values[:, inside_grid] += ("),
    ("utils/interpolation_tables.py", "values += weight * self._values[:, eval_ind]"),
    ("utils/interpolation_tables.py", "full_ind = np.hstack((full_ind, np.hstack(extra_ind)))"),
]
REQUIRED = {
    "tables_built": 20, "interpolate_points": 200, "gradient_points": 200,
    "interpolate_points:upper": 10, "interpolate_points:node": 10,
    "interpolate_points:lower": 10, "interpolate_points:interior": 50,
    "gradient_points:upper": 10, "gradient_points:node": 10,
    "adaptive_tables": 10, "adaptive_vs_standard_points": 100,
    "adaptive_repeat_queries": 10, "adaptive_assigned_tables": 3,
}
ASSUMPTIONS = [
    "the reference evaluates the multilinear function exactly (rational arithmetic on the "
    "float coefficients and coordinates); the tolerance 1e-11 is relative to "
    "sum_S |c_S| prod_{i in S} max|x_i| over the box (divided by the mesh size of the "
    "differentiated axis for gradients: cancellation in the difference quotient)",
    "vector-valued adaptive tables (dim > 1) are documented as untested and raise; the "
    "adaptive/standard agreement is checked for scalar tables",
    "for non-multilinear functions the two tables' gradients are compared only at points that "
    "are not within 1e-6 h of a node (the derivative of the interpolant jumps there)",
]
LEVEL_TEXT = ("Reference-model monitor: every interpolate/gradient return value of the "
              "standard and the adaptive table is compared with an exact rational evaluation "
              "of the generated multilinear function; adaptive and standard tables are "
              "compared point by point under repeated / permuted query histories.")
TECHNIQUE = "exact rational oracle for multilinear functions on generated boxes and query classes"
TOL = 1e-11

UPPER_MECH = "gradient:query-on-upper-boundary"

# ----------------------------------------------------------------------------- functions


def _subsets(d):
    return [s for r in range(d + 1) for s in itertools.combinations(range(d), r)]


class MultiLinear:
    """f_k(x) = sum_S c[k][S] prod_{i in S} x_i, S over all subsets of range(d)."""

    def __init__(self, d, coef):
        self.d = d
        self.subsets = _subsets(d)
        self.coef = np.asarray(coef, dtype=float)      # (dim, 2**d)
        self.dim = self.coef.shape[0]
        self._fc = [[Fraction(float(c)) for c in row] for row in self.coef]

    def __call__(self, *x):
        out = np.zeros(self.dim)
        for j, S in enumerate(self.subsets):
            p = 1.0
            for i in S:
                p = p * x[i]
            out += self.coef[:, j] * p
        return out if self.dim > 1 else out[0]

    def exact(self, x):
        """Exact values at the columns of x, rounded once to float: (dim, n)."""
        x = np.asarray(x, dtype=float)
        out = np.zeros((self.dim, x.shape[1]))
        for n in range(x.shape[1]):
            fx = [Fraction(float(v)) for v in x[:, n]]
            prods = []
            for S in self.subsets:
                p = Fraction(1)
                for i in S:
                    p *= fx[i]
                prods.append(p)
            for k in range(self.dim):
                out[k, n] = float(sum(c * p for c, p in zip(self._fc[k], prods)))
        return out

    def exact_grad(self, x, axis):
        x = np.asarray(x, dtype=float)
        out = np.zeros((self.dim, x.shape[1]))
        for n in range(x.shape[1]):
            fx = [Fraction(float(v)) for v in x[:, n]]
            prods = []
            for S in self.subsets:
                if axis not in S:
                    prods.append(Fraction(0))
                    continue
                p = Fraction(1)
                for i in S:
                    if i != axis:
                        p *= fx[i]
                prods.append(p)
            for k in range(self.dim):
                out[k, n] = float(sum(c * p for c, p in zip(self._fc[k], prods)))
        return out

    def scale(self, low, high):
        m = np.maximum(np.abs(low), np.abs(high))
        s = 0.0
        for j, S in enumerate(self.subsets):
            p = 1.0
            for i in S:
                p *= m[i]
            s += float(np.max(np.abs(self.coef[:, j]))) * p
        return max(s, 1e-300)


class Smooth:
    """Scalar non-multilinear analytic function (adaptive vs standard only)."""

    def __init__(self, d, par, low, high):
        self.d = d
        self.par = np.asarray(par, dtype=float)     # (3, d)
        self.w = np.maximum(np.asarray(high) - np.asarray(low), 1e-300)
        self.low = np.asarray(low, dtype=float)

    def __call__(self, *x):
        v = 0.0
        p = 1.0
        for i in range(self.d):
            t = (x[i] - self.low[i]) / self.w[i]
            v += self.par[0, i] * t * t
            p *= np.sin(self.par[1, i] * t + self.par[2, i])
        return v + p

    def scale(self, low, high):
        return float(np.sum(np.abs(self.par[0]))) * 4 + 1.0


# ----------------------------------------------------------------------------- generator

POINT_CLASSES = ["interior", "near", "node", "lower", "upper"]


def _nodes(low, high, npt):
    return np.linspace(low, high, npt)


def _coordinate(rng, low, high, npt, cls):
    nodes = _nodes(low, high, npt)
    h = (high - low) / (npt - 1)
    if cls == "interior":
        k = int(rng.integers(npt - 1))
        return float(nodes[k] + rng.uniform(0.01, 0.99) * (nodes[k + 1] - nodes[k]))
    if cls == "near":
        k = int(rng.integers(npt))
        sgn = 1.0 if k == 0 else (-1.0 if k == npt - 1 else float(rng.choice([-1.0, 1.0])))
        return float(nodes[k] + sgn * 1e-7 * h * rng.uniform(0.5, 2.0))
    if cls == "node":
        if npt > 2:
            return float(nodes[int(rng.integers(1, npt - 1))])
        return float(nodes[0])
    if cls == "lower":
        return float(low)
    if cls == "upper":
        return float(high)
    raise ValueError(cls)


def _points(rng, low, high, npt, n, force=None):
    d = len(low)
    pts = []
    for j in range(n):
        if force is not None and j < len(force):
            cl = force[j]
        else:
            u = rng.random()
            if u < 0.4:
                cl = ["interior"] * d
            elif u < 0.5:
                cl = ["node"] * d
            else:
                cl = [POINT_CLASSES[int(rng.choice(5, p=[0.4, 0.1, 0.2, 0.1, 0.2]))]
                      for _ in range(d)]
        pts.append([_coordinate(rng, low[i], high[i], int(npt[i]), cl[i]) for i in range(d)])
    return pts


def _box(rng, d, max_nodes=7, max_table=2500):
    while True:
        npt = rng.integers(2, max_nodes + 1, size=d)
        if int(np.prod(npt)) <= max_table:
            break
    width = 10.0 ** rng.uniform(-3, 3, size=d)
    if rng.random() < 0.3:
        width = np.round(width, 2) + 0.01
    low = width * rng.uniform(-2.0, 1.0, size=d)
    u = rng.random()
    if u < 0.25:      # integer-ish boxes: many exactly representable nodes
        width = rng.integers(1, 9, size=d).astype(float)
        low = rng.integers(-8, 5, size=d).astype(float)
        low = np.clip(low, -2 * width, width)
    elif u < 0.35:
        low = np.zeros(d)
    high = low + width
    return low.tolist(), high.tolist(), [int(v) for v in npt]


def _coef(rng, d, dim, ftype):
    subs = _subsets(d)
    c = rng.normal(size=(dim, len(subs))) * 10.0 ** rng.uniform(-2, 2, size=(dim, 1))
    if rng.random() < 0.3:
        c = np.round(c, 1)
    if ftype == "affine":
        for j, S in enumerate(subs):
            if len(S) > 1:
                c[:, j] = 0.0
    elif rng.random() < 0.3:
        # sparse multilinear: drop some terms
        c *= rng.random(c.shape) < 0.6
    return c.tolist()


def _case(rng, d=None, dim=None, ftype=None, adaptive=None, n_pts=None, force=None,
          single=None):
    d = int(rng.choice([1, 2, 3, 4], p=[0.25, 0.35, 0.25, 0.15])) if d is None else d
    ftype = str(rng.choice(["multilinear", "affine", "smooth"], p=[0.55, 0.3, 0.15])) \
        if ftype is None else ftype
    if adaptive is None:
        adaptive = str(rng.choice(["none", "function", "assigned", "shifted"],
                                  p=[0.35, 0.4, 0.15, 0.1]))
    if ftype == "smooth":
        dim = 1
        if adaptive in ("none", "shifted"):
            adaptive = "function"
    if dim is None:
        dim = int(rng.choice([1, 2, 3], p=[0.6, 0.2, 0.2]))
    low, high, npt = _box(rng, d)
    n_pts = int(rng.integers(3, 13)) if n_pts is None else n_pts
    pts = _points(rng, low, high, npt, n_pts, force)
    case = {"d": d, "dim": dim, "low": low, "high": high, "npt": npt, "ftype": ftype,
            "pts": pts, "adaptive": adaptive, "seed": int(rng.integers(1, 2**31)),
            "single": bool(rng.random() < 0.3) if single is None else single}
    if ftype == "smooth":
        case["par"] = np.vstack([rng.normal(size=d), rng.uniform(0.5, 3.0, size=d),
                                 rng.uniform(0, 3.0, size=d)]).tolist()
    else:
        case["coef"] = _coef(rng, d, dim, ftype)
    if adaptive == "shifted":
        w = (np.asarray(high) - np.asarray(low)) / (np.asarray(npt) - 1)
        case["base_shift"] = (rng.uniform(-1.5, 1.5, size=d) * w).tolist()
    return case


def floor(tier):
    rng = np.random.default_rng(4141)
    out = []
    # the documented example geometry: unit box, x = high on one / all axes
    out.append({"d": 1, "dim": 1, "low": [0.0], "high": [1.0], "npt": [3], "ftype": "affine",
                "coef": [[1.0, 2.0]], "pts": [[1.0], [0.0], [0.5], [0.25]],
                "adaptive": "function", "seed": 1, "single": True})
    out.append({"d": 2, "dim": 1, "low": [0.0, 0.0], "high": [1.0, 1.0], "npt": [3, 3],
                "ftype": "affine", "coef": [[1.0, 2.0, 3.0, 0.0]],
                "pts": [[1.0, 0.3], [0.3, 1.0], [1.0, 1.0], [0.5, 0.5], [0.0, 0.0],
                        [0.3, 0.7]],
                "adaptive": "function", "seed": 2, "single": True})
    for d in (1, 2, 3, 4):
        for ftype in ("multilinear", "affine"):
            force = [["upper"] * d, ["lower"] * d, ["node"] * d, ["interior"] * d,
                     ["near"] * d,
                     ["upper"] + ["interior"] * (d - 1), ["interior"] * (d - 1) + ["upper"],
                     ["node"] + ["interior"] * (d - 1), ["lower"] + ["upper"] * (d - 1)]
            out.append(_case(rng, d=d, dim=1 + (d % 3), ftype=ftype, adaptive="none",
                             n_pts=12, force=force, single=(d % 2 == 0)))
            out.append(_case(rng, d=d, dim=1, ftype=ftype, adaptive="function",
                             n_pts=12, force=force, single=(d % 2 == 1)))
    for d in (1, 2, 3):
        out.append(_case(rng, d=d, dim=1, ftype="multilinear", adaptive="assigned", n_pts=8))
        out.append(_case(rng, d=d, dim=1, ftype="multilinear", adaptive="shifted", n_pts=8))
        out.append(_case(rng, d=d, dim=1, ftype="smooth", adaptive="function", n_pts=10))
    # two-node axes (a single cell per axis): every node is a boundary node
    c = _case(rng, d=3, dim=2, ftype="multilinear", adaptive="none", n_pts=10)
    c["npt"] = [2, 2, 2]
    c["pts"] = _points(rng, c["low"], c["high"], c["npt"], 10,
                       [["upper"] * 3, ["lower"] * 3, ["upper", "lower", "interior"]])
    out.append(c)
    return out


def generate(rng, tier, i):
    return _case(rng)


# ----------------------------------------------------------------------------- oracle


def _classify(x, low, high, nodes, h):
    """Per-point class from the coordinates (so that replays do not depend on labels)."""
    d, n = x.shape
    upper = np.zeros(n, dtype=bool)
    lower = np.zeros(n, dtype=bool)
    node = np.zeros(n, dtype=bool)
    near = np.zeros(n, dtype=bool)
    for i in range(d):
        upper |= x[i] == high[i]
        lower |= x[i] == low[i]
        dist = np.min(np.abs(x[i][None, :] - nodes[i][:, None]), axis=0)
        node |= dist == 0.0
        near |= (dist > 0.0) & (dist < 1e-6 * h[i])
    label = np.where(upper, "upper", np.where(lower, "lower", np.where(
        node, "node", np.where(near, "near", "interior"))))
    return label, upper, node | near


def _call_gradient(table, x, axis):
    return np.asarray(table.gradient(x, axis))


def check(case, mon):
    from porepy.utils.interpolation_tables import (AdaptiveInterpolationTable,
                                                   InterpolationTable)
    d, dim = int(case["d"]), int(case["dim"])
    low = np.asarray(case["low"], dtype=float)
    high = np.asarray(case["high"], dtype=float)
    npt = np.asarray(case["npt"], dtype=int)
    ftype = case["ftype"]
    x = np.asarray(case["pts"], dtype=float).T.reshape(d, -1)
    n = x.shape[1]
    if ftype == "smooth":
        f = Smooth(d, case["par"], low, high)
    else:
        f = MultiLinear(d, case["coef"])
    fscale = f.scale(low, high)
    h = (high - low) / (npt - 1)
    nodes = [_nodes(low[i], high[i], int(npt[i])) for i in range(d)]
    label, is_upper, at_node = _classify(x, low, high, nodes, h)

    table = InterpolationTable(low.copy(), high.copy(), npt.copy(), f, dim=dim)
    mon.count("tables_built")
    mon.count(f"tables_built:d={d}")
    mon.count(f"tables_built:range_dim={dim}")
    mon.klass(f"{ftype}/adaptive={case['adaptive']}")
    mon.nontrivial(bool(np.any(~at_node)))
    exact = ftype != "smooth"

    # ------------------------------------------------------------ standard: interpolate
    got = np.asarray(table.interpolate(x.copy()))
    mon.count("interpolate_points", n)
    for lb in np.unique(label):
        mon.count(f"interpolate_points:{lb}", int(np.sum(label == lb)))
    if got.shape != (dim, n):
        mon.violation("interpolate:shape", {"got": list(got.shape), "want": [dim, n]})
        return
    std_vals = got
    if exact:
        want = f.exact(x)
        for lb in np.unique(label):
            m = label == lb
            mon.close(f"interpolate_{lb}", got[:, m], want[:, m], TOL,
                      f"interpolate:not-exact-for-{ftype}:{lb}-point", scale=fscale,
                      detail={"points": x[:, m].T.tolist()[:3]})
    if exact and n >= 2:
        # the SAME ndarray object, overwritten in place between two evaluations (a solver
        # reusing its state array): the second answer must belong to the new content
        # (both contents differ from the previous query, so neither call can be served
        # from something remembered for an equal array)
        xa, xb = x[:, ::-1], np.roll(x, 1, axis=1)
        buf = xa.copy()
        table.interpolate(buf)
        buf[:] = xb
        got2 = np.asarray(table.interpolate(buf))
        mon.count("interpolate_same_array_modified_in_place")
        mon.close("interpolate_inplace", got2, f.exact(xb), TOL,
                  "interpolate:stale-result-for-array-modified-in-place", scale=fscale)
        if d >= 1 and ftype == "affine":
            buf = xa.copy()
            table.gradient(buf, 0)
            buf[:] = xb
            mon.close("gradient_inplace", np.asarray(table.gradient(buf, 0)),
                      np.asarray(table.gradient(xb.copy(), 0)), TOL,
                      "gradient:stale-result-for-array-modified-in-place", scale=fscale)
    if case.get("single"):
        # a single point handed over as a 1-D array
        for j in range(min(n, 4)):
            g1 = np.asarray(table.interpolate(x[:, j].copy()))
            mon.count("interpolate_single_1d")
            mon.close("interpolate_single_1d", g1.reshape(dim), got[:, j], TOL,
                      "interpolate:1d-point-differs-from-column", scale=fscale)

    # ------------------------------------------------------------ standard: gradient
    std_grad = {}
    for axis in range(d):
        gsc = fscale / h[axis]
        res = np.full((dim, n), np.nan)
        ok = np.zeros(n, dtype=bool)
        reg = ~is_upper
        if np.any(reg):
            res[:, reg] = _call_gradient(table, x[:, reg].copy(), axis)
            ok[reg] = True
        for j in np.flatnonzero(is_upper):
            mon.count("gradient_upper_calls")
            try:
                res[:, [j]] = _call_gradient(table, x[:, [j]].copy(), axis)
                ok[j] = True
            except IndexError as e:
                mon.count("gradient_upper_indexerror")
                mon.violation(UPPER_MECH, {
                    "what": "IndexError", "msg": str(e)[:120], "point": x[:, j].tolist(),
                    "axis": axis, "upper_axes": np.flatnonzero(x[:, j] == high).tolist(),
                    "low": low.tolist(), "high": high.tolist(), "npt": npt.tolist()})
        mon.count("gradient_points", n)
        for lb in np.unique(label):
            mon.count(f"gradient_points:{lb}", int(np.sum(label == lb)))
        std_grad[axis] = (res, ok)
        if exact:
            want = f.exact_grad(x, axis)
            for lb in np.unique(label):
                m = (label == lb) & ok
                if not np.any(m):
                    continue
                mech = UPPER_MECH if lb == "upper" else \
                    f"gradient:not-exact-for-{ftype}:{lb}-point"
                mon.close(f"gradient_{lb}", res[:, m], want[:, m], TOL, mech, scale=gsc,
                          detail={"axis": axis, "points": x[:, m].T.tolist()[:3],
                                  "low": low.tolist(), "high": high.tolist(),
                                  "npt": npt.tolist()})
            if case.get("single"):
                for j in np.flatnonzero(~is_upper)[:3]:
                    g1 = _call_gradient(table, x[:, j].copy(), axis)
                    mon.count("gradient_single_1d")
                    mon.close("gradient_single_1d", g1.reshape(dim), res[:, j], TOL,
                              "gradient:1d-point-differs-from-column", scale=gsc)

    # ------------------------------------------------------------ adaptive table
    mode = case["adaptive"]
    if mode == "none" or dim != 1:
        if mode != "none":
            mon.excluded("vector-valued adaptive table (documented as untested)")
        return
    rng = np.random.default_rng(int(case["seed"]))
    base = low.copy()
    if mode == "shifted":
        base = low + np.asarray(case["base_shift"], dtype=float)
    fun = f if mode != "assigned" else None
    ad = AdaptiveInterpolationTable(h.copy(), base.copy(), fun, dim=1)
    mon.count("adaptive_tables")
    mon.count(f"adaptive_tables:{mode}")
    if mode == "assigned":
        mon.count("adaptive_assigned_tables")

    def feed(xq):
        """assign_values mode: the documented protocol before every query."""
        if mode != "assigned":
            return
        coord, ind = ad.quadrature_points_from_coordinates(xq.copy())
        if coord.shape[1]:
            vals = np.array([f(*coord[:, k]) for k in range(coord.shape[1])])
            ad.assign_values(vals, coord, ind)
            mon.count("adaptive_assigned_nodes", coord.shape[1])

    # query history: half of the points, all points (extends the table), the same batch
    # again, permuted, point by point, a sorted subset
    order = rng.permutation(n)
    history = [("first-half", np.sort(order[n // 2:])), ("batch", np.arange(n)),
               ("repeat", np.arange(n)), ("permuted", order)]
    history += [("single", np.array([j])) for j in order[: min(n, 4)]]
    history += [("subset", np.sort(order[: max(1, n // 2)]))]
    for kind, idx in history:
        xq = x[:, idx]
        feed(xq)
        nstored = ad._table._coords.shape[1]
        got = np.asarray(ad.interpolate(xq.copy()))
        mon.count(f"adaptive_queries:{kind}")
        if kind not in ("batch", "first-half"):
            mon.count("adaptive_repeat_queries")
            if ad._table._coords.shape[1] != nstored and kind in ("repeat", "permuted"):
                # observed only: a repeated query that stores further nodes is not a
                # violation of the statement (duplicates are asserted below)
                mon.count("adaptive_nodes_added_on_repeat")
        if got.shape != (1, idx.size):
            mon.violation("adaptive:interpolate-shape", {"got": list(got.shape)})
            continue
        if mode != "shifted":
            mon.count("adaptive_vs_standard_points", idx.size)
            mon.close("adaptive_vs_standard", got, std_vals[:, idx], TOL,
                      f"adaptive:differs-from-standard:{kind}-query", scale=fscale,
                      detail={"points": xq.T.tolist()[:3]})
        if exact:
            mon.close("adaptive_interpolate_exact", got, f.exact(xq), TOL,
                      f"adaptive:interpolate-not-exact-for-{ftype}", scale=fscale)
    # no duplicate nodes in the sparse storage
    co = ad._table._coords
    if np.unique(co, axis=1).shape[1] != co.shape[1]:
        mon.violation("adaptive:duplicate-nodes-stored", {"n": int(co.shape[1])})
    if ad._pt.shape[1] != co.shape[1]:
        mon.violation("adaptive:coordinates-and-indices-out-of-step",
                      {"pt": int(ad._pt.shape[1]), "coords": int(co.shape[1])})
    else:
        want_pt = base.reshape(-1, 1) + h.reshape(-1, 1) * co
        mon.close("adaptive_node_coordinates", ad._pt / h.reshape(-1, 1),
                  want_pt / h.reshape(-1, 1), 1e-9,
                  "adaptive:stored-coordinate-does-not-match-index", scale=1.0)

    # gradient: on the table used above and, in the function-driven modes, on a fresh
    # table whose first ever query is a gradient (nodes must be computed on demand)
    targets = [("used", ad)]
    if mode != "assigned":
        targets.append(("fresh", AdaptiveInterpolationTable(h.copy(), base.copy(), f, dim=1)))
    for which, tab in targets:
        for axis in range(d):
            gsc = fscale / h[axis]
            if tab is ad:
                feed(x)
            got = np.asarray(tab.gradient(x.copy(), axis))
            mon.count("adaptive_gradient_points", n)
            mon.count(f"adaptive_gradient_queries:{which}")
            if got.shape != (1, n):
                mon.violation("adaptive:gradient-shape", {"got": list(got.shape)})
                continue
            if exact:
                mon.close("adaptive_gradient_exact", got, f.exact_grad(x, axis), TOL,
                          f"adaptive:gradient-not-exact-for-{ftype}", scale=gsc,
                          detail={"axis": axis, "table": which})
            if mode != "shifted":
                res, ok = std_grad[axis]
                m = ok & ~is_upper
                if not exact:
                    m &= ~at_node
                if np.any(m):
                    mon.count("adaptive_vs_standard_gradient_points", int(np.sum(m)))
                    mon.close("adaptive_vs_standard_gradient", got[:, m], res[:, m], TOL,
                              "adaptive:gradient-differs-from-standard", scale=gsc,
                              detail={"axis": axis, "table": which})
