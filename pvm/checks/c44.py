"""C44 Geometric clipping keeps exactly the parts inside the domain.

Monitor: ``lines_by_polygon`` and ``polygons_by_polyhedron`` are called on generated integer
geometry; the returned pieces are decided by measures and membership computed in exact
rational arithmetic (``pvm.ref.c28_rational``), never by set differences of float geometry:

* lines: every piece lies on its parent (returned mapping), its end points and mid point are
  in the closed polygon, pieces of one parent are disjoint, their total length equals the
  exact length of segment n polygon (rational parameter intervals from the exact edge
  crossings; shapely's ``intersection.length`` is a second opinion), tags are inherited;
* polygons: piece vertices satisfy every half-space of the convex polyhedron, pieces are
  coplanar with their parent, total area per parent equals the area of the parent clipped by
  rational Sutherland-Hodgman, parents outside are dropped, parents inside are returned
  unchanged.
"""
from __future__ import annotations

import itertools
from fractions import Fraction as F

import numpy as np

from pvm.ref import c28_rational as R
from pvm.gen import c30_polygons as G   # hull, dented polygons, lattice planes

PROP = "C44"
N = {"quick": 500, "thorough": 6000}
WORKERS = {"quick": 4, "thorough": 16}
TIMEOUT = {"quick": 300, "thorough": 3000}
RULE = ("lines: 1-8 integer segments in [-6,6]^2 against a simple integer polygon in [-4,4]^2 "
        "(strict convex hulls and dented non-convex polygons, both orientations): inside, "
        "outside, crossing once / several times (non-convex), ending on the boundary, through "
        "vertices, along edges; polygons: 1-5 convex planar integer polygons in lattice planes "
        "against a convex polyhedron (integer boxes, prisms over convex polygons, tetrahedra / "
        "hulls of 4-6 lattice points without coplanar facets): inside, outside, straddling one "
        "or several faces, touching a face with a vertex or an edge. Excluded: subject "
        "polygons coplanar with a face of the polyhedron (documented FIXME of the code; the "
        "statement's 'inside' is ambiguous there). Every subject polygon is labelled by exact "
        "placement predicates (general position / polygon vertex in a face plane / polygon edge "
        "meets a polyhedron edge / polygon plane through a polyhedron vertex / inside touching "
        "the boundary in one vertex); 40 % of the cases are forced into general position. "
        "non-trivial = at least one input is cut "
        "(0 < kept measure < input measure); distinct = case hash")
REACH = [
    ("geometry/constrain_geometry.py", "lines_by_polygon"),
    ("geometry/constrain_geometry.py", "polygons_by_polyhedron"),
]
REACH_LINES = [
    ("geometry/constrain_geometry.py", "elif type(int_lines) is shapely_geometry.MultiLineString:"),
    ("geometry/constrain_geometry.py", "int_edges = np.empty((edges.shape[0], 0), dtype=int)"),
    ("geometry/constrain_geometry.py", "if inside.all():"),
    ("geometry/constrain_geometry.py", "elif np.all(np.logical_not(inside)):"),
    ("geometry/constrain_geometry.py", "constrained_polygons.append(unique_coords[:, inds])"),
]
REQUIRED = {
    "lines:segments": 300, "lines:cut": 50, "lines:inside": 20, "lines:outside": 20,
    "lines:multi-piece": 10, "lines:on-boundary-part": 5, "lines:nonconvex-polygon": 30,
    "polys:polygons": 200, "polys:cut": 50, "polys:inside": 20, "polys:outside": 20,
    "polys:box": 20, "polys:prism": 20, "polys:hull": 20,
    "polys:cut:general-position": 30, "polys:joint-calls": 20,
}
ASSUMPTIONS = [
    "integer coordinates; bands of 1e-9 (relative to the coordinate scale) for membership, length and area",
    "parts of a segment that run along the polygon boundary may be kept or dropped (the code documents that it drops them): total length must lie between the interior length and interior + boundary length",
    "convex subject polygons and convex polyhedra with convex, pairwise non-coplanar faces (documented assumptions of polygons_3d / point_in_polyhedron)",
]
LEVEL_TEXT = ("Clipping results on seeded integer geometry are decided by exact rational measures "
              "(segment parameter intervals, Sutherland-Hodgman areas) and membership tests, with "
              "shapely as a second opinion for lengths.")
TECHNIQUE = "reference-model monitor (exact rational clipping measures and membership)"
TOL = 1e-9


# ----------------------------------------------------------------------------- generators

def _lines_case(rng):
    nonconvex = bool(rng.random() < 0.55)
    poly = G._polygon2d(rng, nonconvex)
    n = int(rng.integers(1, 9))
    segs = []
    while len(segs) < n:
        r = rng.random()
        if r < 0.45:
            a, b = G._ipt(rng, 2, 6), G._ipt(rng, 2, 6)
        elif r < 0.6:       # from a polygon vertex
            a, b = poly[int(rng.integers(len(poly)))], G._ipt(rng, 2, 6)
        elif r < 0.7:       # along an edge line
            i = int(rng.integers(len(poly)))
            p, q = poly[i], poly[(i + 1) % len(poly)]
            d = R.sub(q, p)
            g = int(np.gcd(abs(d[0]), abs(d[1])))
            d = (d[0] // g, d[1] // g)
            a = R.add(p, R.mul(d, int(rng.integers(-2, g + 1))))
            b = R.add(p, R.mul(d, int(rng.integers(0, g + 3))))
        elif r < 0.85:      # long horizontal / vertical / diagonal lines (several crossings)
            k = int(rng.integers(-4, 5))
            a, b = [((-6, k), (6, k)), ((k, -6), (k, 6)), ((-6, k - 2), (6, k + 2)), ((k - 1, -6), (k + 1, 6))][int(rng.integers(4))]
        else:               # both ends inside (lattice points of the polygon)
            ins = [q for q in itertools.product(range(-4, 5), repeat=2) if R.point_in_polygon_2d(q, poly) >= 0]
            a, b = ins[int(rng.integers(len(ins)))], ins[int(rng.integers(len(ins)))]
        a, b = tuple(int(v) for v in a), tuple(int(v) for v in b)
        if a != b:
            segs.append((a, b))
    pts, edges = [], []
    for a, b in segs:
        pts += [list(a), list(b)]
        edges.append([len(pts) - 2, len(pts) - 1])
    case = {"kind": "lines", "poly": [list(p) for p in poly], "pts": pts, "edges": edges,
            "nonconvex": nonconvex}
    if rng.random() < 0.6:
        case["tags"] = [[100 + i for i in range(len(segs))]]
    return case


def _box_faces(lo, hi):
    x0, y0, z0 = lo
    x1, y1, z1 = hi
    return [
        [(x0, y0, z0), (x0, y1, z0), (x0, y1, z1), (x0, y0, z1)],
        [(x1, y0, z0), (x1, y1, z0), (x1, y1, z1), (x1, y0, z1)],
        [(x0, y0, z0), (x1, y0, z0), (x1, y0, z1), (x0, y0, z1)],
        [(x0, y1, z0), (x1, y1, z0), (x1, y1, z1), (x0, y1, z1)],
        [(x0, y0, z0), (x1, y0, z0), (x1, y1, z0), (x0, y1, z0)],
        [(x0, y0, z1), (x1, y0, z1), (x1, y1, z1), (x0, y1, z1)],
    ]


def _prism_faces(rng):
    base = G._polygon2d(rng, False)
    z0 = int(rng.integers(-4, 1))
    z1 = z0 + int(rng.integers(2, 6))
    ax = int(rng.integers(0, 3))

    def lift(q, z):
        p = [q[0], q[1]]
        p.insert(ax, z)
        return tuple(p)
    n = len(base)
    faces = [[lift(q, z0) for q in base], [lift(q, z1) for q in base]]
    for i in range(n):
        a, b = base[i], base[(i + 1) % n]
        faces.append([lift(a, z0), lift(b, z0), lift(b, z1), lift(a, z1)])
    return faces


def _hull_faces(rng):
    """Triangulated convex hull of 4-6 lattice points, no two facets coplanar, all points
    vertices (exact checks); falls back to a tetrahedron."""
    from scipy.spatial import ConvexHull
    for _ in range(60):
        k = int(rng.integers(4, 7))
        pts = list({G._ipt(rng, 3, 4) for _ in range(k)})
        if len(pts) < 4:
            continue
        try:
            h = ConvexHull(np.array(pts, dtype=float))
        except Exception:  # noqa: BLE001  (degenerate point set)
            continue
        if len(h.vertices) != len(pts):
            continue
        faces = [[pts[i] for i in s] for s in h.simplices]
        planes = []
        ok = True
        for f in faces:
            n = R.cross3(R.sub(f[1], f[0]), R.sub(f[2], f[0]))
            if R.is_zero(n):
                ok = False
                break
            # exact hull test: all points on one side
            s = [R.dot(R.sub(p, f[0]), n) for p in pts]
            if not (all(x <= 0 for x in s) or all(x >= 0 for x in s)):
                ok = False
                break
            if sum(1 for x in s if x == 0) != 3:      # a fourth coplanar point: coplanar facets
                ok = False
                break
            planes.append(n)
        if ok:
            return faces
    return [[(0, 0, 0), (4, 0, 0), (0, 4, 0)], [(0, 0, 0), (4, 0, 0), (0, 0, 4)],
            [(0, 0, 0), (0, 4, 0), (0, 0, 4)], [(4, 0, 0), (0, 4, 0), (0, 0, 4)]]


def _halfspaces(faces):
    """[(point, outward integer normal)] of a convex polyhedron given by its faces."""
    verts = sorted({tuple(v) for f in faces for v in f})
    c = tuple(F(sum(v[k] for v in verts), len(verts)) for k in range(3))
    hs = []
    for f in faces:
        n = R.polygon_normal(f)
        if R.dot(R.sub(c, f[0]), n) > 0:
            n = R.mul(n, -1)
        hs.append((tuple(f[0]), n))
    return hs


def _polys_case(rng):
    t = ["box", "prism", "hull"][int(rng.integers(3))]
    if t == "box":
        lo = G._ipt(rng, 3, 3)
        hi = tuple(int(a + rng.integers(2, 6)) for a in lo)
        faces = _box_faces(lo, hi)
    elif t == "prism":
        faces = _prism_faces(rng)
    else:
        faces = _hull_faces(rng)
    hs = _halfspaces(faces)
    verts = sorted({tuple(v) for f in faces for v in f})
    interior = [q for q in itertools.product(range(-5, 9), repeat=3)
                if all(R.dot(R.sub(q, a), m) < 0 for a, m in hs)]
    polys = []
    n = int(rng.integers(1, 6))
    tries = 0
    want_general = bool(rng.random() < 0.4)
    while len(polys) < n and tries < 200:
        tries += 1
        u, v = G._UV[int(rng.integers(len(G._UV)))]
        r = rng.random()
        if r < 0.35:
            # small polygon around an interior lattice point of the polyhedron
            p2 = G._hull([tuple(int(x) for x in rng.integers(-1, 2, size=2)) for _ in range(5)])
            if len(p2) < 3 or R.polygon_area2_2d(p2) == 0:
                continue
            if not interior:
                continue
            o = interior[int(rng.integers(len(interior)))]
        elif r < 0.7:
            p2 = G._polygon2d(rng, False)
            o = G._ipt(rng, 3, 3)
        else:       # anchor a polygon vertex on a polyhedron vertex (touching / straddling)
            p2 = G._polygon2d(rng, False)
            w = verts[int(rng.integers(len(verts)))]
            o = R.sub(w, G._embed((0, 0, 0), u, v, p2[0]))
        p3 = [G._embed(o, u, v, q) for q in p2]
        if _coplanar_with_face(p3, hs):
            continue
        if want_general and tries < 150 and _degeneracy(p3, faces, hs) != "general-position":
            continue
        polys.append([list(q) for q in p3])
    if not polys:
        polys = [[[0, 0, 0], [1, 0, 0], [0, 1, 1]]]
    return {"kind": "polys", "type": t, "faces": [[list(v) for v in f] for f in faces],
            "polygons": polys}


def _coplanar_with_face(p3, hs) -> bool:
    n = R.polygon_normal(p3)
    for q, m in hs:
        if R.is_zero(R.cross3(n, m)) and R.dot(R.sub(p3[0], q), m) == 0:
            return True
    return False


def _poly_edges(faces):
    E = set()
    for f in faces:
        for i in range(len(f)):
            a, b = tuple(f[i]), tuple(f[(i + 1) % len(f)])
            E.add((min(a, b), max(a, b)))
    return sorted(E)


def _degeneracy(p, faces, hs):
    """Mechanism predicates on the input (exact): how the subject polygon is placed relative
    to the polyhedron.  Returns a label, "general-position" if none applies."""
    vals = [max(R.dot(R.sub(v, q), n) for q, n in hs) for v in p]
    nb = sum(1 for x in vals if x == 0)
    if all(x <= 0 for x in vals) and any(x < 0 for x in vals) and nb == 1:
        return "inside-polygon-touching-boundary-in-one-vertex"
    planes = [[R.dot(R.sub(v, q), n) for q, n in hs] for v in p]
    if any(max(pl) > 0 and any(x == 0 for x in pl) for pl in planes):
        # a vertex outside the polyhedron that lies in the (extended) plane of a face
        return "degenerate-contact:outside-polygon-vertex-in-a-face-plane"
    if any(max(pl) == 0 and sum(1 for x in pl if x == 0) >= 2 for pl in planes):
        return "degenerate-contact:polygon-vertex-on-polyhedron-edge-or-vertex"
    if any(max(pl) == 0 for pl in planes):
        return "degenerate-contact:polygon-vertex-inside-a-face"
    edges = _poly_edges(faces)
    for i in range(len(p)):
        a, b = p[i], p[(i + 1) % len(p)]
        if any(R.seg_intersection(a, b, c, d)[0] != "none" for c, d in edges):
            return "degenerate-contact:polygon-edge-meets-polyhedron-edge"
    nrm = R.polygon_normal(p)
    verts = {tuple(v) for f in faces for v in f}
    if any(R.dot(R.sub(w, p[0]), nrm) == 0 for w in verts):
        return "degenerate-contact:polygon-plane-through-polyhedron-vertex"
    return "general-position"


def generate(rng, tier, i):
    return _lines_case(rng) if i % 2 == 0 else _polys_case(rng)


def floor(tier):
    out = []
    sq = [[0, 0], [4, 0], [4, 4], [0, 4]]
    out.append({"kind": "lines", "poly": sq, "nonconvex": False, "tags": [[7, 8, 9, 10, 11, 12]],
                "pts": [[1, 1], [3, 3], [-2, 2], [6, 2], [2, 2], [2, 6], [5, 5], [6, 6], [0, 0], [4, 4], [-1, 1], [1, -1]],
                "edges": [[0, 1], [2, 3], [4, 5], [6, 7], [8, 9], [10, 11]]})
    # nothing kept at all (empty return path)
    out.append({"kind": "lines", "poly": sq, "nonconvex": False,
                "pts": [[5, 5], [6, 6], [-3, 0], [-1, 4]], "edges": [[0, 1], [2, 3]]})
    # U-shape: a horizontal line is cut in two pieces, one along the inner boundary
    U = [[0, 0], [6, 0], [6, 4], [4, 4], [4, 2], [2, 2], [2, 4], [0, 4]]
    U = [[x - 3, y - 2] for x, y in U]
    out.append({"kind": "lines", "poly": U, "nonconvex": True, "tags": [[1, 2, 3, 4, 5]],
                "pts": [[-6, 1], [6, 1], [-6, -1], [6, -1], [-6, 0], [6, 0], [-2, -2], [-2, 2], [-1, 1], [1, 1]],
                "edges": [[0, 1], [2, 3], [4, 5], [6, 7], [8, 9]]})
    # along the outer boundary, through a reflex vertex, ending on the boundary
    out.append({"kind": "lines", "poly": U, "nonconvex": True,
                "pts": [[-3, -2], [3, -2], [-3, -1], [1, 3], [0, -2], [0, 0], [-4, -2], [0, -2]],
                "edges": [[0, 1], [2, 3], [4, 5], [6, 7]]})
    # comb: a horizontal segment is cut into three inside pieces and in addition touches
    # the tip of a spike between two teeth in an isolated point (shapely returns a
    # GeometryCollection of several lines and a point)
    comb = [[0, 0], [16, 0], [16, 8], [12, 8], [12, 4], [10, 4], [10, 8], [6, 8], [6, 4],
            [5, 6], [4, 4], [4, 8], [0, 8]]
    out.append({"kind": "lines", "poly": comb, "nonconvex": True, "tags": [[3, 4, 5, 6]],
                "pts": [[-2, 6], [18, 6], [18, 6], [-2, 6], [1, 6], [15, 6], [-2, 7], [18, 7]],
                "edges": [[0, 1], [2, 3], [4, 5], [6, 7]]})
    comb2 = [[x - 8, 4 - y] for x, y in comb][::-1]     # mirrored, shifted, still ccw
    out.append({"kind": "lines", "poly": comb2, "nonconvex": True,
                "pts": [[-10, -2], [10, -2], [-7, -2], [7, -2], [-10, -3], [10, -3]],
                "edges": [[0, 1], [2, 3], [4, 5]]})
    box = _box_faces((0, 0, 0), (4, 4, 4))
    B = [[list(v) for v in f] for f in box]
    out.append({"kind": "polys", "type": "box", "faces": B, "polygons": [
        [[1, 2, 1], [3, 2, 1], [3, 2, 3], [1, 2, 3]],            # inside
        [[5, 2, 1], [7, 2, 1], [7, 2, 3], [5, 2, 3]],            # outside
        [[-1, 2, -1], [6, 2, -1], [6, 2, 6], [-1, 2, 6]],        # cuts all four side faces
        [[2, 2, 1], [6, 2, 1], [6, 2, 3], [2, 2, 3]],            # straddles one face
        [[1, 1, 1], [3, 1, 5], [1, 3, 5]],                       # oblique triangle through the top
    ]})
    out.append({"kind": "polys", "type": "box", "faces": B, "polygons": [
        [[0, 1, 1], [2, 1, 1], [2, 3, 2], [0, 3, 2]],            # inside, one edge on the west face
        [[4, 2, 2], [6, 1, 2], [6, 3, 2]],                       # outside, touching the east face in a vertex
        [[2, 2, 2], [6, 6, 2], [2, 6, 2]],                       # through the corner edge region
    ]})
    tet = [[[0, 0, 0], [4, 0, 0], [0, 4, 0]], [[0, 0, 0], [4, 0, 0], [0, 0, 4]],
           [[0, 0, 0], [0, 4, 0], [0, 0, 4]], [[4, 0, 0], [0, 4, 0], [0, 0, 4]]]
    out.append({"kind": "polys", "type": "hull", "faces": tet, "polygons": [
        [[1, 1, -1], [1, 1, 3], [3, -1, 1]],
        [[-1, -1, 1], [5, -1, 1], [5, 5, 1], [-1, 5, 1]],
        [[3, 3, 3], [5, 3, 3], [3, 5, 3]],
    ]})
    pr = _prism_from_base([(0, 0), (4, 0), (5, 2), (2, 5), (-1, 2)], -1, 3)
    out.append({"kind": "polys", "type": "prism", "faces": pr, "polygons": [
        [[-3, 1, 0], [7, 1, 0], [7, 1, 2], [-3, 1, 2]],
        [[1, 1, 0], [3, 1, 0], [2, 3, 2]],
        [[2, -2, 1], [2, 7, 1], [3, 7, 5], [3, -2, 5]],
    ]})
    return out


def _prism_from_base(base, z0, z1):
    n = len(base)
    faces = [[[q[0], q[1], z0] for q in base], [[q[0], q[1], z1] for q in base]]
    for i in range(n):
        a, b = base[i], base[(i + 1) % n]
        faces.append([[a[0], a[1], z0], [b[0], b[1], z0], [b[0], b[1], z1], [a[0], a[1], z1]])
    return faces


def warmup():
    import porepy  # noqa: F401


# ----------------------------------------------------------------------------- check

def check(case, mon):
    if case["kind"] == "lines":
        _check_lines(case, mon)
    else:
        _check_polys(case, mon)


def _exf(p):
    return tuple(F(float(x)) for x in p)


def _in_closed_polygon(q, poly, band) -> bool:
    qe = _exf(q)
    if R.point_in_polygon_2d(qe, poly) >= 0:
        return True
    return R.sqrt_f(R.min_dist2_point_polygon_boundary(qe, poly)) <= band


def _check_lines(case, mon):
    from porepy.geometry.constrain_geometry import lines_by_polygon
    import shapely.geometry as sg

    poly = [tuple(int(v) for v in p) for p in case["poly"]]
    P = [tuple(int(v) for v in p) for p in case["pts"]]
    Ed = [tuple(int(v) for v in e) for e in case["edges"]]
    tags = np.asarray(case["tags"], dtype=int).reshape((len(case["tags"]), -1)) if case.get("tags") \
        else np.zeros((0, len(Ed)), dtype=int)
    sc = max(1.0, max(abs(x) for p in poly + P for x in p))
    band = TOL * sc
    mon.klass("lines/" + ("nonconvex" if case.get("nonconvex") else "convex"))
    if case.get("nonconvex"):
        mon.count("lines:nonconvex-polygon")
    poly_a = np.array(poly, dtype=float).T
    pts_a = np.array(P, dtype=float).T
    edges_a = np.vstack((np.array(Ed, dtype=int).T, tags))
    keep = [poly_a.copy(), pts_a.copy(), edges_a.copy()]
    new_pts, new_edges, kept = lines_by_polygon(poly_a, pts_a, edges_a)
    mon.count("lines:calls")
    if not all(np.array_equal(a, b) for a, b in zip((poly_a, pts_a, edges_a), keep)):
        mon.violation("lines_by_polygon:input-mutated", {})
    new_pts, new_edges, kept = np.asarray(new_pts, dtype=float), np.asarray(new_edges), np.asarray(kept)
    m = kept.size
    if new_edges.ndim != 2 or new_edges.shape[1] != m or new_edges.shape[0] != edges_a.shape[0] \
            or new_pts.ndim != 2 or new_pts.shape[0] != 2:
        mon.violation("lines_by_polygon:malformed-return",
                      {"pts": list(new_pts.shape), "edges": list(new_edges.shape), "kept": list(kept.shape)})
        return
    if m and (kept.min() < 0 or kept.max() >= len(Ed) or new_edges[:2].min() < 0
              or new_edges[:2].max() >= new_pts.shape[1]):
        mon.violation("lines_by_polygon:index-out-of-range", {})
        return
    spoly = sg.Polygon(poly)
    cut_any = False
    for k, (ia, ib) in enumerate(Ed):
        a, b = P[ia], P[ib]
        mon.count("lines:segments")
        # exact reference: elementary intervals between all crossing parameters
        ts = {F(0), F(1)}
        for i in range(len(poly)):
            r = R.seg_intersection(a, b, poly[i], poly[(i + 1) % len(poly)])
            for Q in r[1:]:
                ts.add(R.param_on_segment(Q, a, b)[0])
        ts = sorted(ts)
        length = R.sqrt_f(R.segment_length2(a, b))
        t_open = F(0)
        t_bnd = F(0)
        for t0, t1 in zip(ts[:-1], ts[1:]):
            w = R.point_in_polygon_2d(R.lerp(_exf(a), _exf(b), (t0 + t1) / 2), poly)
            if w == 1:
                t_open += t1 - t0
            elif w == 0:
                t_bnd += t1 - t0
        L_open, L_bnd = float(t_open) * length, float(t_bnd) * length
        # mechanism predicate on the input: the exact intersection has a part of positive
        # length AND an isolated point (the segment also touches the polygon boundary in a
        # point whose neighbourhood on the segment is outside)
        st = [R.point_in_polygon_2d(R.lerp(_exf(a), _exf(b), (t0 + t1) / 2), poly)
              for t0, t1 in zip(ts[:-1], ts[1:])]
        isolated = False
        for i, t in enumerate(ts):
            if R.point_in_polygon_2d(R.lerp(_exf(a), _exf(b), t), poly) < 0:
                continue
            left = st[i - 1] if i > 0 else -1
            right = st[i] if i < len(st) else -1
            if left < 0 and right < 0:
                isolated = True
        if isolated:
            mon.count("lines:isolated-touching-point")
            if t_open + t_bnd > 0:
                mon.count("lines:isolated-touching-point-and-positive-part")
        n_int = len(R.segment_polygon_intervals(a, b, poly))
        # second opinion on the reference
        L_sh = spoly.intersection(sg.LineString([a, b])).length
        if abs(L_sh - (L_open + L_bnd)) > 1e-9 * sc:
            mon.inconclusive(f"references disagree on the clipped length: shapely {L_sh} exact {L_open + L_bnd}")
            continue
        cls = "outside" if t_open + t_bnd == 0 else "inside" if t_open + t_bnd == 1 else "cut"
        mon.count("lines:" + cls)
        cut_any = cut_any or cls == "cut"
        if t_bnd > 0:
            mon.count("lines:on-boundary-part")
        if n_int > 1:
            mon.count("lines:multi-piece")
        cols = np.flatnonzero(kept == k)
        det = {"polygon": [list(p) for p in poly], "segment": [list(a), list(b)], "class": cls,
               "exact_interior_length": L_open, "exact_boundary_length": L_bnd}
        A, B = np.array(a, dtype=float), np.array(b, dtype=float)
        d = B - A
        ivs = []
        total = 0.0
        bad = False
        for j in cols:
            p0, p1 = new_pts[:, new_edges[0, j]], new_pts[:, new_edges[1, j]]
            mon.count("lines:pieces")
            # on the parent
            off = max(R.sqrt_f(R.point_segment_dist2(_exf(p0), a, b)[0]),
                      R.sqrt_f(R.point_segment_dist2(_exf(p1), a, b)[0]))
            mon.measure("lines:piece-off-parent", off / sc)
            if off > band:
                mon.violation("lines_by_polygon:piece-not-on-its-parent", dict(det, piece=[p0.tolist(), p1.tolist()]))
                bad = True
            # end points and mid point in the closed polygon
            for q in (p0, p1, 0.5 * (p0 + p1)):
                if not _in_closed_polygon(q, poly, band):
                    mon.violation("lines_by_polygon:piece-outside-polygon",
                                  dict(det, piece=[p0.tolist(), p1.tolist()], point=q.tolist()))
                    bad = True
                    break
            t0, t1 = sorted((float(np.dot(p0 - A, d) / np.dot(d, d)), float(np.dot(p1 - A, d) / np.dot(d, d))))
            ivs.append((t0, t1))
            total += float(np.linalg.norm(p1 - p0))
            if new_edges.shape[0] > 2 and not np.array_equal(new_edges[2:, j], edges_a[2:, k]):
                mon.violation("lines_by_polygon:tags-not-inherited",
                              dict(det, got=new_edges[2:, j].tolist(), want=edges_a[2:, k].tolist()))
        ivs.sort()
        for (x0, x1), (y0, y1) in zip(ivs[:-1], ivs[1:]):
            if y0 < x1 - TOL:
                mon.violation("lines_by_polygon:pieces-of-one-parent-overlap", dict(det, intervals=ivs))
                bad = True
        if bad:
            continue
        lo, hi = L_open - band, L_open + L_bnd + band
        mon.measure("lines:length-residual", max(0.0, lo - total + band, total - hi + band) / sc
                    if not (lo <= total <= hi) else abs(total - L_open) / sc if L_bnd == 0 else 0.0)
        if total < lo and isolated:
            mon.violation("lines_by_polygon:segment-also-touches-polygon-in-isolated-point",
                          dict(det, got_length=total, pieces=len(cols)))
        elif total < lo:
            mon.violation("lines_by_polygon:inside-part-missing:" + cls + ("+boundary-part" if t_bnd > 0 else ""),
                          dict(det, got_length=total, pieces=len(cols)))
        elif total > hi:
            mon.violation("lines_by_polygon:too-much-kept:" + cls, dict(det, got_length=total, pieces=len(cols)))
    mon.nontrivial(cut_any)


def _area_float(V):
    """Area of a planar polygon given as (3, n) float array (Newell)."""
    s = np.zeros(3)
    for i in range(1, V.shape[1] - 1):
        s += np.cross(V[:, i] - V[:, 0], V[:, i + 1] - V[:, 0])
    return 0.5 * float(np.linalg.norm(s))


def _check_polys(case, mon):
    from porepy.geometry.constrain_geometry import polygons_by_polyhedron

    faces = [[tuple(int(x) for x in v) for v in f] for f in case["faces"]]
    polys = [[tuple(int(x) for x in v) for v in p] for p in case["polygons"]]
    hs = _halfspaces(faces)
    sc = max(1.0, max(abs(x) for f in faces + polys for v in f for x in v))
    band = TOL * sc
    mon.klass("polys/" + case.get("type", "?"))
    mon.count("polys:" + case.get("type", "?"))
    use = []
    for p in polys:
        if _coplanar_with_face(p, hs) or not R.polygon_is_planar(p) or not R.convex_polygon_is_convex(p):
            mon.excluded("subject polygon coplanar with a face of the polyhedron / not convex planar")
            continue
        use.append(p)
    if not use:
        return
    polys = use
    fa = [np.array(f, dtype=float).T for f in faces]
    pa = [np.array(p, dtype=float).T for p in polys]
    keep = [x.copy() for x in fa + pa]
    # one call per subject polygon (verdict per polygon), then the joint call (mapping)
    single = []
    for k, p in enumerate(polys):
        mon.count("polys:calls")
        try:
            o_k, i_k = polygons_by_polyhedron([pa[k]], [x for x in fa])
            i_k = np.asarray(i_k, dtype=int).ravel()
            if len(o_k) != i_k.size or np.any(i_k != 0):
                single.append(("malformed", None))
            else:
                single.append(("ok", [np.asarray(x, dtype=float) for x in o_k]))
        except Exception as exc:  # noqa: BLE001
            import traceback
            fr = [f for f in traceback.extract_tb(exc.__traceback__) if "/porepy/" in f.filename]
            if not fr:
                raise
            single.append((f"{type(exc).__name__}@{fr[-1].name}", None))
    if not all(np.array_equal(x, y) for x, y in zip(fa + pa, keep)):
        mon.violation("polygons_by_polyhedron:input-mutated", {})
    if all(st == "ok" for st, _ in single) and len(polys) > 1:
        mon.count("polys:joint-calls")
        out, inds = polygons_by_polyhedron([x for x in pa], [x for x in fa])
        inds = np.asarray(inds, dtype=int).ravel()
        same = len(out) == inds.size and all(
            sorted(np.round(np.asarray(out[j], dtype=float), 9).T.tolist() for j in np.flatnonzero(inds == k))
            == sorted(np.round(x, 9).T.tolist() for x in single[k][1]) for k in range(len(polys)))
        if not same:
            mon.violation("polygons_by_polyhedron:joint-call-differs-from-single-calls:wrong-parent-map",
                          {"inds": inds.tolist(), "n_polygons": len(polys)})
    cut_any = False
    for k, p in enumerate(polys):
        mon.count("polys:polygons")
        A_in = R.polygon_area_3d(p)
        clipped = R.clip_polygon_convex(p, hs)
        A_ex = R.polygon_area_3d(clipped) if len(clipped) >= 3 else 0.0
        vals = [max(R.dot(R.sub(v, q), n) for q, n in hs) for v in p]
        cls = "inside" if all(x <= 0 for x in vals) else "outside" if A_ex == 0 else "cut"
        strictly_inside = all(x < 0 for x in vals)
        touching = cls != "cut" and any(x == 0 for x in vals)
        mon.count("polys:" + cls)
        if touching:
            mon.count("polys:touching-boundary")
        cut_any = cut_any or cls == "cut"
        nrm = R.polygon_normal(p)
        nl = R.sqrt_f(R.dot(nrm, nrm))
        deg = _degeneracy(p, faces, hs)
        mon.count("polys:placement:" + deg)
        if cls == "cut":
            mon.count("polys:cut:" + deg)
        status, pieces = single[k]
        det = {"faces": [[list(v) for v in f] for f in faces], "polygon": [list(v) for v in p],
               "class": cls, "exact_area": A_ex, "input_area": A_in, "placement": deg}
        if status != "ok":
            mon.violation(f"polygons_by_polyhedron:{deg}", dict(det, symptom=status))
            continue
        det["pieces"] = [x.tolist() for x in pieces]
        total = 0.0
        bad = False
        for V in pieces:
            mon.count("polys:pieces")
            if V.ndim != 2 or V.shape[0] != 3 or V.shape[1] < 3:
                mon.violation(f"polygons_by_polyhedron:{deg}", dict(det, symptom="malformed piece"))
                bad = True
                continue
            # inside every half-space
            worst = max(float(np.max((V - np.array(q, dtype=float)[:, None]).T @ np.array([float(x) for x in n])
                                     / R.sqrt_f(R.dot(n, n)))) for q, n in hs)
            mon.measure("polys:vertex-outside-halfspace", max(worst, 0.0) / sc)
            if worst > band:
                mon.violation(f"polygons_by_polyhedron:{deg}",
                              dict(det, symptom="piece vertex outside the polyhedron", excess=worst))
                bad = True
            off = float(np.max(np.abs((V - np.array(p[0], dtype=float)[:, None]).T
                                      @ np.array([float(x) for x in nrm])))) / nl
            mon.measure("polys:piece-off-parent-plane", off / sc)
            if off > band:
                mon.violation(f"polygons_by_polyhedron:{deg}",
                              dict(det, symptom="piece not coplanar with its parent", offset=off))
                bad = True
            total += _area_float(V)
        if bad:
            continue
        res = abs(total - A_ex) / sc ** 2
        mon.measure("polys:area-residual", res)
        if res > TOL:
            if A_ex == 0:
                sym = "outside polygon not dropped"
            elif total == 0:
                sym = "inside part dropped"
            else:
                sym = "wrong area"
            mon.violation(f"polygons_by_polyhedron:{deg}", dict(det, symptom=sym, got_area=total))
            continue
        if strictly_inside:
            # returned unchanged
            ok = len(pieces) == 1 and pieces[0].shape == (3, len(p)) and \
                np.allclose(pieces[0], np.array(p, dtype=float).T, rtol=0, atol=band)
            mon.count("polys:inside-returned-unchanged" if ok else "polys:inside-returned-reordered")
            if not ok:
                same = len(pieces) == 1 and pieces[0].shape[1] == len(p) and all(
                    np.min(np.max(np.abs(pieces[0] - np.array(v, dtype=float)[:, None]), axis=0)) <= band for v in p)
                if not same:
                    mon.violation(f"polygons_by_polyhedron:{deg}", dict(det, symptom="inside polygon changed"))
    mon.nontrivial(cut_any)
