"""C30 Distance computations are exact.

Monitor: every distance kernel of ``porepy.geometry.distances`` is called on generated
configurations; each returned distance and closest point is recorded and decided by an
exact rational reference (``pvm.ref.c28_rational``): closed-form clamp for point-segment,
minimum over the closed-form candidates for segment-segment, projection + edge candidates
for the polygon kernels.  Float inputs are decided exactly as well: the reference works on
the exact rational value of the floats.  Returned closest points must lie on their object
and realise the distance.
"""
from __future__ import annotations

import itertools
import math
from fractions import Fraction as F

import numpy as np

from pvm.ref import c28_rational as R
from pvm.gen.c30_polygons import _ipt, _iseg, _hull, _polygon2d, _is_convex2, _UV, _embed  # noqa: F401

PROP = "C30"
N = {"quick": 2000, "thorough": 80000}
WORKERS = {"quick": 4, "thorough": 16}
TIMEOUT = {"quick": 300, "thorough": 3000}
RULE = ("seeded configurations per kernel: points_segments / point_pointset / pointset / "
        "segment_segment_set / segment_set on integer lattices in 2-D and 3-D (box [-4,4]) and "
        "on their images under a random similarity (floats; the oracle uses the exact rational "
        "value of the floats), with forced parallel / collinear / intersecting / touching / "
        "end-point classes; points_polygon / segments_polygon on planar integer polygons "
        "(convex hulls and dented non-convex simple polygons) embedded in lattice planes of "
        "random orientation, with points / segments in the plane, above the interior, piercing, "
        "touching. Excluded: zero-length segments, nearly-parallel non-parallel pairs "
        "(lattice construction keeps sin^2 >= 2e-5 or exactly 0). non-trivial = at least one "
        "positive distance and one projection strictly inside an object; distinct = case hash")
REACH = [
    ("geometry/distances.py", "segment_segment_set"),
    ("geometry/distances.py", "points_segments"),
    ("geometry/distances.py", "point_pointset"),
    ("geometry/distances.py", "pointset"),
    ("geometry/distances.py", "points_polygon"),
    ("geometry/distances.py", "segments_polygon"),
    ("geometry/distances.py", "segment_set"),
]
REACH_LINES = [
    ("geometry/distances.py", "if num_p < num_l:"),
    ("geometry/distances.py", "d[less, ei] = point_pointset(start[:, ei], p[:, less])"),
    ("geometry/distances.py", "d[pi, less] = point_pointset(p[:, pi], start[:, less])"),
    ("geometry/distances.py", "d[in_poly] = np.abs(p[2, in_poly])"),
    ("geometry/distances.py", "d_outside, p_outside = points_segments(orig_p[:, outside_poly], start, end)"),
    ("geometry/distances.py", "cp[:, intersects] = center + irot.dot(x0[:, intersects])"),
    ("geometry/distances.py", "if np.any(ds[min_seg] < md):"),
]
REQUIRED = {
    "events:points_segments": 500, "events:segment_segment_set": 500,
    "events:point_pointset": 200, "events:pointset": 200,
    "events:points_polygon": 300, "events:segments_polygon": 300, "calls:segment_set": 10,
    "segseg:parallel": 30, "segseg:collinear": 30, "segseg:intersecting": 30,
    "segseg:interior-critical": 15, "segseg:endpoint": 20,
    "ptseg:clamped": 100, "ptseg:interior": 100,
    "ptpoly:projection-inside": 50, "ptpoly:projection-outside": 50,
    "segpoly:zero": 30, "segpoly:positive": 50, "segpoly:in-plane": 20, "polygons:nonconvex": 20,
}
ASSUMPTIONS = [
    "closest points may be any minimiser (ties): asserted = lies on its object and realises the exact distance",
    "segments_polygon returns one 'closest point': accepted if it lies on the segment at the exact distance from the polygon, or on the polygon at the exact distance from the segment",
    "planar polygons are exact lattice polygons; in_poly (third return of points_polygon) is observed only",
]
LEVEL_TEXT = ("All distance kernels are run on seeded integer and float configurations with forced "
              "degenerate placements; distances and closest points are decided by exact rational "
              "closed forms.")
TECHNIQUE = "reference-model monitor (exact rational closed-form distances)"
TOL = 1e-9


# ----------------------------------------------------------------------------- geometry gen

def _similarity(rng, nd):
    """Random similarity x -> s Q x + t as plain lists (floats)."""
    A = rng.normal(size=(nd, nd))
    Q, _ = np.linalg.qr(A)
    s = float(rng.uniform(0.5, 2.0))
    t = rng.uniform(-3, 3, size=nd)
    return (s * Q).tolist(), t.tolist()


def _apply(M, t, p):
    return (np.asarray(M) @ np.asarray(p, dtype=float) + np.asarray(t)).tolist()


def _poly_case(rng, what):
    nonconvex = bool(rng.random() < 0.5)
    poly2 = _polygon2d(rng, nonconvex)
    u, v = _UV[int(rng.integers(len(_UV)))]
    o = _ipt(rng, 3, 2)
    poly3 = [_embed(o, u, v, q) for q in poly2]
    nrm = R.cross3(u, v)
    case = {"kind": what, "poly": [list(p) for p in poly3], "nonconvex": nonconvex}

    def plane_pt():
        return _embed(o, u, v, tuple(int(x) for x in rng.integers(-5, 6, size=2)))

    if what == "pt-poly":
        pts = []
        n = int(rng.integers(2, 9))
        for _ in range(n):
            r = rng.random()
            if r < 0.35:
                pts.append(_ipt(rng, 3, 7))
            elif r < 0.6:
                pts.append(plane_pt())
            elif r < 0.9:
                pts.append(R.add(plane_pt(), R.mul(nrm, int(rng.integers(-2, 3)))))
            else:
                pts.append(poly3[int(rng.integers(len(poly3)))])
        case["points"] = [list(p) for p in pts]
    else:
        segs = []
        n = int(rng.integers(1, 6))
        while len(segs) < n:
            r = rng.random()
            if r < 0.3:
                a, b = _ipt(rng, 3, 7), _ipt(rng, 3, 7)
            elif r < 0.55:
                a, b = plane_pt(), plane_pt()                      # in the plane
            elif r < 0.7:
                k = int(rng.integers(1, 3)) * int(rng.choice([-1, 1]))
                a, b = R.add(plane_pt(), R.mul(nrm, k)), R.add(plane_pt(), R.mul(nrm, k))  # parallel
            elif r < 0.85:
                a = R.add(plane_pt(), R.mul(nrm, int(rng.integers(1, 3))))
                b = R.add(plane_pt(), R.mul(nrm, -int(rng.integers(0, 3))))  # piercing / touching
            else:
                a = poly3[int(rng.integers(len(poly3)))]
                b = _ipt(rng, 3, 7)
            if a != b:
                segs.append((a, b))
        case["start"] = [list(s[0]) for s in segs]
        case["end"] = [list(s[1]) for s in segs]
    return case


def _segseg_pair(rng, nd, mode):
    for _ in range(500):
        a0, a1 = _iseg(rng, nd)
        d = R.sub(a1, a0)
        if mode == "uniform":
            b0, b1 = _iseg(rng, nd)
        elif mode == "parallel":
            off = _ipt(rng, nd, 3)
            k = int(rng.choice([-2, -1, 1, 2]))
            b0 = R.add(a0, off)
            b1 = R.add(b0, R.mul(d, k))
        elif mode == "collinear":
            g = int(np.gcd.reduce([abs(x) for x in d]))
            dp = tuple(x // g for x in d)
            k0, k1 = (int(x) for x in rng.integers(-6, 7, size=2))
            b0, b1 = R.add(a0, R.mul(dp, k0)), R.add(a0, R.mul(dp, k1))
        elif mode == "crossing":
            g = int(np.gcd.reduce([abs(x) for x in d]))
            p = R.add(a0, R.mul(tuple(x // g for x in d), int(rng.integers(0, g + 1))))
            e = _ipt(rng, nd, 2)
            i, j = int(rng.integers(0, 3)), int(rng.integers(0, 3))
            b0, b1 = R.sub(p, R.mul(e, i)), R.add(p, R.mul(e, j))
        elif mode == "endpoint":
            b0 = a0 if rng.random() < 0.5 else a1
            b1 = _ipt(rng, nd)
        elif mode == "skew":
            # 3-D: common perpendicular foot in the interior of both segments
            if nd == 2:
                b0, b1 = _iseg(rng, nd)
            else:
                d1, d2 = _ipt(rng, 3, 2), _ipt(rng, 3, 2)
                n = R.cross3(d1, d2)
                if R.is_zero(n):
                    continue
                p = _ipt(rng, 3, 2)
                k = int(rng.choice([-1, 1]))
                a0, a1 = R.sub(p, R.mul(d1, int(rng.integers(1, 3)))), R.add(p, R.mul(d1, int(rng.integers(1, 3))))
                q = R.add(p, R.mul(n, k))
                b0, b1 = R.sub(q, R.mul(d2, int(rng.integers(1, 3)))), R.add(q, R.mul(d2, int(rng.integers(1, 3))))
                if max(abs(x) for x in a0 + a1 + b0 + b1) > 12:
                    continue
                return a0, a1, b0, b1
        else:
            raise ValueError(mode)
        if b0 != b1 and all(abs(x) <= 8 for x in b0 + b1):
            return a0, a1, b0, b1
    return (0,) * nd, (1,) + (0,) * (nd - 1), (0,) * (nd - 1) + (1,), (1,) * nd


SS_MODES = ["uniform", "parallel", "collinear", "crossing", "endpoint", "skew"]
KINDS = ["pt-seg", "seg-seg", "pt-pt", "pt-poly", "seg-poly", "seg-set"]


def _gen(rng, kind):
    nd = int(rng.choice([2, 3]))
    flt = bool(rng.random() < 0.4)
    if kind == "pt-seg":
        npnt, nseg = int(rng.integers(1, 7)), int(rng.integers(1, 7))
        segs = [_iseg(rng, nd) for _ in range(nseg)]
        pts = []
        for _ in range(npnt):
            r = rng.random()
            if r < 0.5:
                pts.append(_ipt(rng, nd, 6))
            elif r < 0.8:   # on the line of a segment (inside, at an end, beyond)
                a, b = segs[int(rng.integers(nseg))]
                pts.append(R.add(a, R.mul(R.sub(b, a), int(rng.integers(-1, 3)))))
            else:           # foot exactly at an end point
                a, b = segs[int(rng.integers(nseg))]
                pts.append(a if rng.random() < 0.5 else b)
        case = {"kind": kind, "nd": nd, "points": [list(p) for p in pts],
                "start": [list(s[0]) for s in segs], "end": [list(s[1]) for s in segs]}
    elif kind == "seg-seg":
        n = int(rng.integers(1, 6))
        a0, a1 = None, None
        prs = []
        mode0 = SS_MODES[int(rng.integers(len(SS_MODES)))]
        first = _segseg_pair(rng, nd, mode0)
        a0, a1 = first[0], first[1]
        prs.append((first[2], first[3]))
        while len(prs) < n:
            # further members of the set relative to the same main segment
            m = SS_MODES[int(rng.integers(len(SS_MODES)))]
            for _ in range(50):
                q = _segseg_pair(rng, nd, m)
                if m in ("uniform", "skew"):
                    prs.append((q[2], q[3]))
                    break
                # re-anchor on the main segment by translation
                sh = R.sub(a0, q[0])
                b0, b1 = R.add(q[2], sh), R.add(q[3], sh)
                if m in ("parallel", "collinear"):
                    # need the direction of the main segment: rebuild from it
                    d = R.sub(a1, a0)
                    k = int(rng.choice([-2, -1, 1, 2]))
                    off = _ipt(rng, nd, 3) if m == "parallel" else R.mul(d, int(rng.integers(-2, 3)))
                    b0 = R.add(a0, off)
                    b1 = R.add(b0, R.mul(d, k))
                elif m == "crossing":
                    d = R.sub(a1, a0)
                    e = _ipt(rng, nd, 2)
                    if not any(e):
                        continue
                    p = R.add(a0, d) if rng.random() < 0.3 else a0
                    b0, b1 = R.sub(p, R.mul(e, int(rng.integers(0, 2)))), R.add(p, R.mul(e, int(rng.integers(1, 3))))
                elif m == "endpoint":
                    b0 = a0 if rng.random() < 0.5 else a1
                    b1 = _ipt(rng, nd)
                if b0 != b1:
                    prs.append((b0, b1))
                    break
        case = {"kind": kind, "nd": nd, "start": list(a0), "end": list(a1),
                "start_set": [list(p[0]) for p in prs], "end_set": [list(p[1]) for p in prs]}
    elif kind == "seg-set":
        n = int(rng.integers(1, 6))
        segs = []
        while len(segs) < n:
            q = _segseg_pair(rng, nd, SS_MODES[int(rng.integers(len(SS_MODES)))])
            segs += [(q[0], q[1]), (q[2], q[3])]
        segs = segs[:n]
        case = {"kind": kind, "nd": nd, "start": [list(s[0]) for s in segs],
                "end": [list(s[1]) for s in segs]}
    elif kind == "pt-pt":
        n = int(rng.integers(1, 8))
        pts = [_ipt(rng, nd, 6) for _ in range(n)]
        if n > 2 and rng.random() < 0.3:
            pts[1] = pts[0]
        pq = list(_ipt(rng, nd, 6))
        if rng.random() < 0.25:
            # the whole configuration far from the origin (UTM-like coordinates): distances
            # are translation invariant, |a|^2 + |b|^2 - 2 a.b style formulas are not
            sh = [int(v) for v in rng.integers(-3, 4, size=nd) * 10 ** int(rng.integers(5, 8))]
            pts = [tuple(int(a + b) for a, b in zip(q, sh)) for q in pts]
            pq = [int(a + b) for a, b in zip(pq, sh)]
        case = {"kind": kind, "nd": nd, "p": pq, "points": [list(p) for p in pts],
                "max_diag": bool(rng.random() < 0.5)}
    elif kind in ("pt-poly", "seg-poly"):
        return _poly_case(rng, kind)
    else:
        raise ValueError(kind)
    if flt:
        M, t = _similarity(rng, nd)
        for key in ("points", "start", "end", "start_set", "end_set", "p"):
            if key in case:
                val = case[key]
                if val and isinstance(val[0], list):
                    case[key] = [_apply(M, t, q) for q in val]
                else:
                    case[key] = _apply(M, t, val)
        case["float"] = True
    return case


def generate(rng, tier, i):
    return _gen(rng, KINDS[i % len(KINDS)])


def floor(tier):
    out = []
    # point - segment: both loops (num_p < num_l and else), clamps at both ends, interior
    out.append({"kind": "pt-seg", "nd": 2, "points": [[0, 1], [3, 1], [-2, 0], [1, 0]],
                "start": [[0, 0], [0, 0]], "end": [[2, 0], [0, 3]]})
    out.append({"kind": "pt-seg", "nd": 3, "points": [[0, 1, 1]],
                "start": [[0, 0, 0], [1, 1, 1], [0, 0, 2]], "end": [[2, 0, 0], [3, 3, 3], [0, 4, 2]]})
    out.append({"kind": "pt-seg", "nd": 2, "points": [[5, 5]], "start": [[0, 0]], "end": [[2, 2]]})
    out.append({"kind": "pt-seg", "nd": 3, "points": [[1, 2, 3], [1, 1, 1], [4, 4, 4], [-1, -1, -1], [2, 0, 0]],
                "start": [[0, 0, 0]], "end": [[3, 3, 3]]})
    # segment - segment (test-suite configurations and the classical degenerate ones)
    out.append({"kind": "seg-seg", "nd": 2, "start": [0, 0], "end": [0, 1],
                "start_set": [[1, 1], [1, 0], [0, 2], [0, 0], [-1, 0]], "end_set": [[1, 0], [0, 1], [0, 4], [0, 1], [1, 1]]})
    out.append({"kind": "seg-seg", "nd": 3, "start": [0, 0, 0], "end": [1, 1, 1],
                "start_set": [[1, 0, 0], [2, 2, 2], [0, 0, 1], [1, 1, 1], [0, 1, 0]],
                "end_set": [[0, 1, 1], [4, 4, 4], [1, 1, 2], [2, 0, 5], [0, 1, 3]]})
    out.append({"kind": "seg-seg", "nd": 3, "start": [0, 0, 0], "end": [4, 0, 0],
                "start_set": [[1, 0, 1], [1, 1, 0], [5, 1, 0], [-3, 0, 0], [2, -1, 1]],
                "end_set": [[3, 0, 1], [3, 1, 0], [7, 1, 0], [-1, 0, 0], [2, 1, 1]]})
    out.append({"kind": "seg-seg", "nd": 3, "start": [-2, 0, 0], "end": [2, 0, 0],
                "start_set": [[0, -2, 1], [1, -1, 2], [-1, -3, -1], [0, -1, 3], [1, 2, -2]],
                "end_set": [[0, 2, 1], [1, 3, 2], [-1, 3, -1], [0, 1, 3], [1, -2, -2]]})
    # long, nearly (not exactly) parallel segments converging towards the end / the start
    # of the main segment (|sin| ~ 1e-5 .. 1e-3: far above the code's parallel tolerance)
    out.append({"kind": "seg-seg", "nd": 2, "start": [0, 0], "end": [100000, 0],
                "start_set": [[0, 3], [0, 2], [100000, 5], [0, -4], [-100000, 7]],
                "end_set": [[100000, 2], [100000, 3], [0, 1], [100000, -1], [200000, 3]]})
    out.append({"kind": "seg-seg", "nd": 3, "start": [0, 0, 0], "end": [0, 0, 50000],
                "start_set": [[3, 0, 0], [0, 2, 50000], [1, 1, -50000], [4, 0, 10000]],
                "end_set": [[2, 0, 50000], [0, 5, 0], [3, 3, 100000], [1, 0, 40000]]})
    out.append({"kind": "seg-set", "nd": 2, "start": [[0, 0], [0, 3], [0, -5]],
                "end": [[100000, 0], [100000, 2], [100000, -1]]})
    out.append({"kind": "seg-set", "nd": 2, "start": [[0, 0], [0, 2], [3, 0]], "end": [[1, 0], [1, 2], [3, 4]]})
    out.append({"kind": "seg-set", "nd": 2, "start": [[0, 0], [0, 2]], "end": [[1, 0], [1, 3]]})
    out.append({"kind": "seg-set", "nd": 3, "start": [[0, 0, 1]], "end": [[1, 0, 3]]})
    out.append({"kind": "seg-set", "nd": 3, "start": [[0, 0, 0], [0, 2, 0], [3, 0, 1], [1, 1, 1]],
                "end": [[1, 0, 0], [1, 2, 0], [3, 4, 1], [2, 2, 3]]})
    out.append({"kind": "pt-pt", "nd": 3, "p": [1, 2, 2], "points": [[0, 0, 0], [1, 2, 2], [4, 6, 2]], "max_diag": True})
    out.append({"kind": "pt-pt", "nd": 2, "p": [0, 0], "points": [[3, 4]], "max_diag": False})
    out.append({"kind": "pt-pt", "nd": 3, "p": [3000001, -2000000, 5000002],
                "points": [[3000000, -2000000, 5000000], [3000001, -2000002, 5000004],
                           [3000000, -2000000, 5000000], [3000004, -1999997, 5000000]],
                "max_diag": False})
    out.append({"kind": "pt-pt", "nd": 2, "p": [50000003, 4], "points": [[50000000, 0],
                [50000000, 0], [50000006, 8]], "max_diag": True})
    # polygons: unit-ish square in z=0, L-shape in an oblique plane
    sq = [[0, 0, 0], [4, 0, 0], [4, 4, 0], [0, 4, 0]]
    out.append({"kind": "pt-poly", "poly": sq, "nonconvex": False,
                "points": [[2, 2, 3], [2, 2, 0], [6, 2, 0], [6, 6, 1], [4, 4, 0], [2, 4, 2], [-1, 2, -2]]})
    out.append({"kind": "seg-poly", "poly": sq, "nonconvex": False,
                "start": [[2, 2, 1], [2, 2, 1], [1, 1, 0], [-2, 2, 0], [5, 5, 1], [-1, 2, 2], [2, 2, 0], [6, 1, 0]],
                "end": [[2, 2, -1], [3, 3, 2], [3, 3, 0], [6, 2, 0], [7, 5, 3], [5, 2, 2], [8, 2, 0], [6, 3, 0]]})
    L2 = [(0, 0), (4, 0), (4, 2), (2, 2), (2, 4), (0, 4)]
    o, u, v = (1, 0, -1), (1, 0, 1), (0, 1, 1)
    L3 = [list(_embed(o, u, v, q)) for q in L2]
    nrm = R.cross3(u, v)
    P = lambda x, y, k=0: list(R.add(_embed(o, u, v, (x, y)), R.mul(nrm, k)))  # noqa: E731
    out.append({"kind": "pt-poly", "poly": L3, "nonconvex": True,
                "points": [P(1, 1, 1), P(3, 3, 1), P(3, 3), P(1, 1), P(5, 5, -1), P(2, 2, 2), P(-1, 1)]})
    out.append({"kind": "seg-poly", "poly": L3, "nonconvex": True,
                "start": [P(1, 1, 1), P(3, 3, 1), P(3, 3), P(1, 3), P(-1, 1), P(1, 1, 1), P(3, 5)],
                "end": [P(1, 1, -1), P(3, 3, -1), P(5, 5), P(3, 1), P(1, 1), P(3, 3, 1), P(5, 3)]})
    return out


# ----------------------------------------------------------------------------- oracle helpers

def _ex(p):
    """Exact rational value of a point given as ints or floats."""
    return tuple(F(x) if not isinstance(x, int) else x for x in p)


def _np(pts):
    return np.array(pts, dtype=float).T   # (nd, n)


def _dist(a, b):
    return float(np.linalg.norm(np.asarray(a, dtype=float) - np.asarray(b, dtype=float)))


def _scale(case_pts):
    m = max(1.0, max(abs(float(x)) for p in case_pts for x in p))
    return m


def _chk(mon, fn, name, got, want, scale, detail, mech=None):
    """Compare a float with the exact reference value (given as float)."""
    err = abs(float(got) - float(want)) / scale if np.isfinite(got) else float("inf")
    mon.measure(f"{fn}:{name}", err)
    if not err <= TOL:
        mon.violation(mech or f"{fn}:{name}", dict(detail, got=float(got), want=float(want), rel_err=err))
        return False
    return True


def _on_edge_extension(q2, poly2) -> bool:
    """Mechanism predicate: q2 lies on the supporting line of some polygon edge but not on
    that edge itself (exact)."""
    n = len(poly2)
    for i in range(n):
        a, b = poly2[i], poly2[(i + 1) % n]
        if R.cross2(R.sub(b, a), R.sub(q2, a)) == 0 and not R.point_on_segment(q2, a, b):
            return True
    return False


def _interior_on_extension(q, poly) -> bool:
    """The orthogonal projection of q on the polygon plane is strictly inside the polygon
    and lies on the extension of one of its edges (only possible for non-convex polygons)."""
    nrm = R.polygon_normal(poly)
    h = R.quot(R.dot(R.sub(q, poly[0]), nrm), R.dot(nrm, nrm))
    foot = tuple(F(x) - F(y) * h for x, y in zip(q, nrm))
    ax = R.drop_axis(nrm)
    f2 = R.project2(foot, ax)
    p2 = [R.project2(v, ax) for v in poly]
    return R.point_in_polygon_2d(f2, p2) == 1 and _on_edge_extension(f2, p2)


def _in_region(q, poly) -> bool:
    nrm = R.polygon_normal(poly)
    ax = R.drop_axis(nrm)
    return R.point_in_polygon_2d(R.project2(q, ax), [R.project2(v, ax) for v in poly]) >= 0


def warmup():
    import porepy  # noqa: F401


# ----------------------------------------------------------------------------- check

def check(case, mon):
    from porepy.geometry import distances as D

    kind = case["kind"]
    flt = bool(case.get("float"))
    mon.klass(kind + ("/float" if flt else "/int") + (f"/{case['nd']}d" if "nd" in case else ""))
    state = {"pos": 0, "inside": 0}
    if kind == "pt-seg":
        _pt_seg(case, mon, D, state)
    elif kind == "seg-seg":
        _seg_seg(case, mon, D, state)
    elif kind == "seg-set":
        _seg_set(case, mon, D, state)
    elif kind == "pt-pt":
        _pt_pt(case, mon, D, state)
    elif kind == "pt-poly":
        _pt_poly(case, mon, D, state)
    elif kind == "seg-poly":
        _seg_poly(case, mon, D, state)
    else:
        raise ValueError(kind)
    mon.nontrivial(state["pos"] > 0 and state["inside"] > 0)


def _pt_seg(case, mon, D, state):
    P, S, E = case["points"], case["start"], case["end"]
    sc = _scale(P + S + E)
    p, s, e = _np(P), _np(S), _np(E)
    p0, s0, e0 = p.copy(), s.copy(), e.copy()
    d, cp = D.points_segments(p, s, e)
    if not (np.array_equal(p, p0) and np.array_equal(s, s0) and np.array_equal(e, e0)):
        mon.violation("points_segments:input-mutated", {})
    d = np.asarray(d)
    cp = np.asarray(cp)
    if d.shape != (len(P), len(S)) or cp.shape != (len(P), len(S), len(P[0])):
        mon.violation("points_segments:shape", {"d": list(d.shape), "cp": list(cp.shape)})
        return
    mon.count("branch:num_p<num_l" if len(P) < len(S) else "branch:num_p>=num_l")
    for i, q in enumerate(P):
        for j in range(len(S)):
            mon.count("events:points_segments")
            d2, t, c = R.point_segment_dist2(_ex(q), _ex(S[j]), _ex(E[j]))
            want = R.sqrt_f(d2)
            mon.count("ptseg:clamped" if t in (0, 1) else "ptseg:interior")
            state["pos"] += want > 0
            state["inside"] += 0 < t < 1
            det = {"point": q, "segment": [S[j], E[j]], "t_exact": str(t)}
            _chk(mon, "points_segments", "distance", d[i, j], want, sc, det)
            # closest point: on the segment, realises the distance
            c2 = R.point_segment_dist2(_ex(cp[i, j].tolist()), _ex(S[j]), _ex(E[j]))[0]
            _chk(mon, "points_segments", "closest-point-off-segment", R.sqrt_f(c2), 0.0, sc, det)
            _chk(mon, "points_segments", "closest-point-not-at-distance", _dist(cp[i, j], q), want, sc, det)


def _seg_class(a0, a1, b0, b1, d2):
    d1 = R.sub(a1, a0)
    dd = R.sub(b1, b0)
    A = R.dot(d1, d1) * R.dot(dd, dd) - R.dot(d1, dd) ** 2
    if A == 0:
        w = R.sub(b0, a0)
        col = R.dot(w, w) * R.dot(d1, d1) - R.dot(w, d1) ** 2 == 0
        return "collinear" if col else "parallel"
    if d2 == 0:
        return "intersecting"
    ends = min(R.point_segment_dist2(p, s0, s1)[0] for p, s0, s1 in
               ((a0, b0, b1), (a1, b0, b1), (b0, a0, a1), (b1, a0, a1)))
    return "endpoint" if ends == d2 else "interior-critical"


def _seg_seg(case, mon, D, state):
    a0, a1, SS, ES = case["start"], case["end"], case["start_set"], case["end_set"]
    sc = _scale([a0, a1] + SS + ES)
    s, e, ss, es = np.array(a0, dtype=float), np.array(a1, dtype=float), _np(SS), _np(ES)
    keep = [x.copy() for x in (s, e, ss, es)]
    d, cp1, cp2 = D.segment_segment_set(s, e, ss, es)
    if not all(np.array_equal(x, y) for x, y in zip((s, e, ss, es), keep)):
        mon.violation("segment_segment_set:input-mutated", {})
    d, cp1, cp2 = np.asarray(d), np.asarray(cp1), np.asarray(cp2)
    n, nd = len(SS), len(a0)
    if d.shape != (n,) or cp1.shape != (nd, n) or cp2.shape != (nd, n):
        mon.violation("segment_segment_set:shape", {"d": list(d.shape), "cp1": list(cp1.shape)})
        return
    for j in range(n):
        mon.count("events:segment_segment_set")
        A0, A1, B0, B1 = _ex(a0), _ex(a1), _ex(SS[j]), _ex(ES[j])
        d2 = R.segment_segment_dist2(A0, A1, B0, B1)
        want = R.sqrt_f(d2)
        cls = _seg_class(A0, A1, B0, B1, d2) if not case.get("float") else "float"
        mon.count("segseg:" + cls)
        state["pos"] += want > 0
        state["inside"] += cls in ("interior-critical", "intersecting", "parallel", "float")
        det = {"main": [a0, a1], "other": [SS[j], ES[j]], "class": cls}
        _chk(mon, "segment_segment_set", "distance", d[j], want, sc, det,
             mech=f"segment_segment_set:distance:{cls}")
        c1 = R.point_segment_dist2(_ex(cp1[:, j].tolist()), A0, A1)[0]
        c2 = R.point_segment_dist2(_ex(cp2[:, j].tolist()), B0, B1)[0]
        _chk(mon, "segment_segment_set", "closest-point-off-main-segment", R.sqrt_f(c1), 0.0, sc, det)
        _chk(mon, "segment_segment_set", "closest-point-off-other-segment", R.sqrt_f(c2), 0.0, sc, det)
        _chk(mon, "segment_segment_set", "closest-points-not-at-distance",
             _dist(cp1[:, j], cp2[:, j]), want, sc, det)


def _seg_set(case, mon, D, state):
    S, E = case["start"], case["end"]
    sc = _scale(S + E)
    n, nd = len(S), len(S[0])
    mon.count("calls:segment_set")
    try:
        d, cp = D.segment_set(_np(S), _np(E))
    except Exception as exc:  # noqa: BLE001
        import traceback
        frames = [f for f in traceback.extract_tb(exc.__traceback__)
                  if f.filename.endswith("geometry/distances.py")]
        if frames and frames[0].name == "segment_set":
            # mechanism predicate on the input: none needed, every segment set (1, 2, 3+
            # segments, 2-D and 3-D) makes the function raise on the unchanged tree
            mon.violation("segment_set:raises-for-every-segment-set",
                          {"error": f"{type(exc).__name__}: {exc}"[:200],
                           "line": frames[0].line, "n_segments": n, "nd": nd})
            return
        raise
    d, cp = np.asarray(d), np.asarray(cp)
    if d.shape != (n, n) or cp.shape != (n, n, nd):
        mon.violation("segment_set:shape", {"d": list(d.shape), "cp": list(cp.shape)})
        return
    for i in range(n):
        for j in range(n):
            if i == j:
                # a segment has distance zero from itself; its own closest point is on it
                on = R.point_segment_dist2(_ex(cp[i, i].tolist()), _ex(S[i]), _ex(E[i]))[0]
                _chk(mon, "segment_set", "diagonal-distance", d[i, i], 0.0, sc, {"i": i})
                _chk(mon, "segment_set", "diagonal-closest-point-off-segment", R.sqrt_f(on), 0.0, sc, {"i": i})
                continue
            mon.count("events:segment_set")
            A0, A1, B0, B1 = _ex(S[i]), _ex(E[i]), _ex(S[j]), _ex(E[j])
            d2 = R.segment_segment_dist2(A0, A1, B0, B1)
            want = R.sqrt_f(d2)
            state["pos"] += want > 0
            state["inside"] += 1
            det = {"i": i, "j": j, "seg_i": [S[i], E[i]], "seg_j": [S[j], E[j]]}
            _chk(mon, "segment_set", "distance", d[i, j], want, sc, det)
            # cp[i, j] = point on i closest to j
            on = R.point_segment_dist2(_ex(cp[i, j].tolist()), A0, A1)[0]
            to = R.point_segment_dist2(_ex(cp[i, j].tolist()), B0, B1)[0]
            _chk(mon, "segment_set", "closest-point-off-segment", R.sqrt_f(on), 0.0, sc, det)
            _chk(mon, "segment_set", "closest-point-not-at-distance", R.sqrt_f(to), want, sc, det)


def _pt_pt(case, mon, D, state):
    p, P = case["p"], case["points"]
    allp = np.array([p] + P, dtype=float)
    # scale = extent of the configuration (not the magnitude of the coordinates): integer
    # coordinates up to 1e8 are exact floats and so are their differences
    sc = max(1.0, float(np.max(np.ptp(allp, axis=0))))
    if float(np.max(np.abs(allp))) > 1e4:
        mon.count("pointsets_far_from_origin")
    got = np.asarray(D.point_pointset(np.array(p, dtype=float), _np(P)))
    if got.shape != (len(P),):
        mon.violation("point_pointset:shape", {"got": list(got.shape)})
    else:
        for j, q in enumerate(P):
            mon.count("events:point_pointset")
            v = R.sub(_ex(p), _ex(q))
            want = R.sqrt_f(R.dot(v, v))
            state["pos"] += want > 0
            _chk(mon, "point_pointset", "distance", got[j], want, sc, {"p": p, "q": q})
    n = len(P)
    M = np.asarray(D.pointset(_np(P), max_diag=bool(case.get("max_diag"))))
    state["inside"] += 1
    if n == 1:
        if M.shape != (1, 1) or M[0, 0] != 0:
            mon.violation("pointset:single-point", {"got": M.tolist()})
        return
    if M.shape != (n, n):
        mon.violation("pointset:shape", {"got": list(M.shape)})
        return
    W = np.zeros((n, n))
    for i in range(n):
        for j in range(n):
            v = R.sub(_ex(P[i]), _ex(P[j]))
            W[i, j] = R.sqrt_f(R.dot(v, v))
    if case.get("max_diag"):
        W = W + 2 * np.diag(W.max(axis=1))
    mon.count("events:pointset", n * n)
    err = float(np.max(np.abs(M - W))) / sc
    mon.measure("pointset:distance", err)
    if not err <= TOL:
        mon.violation("pointset:distance" + (":max_diag" if case.get("max_diag") else ""),
                      {"points": P, "got": M.tolist(), "want": W.tolist()})


def _pt_poly(case, mon, D, state):
    poly = [tuple(int(x) for x in q) for q in case["poly"]]
    P = [tuple(int(x) for x in q) for q in case["points"]]
    sc = _scale(list(poly) + P)
    if case.get("nonconvex"):
        mon.count("polygons:nonconvex")
    p = _np(P)
    pl = _np(poly)
    p0, pl0 = p.copy(), pl.copy()
    d, cp, inp = D.points_polygon(p, pl)
    if not (np.array_equal(p, p0) and np.array_equal(pl, pl0)):
        mon.violation("points_polygon:input-mutated", {})
    d, cp, inp = np.asarray(d), np.asarray(cp), np.asarray(inp)
    if d.shape != (len(P),) or cp.shape != (3, len(P)):
        mon.violation("points_polygon:shape", {"d": list(d.shape), "cp": list(cp.shape)})
        return
    for i, q in enumerate(P):
        mon.count("events:points_polygon")
        d2, where, _ = R.point_polygon_dist2_3d(q, poly)
        want = R.sqrt_f(d2)
        mon.count("ptpoly:projection-" + {1: "inside", 0: "on-boundary", -1: "outside"}[where])
        state["pos"] += want > 0
        state["inside"] += where == 1
        det = {"point": list(q), "poly": [list(v) for v in poly], "projection": where}
        wlab = {1: "inside", 0: "on-boundary", -1: "outside"}[where]
        ext = where == 1 and _interior_on_extension(q, poly)
        if ext:
            mon.count("ptpoly:interior-projection-on-edge-extension")
        m_ext = "points_polygon:interior-projection-on-extension-of-polygon-edge" if ext else None
        _chk(mon, "points_polygon", "distance", d[i], want, sc, det,
             mech=m_ext or "points_polygon:distance:projection-" + wlab)
        c = _ex(cp[:, i].tolist())
        c2 = R.point_polygon_dist2_3d(c, poly)[0]
        _chk(mon, "points_polygon", "closest-point-off-polygon", R.sqrt_f(c2), 0.0, sc, det, mech=m_ext)
        _chk(mon, "points_polygon", "closest-point-not-at-distance", _dist(cp[:, i], q), want, sc, det,
             mech=m_ext)
        if where != 0:
            mon.count("in_poly_flag_agrees" if bool(inp[i]) == (where == 1) else "in_poly_flag_differs")


def _seg_poly(case, mon, D, state):
    poly = [tuple(int(x) for x in q) for q in case["poly"]]
    S = [tuple(int(x) for x in q) for q in case["start"]]
    E = [tuple(int(x) for x in q) for q in case["end"]]
    sc = _scale(list(poly) + S + E)
    if case.get("nonconvex"):
        mon.count("polygons:nonconvex")
    s, e, pl = _np(S), _np(E), _np(poly)
    keep = [x.copy() for x in (s, e, pl)]
    d, cp = D.segments_polygon(s, e, pl)
    if not all(np.array_equal(x, y) for x, y in zip((s, e, pl), keep)):
        mon.violation("segments_polygon:input-mutated", {})
    d, cp = np.asarray(d), np.asarray(cp)
    if d.shape != (len(S),) or cp.shape != (3, len(S)):
        mon.violation("segments_polygon:shape", {"d": list(d.shape), "cp": list(cp.shape)})
        return
    nrm = R.polygon_normal(poly)
    for i in range(len(S)):
        mon.count("events:segments_polygon")
        d2 = R.segment_polygon_dist2_3d(S[i], E[i], poly)
        want = R.sqrt_f(d2)
        h0 = R.dot(R.sub(S[i], poly[0]), nrm)
        h1 = R.dot(R.sub(E[i], poly[0]), nrm)
        cls = "in-plane" if h0 == 0 and h1 == 0 else "parallel" if h0 == h1 else "piercing-plane" \
            if h0 * h1 <= 0 else "one-side"
        mon.count("segpoly:" + cls)
        mon.count("segpoly:zero" if d2 == 0 else "segpoly:positive")
        state["pos"] += want > 0
        state["inside"] += d2 == 0
        det = {"segment": [list(S[i]), list(E[i])], "poly": [list(v) for v in poly], "class": cls,
               "closest_point": cp[:, i].tolist()}
        # mechanism predicates on the input
        probes = [S[i], E[i]]
        if h0 != h1:
            probes.append(R.lerp(_ex(S[i]), _ex(E[i]), R.quot(h0, h0 - h1)))   # plane crossing of the line
        ext = any(_interior_on_extension(q, poly) for q in probes)
        if ext:
            mon.count("segpoly:interior-projection-on-edge-extension")
        half_in = cls == "in-plane" and not _in_region(S[i], poly) and _in_region(E[i], poly)
        if half_in:
            mon.count("segpoly:in-plane-start-outside-end-inside")
        m_ext = "segments_polygon:interior-projection-on-extension-of-polygon-edge" if ext else None
        _chk(mon, "segments_polygon", "distance", d[i], want, sc, det,
             mech=m_ext or f"segments_polygon:distance:{cls}")
        # the closest point: on the segment at distance d from the polygon, or on the
        # polygon at distance d from the segment
        c = _ex(cp[:, i].tolist())
        on_seg = R.sqrt_f(R.point_segment_dist2(c, S[i], E[i])[0])
        on_pol = R.sqrt_f(R.point_polygon_dist2_3d(c, poly)[0])
        e1 = max(on_seg, abs(on_pol - want)) / sc
        e2 = max(on_pol, abs(on_seg - want)) / sc
        err = min(e1, e2)
        mon.measure("segments_polygon:closest-point", err)
        if not err <= TOL:
            if half_in:
                mech = "segments_polygon:closest-point:in-plane-segment-start-outside-end-inside"
            elif m_ext:
                mech = m_ext
            else:
                mech = f"segments_polygon:closest-point:{cls}" + (":zero-distance" if d2 == 0 else "")
            mon.violation(mech, dict(det, dist_cp_segment=on_seg, dist_cp_polygon=on_pol, want=want))
