"""C45 Operator hash keys identify operator trees.

Monitor: a generated tree specification (own mini-AST, ``pvm/gen/c45_trees.py``) is turned
into real ``pp.ad`` operators twice with fresh leaf objects (the second time feeding equal
data through other Python representations); ``_key()`` and ``hash()`` must agree.  Then
every leaf and every inner node is mutated once per applicable mutation kind (scalar value,
array entry / length, matrix entry / position / format / class / shape, variable name /
domain / domain type, projection indices / range size / domain size, projection lists and
projection products, divergence / discretization attributes, function name / argument
order / regrouping of nested calls, operation kind, operand order, reflected vs forward
form); each mutant is built and its key must differ from the base key, and mutants must
differ pairwise.  Whether two specifications describe the same tree is decided by the
harness' canonical form (realised leaf data), never by the keys.
"""
from __future__ import annotations

import numpy as np

from pvm.gen import c45_trees as tg

PROP = "C45"
N = {"quick": 500, "thorough": 20000}
WORKERS = {"quick": 4, "thorough": 16}
TIMEOUT = {"quick": 300, "thorough": 3000}
CASE_TIMEOUT = 60.0
RULE = ("random trees of depth 0-4 over 12 leaf kinds (Scalar, DenseArray incl. length > 1000, "
        "SparseArray in csr/csc/coo/dia/bsr matrix and array classes, Variable, "
        "MixedDimensionalVariable, TimeDependentDenseArray on subdomains / interfaces / "
        "boundary grids, Projection incl. index arrays > 1000, ProjectionList, "
        "sum_projection_list of products, Divergence, discretization matrices) and inner "
        "nodes (six binary operations, reflected forms with a float or sparse matrix on the "
        "left, negation, functions of 1, 2 and n arguments, surrogate operators); up to 40 single mutations per "
        "tree; non-trivial = at least 2 leaves and at least 3 effective mutants; distinct = "
        "hash of the specification")
_F = "numerics/ad/operators.py"
REACH = [(_F, "Operator._key"), (_F, "Operator.__hash__"), (_F, "Projection._key"),
         (_F, "ProjectionList._key"), (_F, "SparseArray._key"),
         (_F, "SparseArray._compute_spmatrix_hash"), (_F, "DenseArray._key"),
         (_F, "Scalar._key"), (_F, "Variable._key"), (_F, "MixedDimensionalVariable._key"),
         (_F, "TimeDependentDenseArray._key"), (_F, "sum_projection_list"),
         ("numerics/ad/grid_operators.py", "Divergence._key"),
         ("numerics/ad/ad_utils.py", "MergedOperator._key"),
         ("numerics/ad/operator_functions.py", "AbstractFunction.__call__"),
         ("numerics/ad/surrogate_operator.py", "SurrogateOperator.__init__")]
REQUIRED = {
    "trees": 20, "rebuild_key_equal": 20, "rebuild_hash_equal": 20, "mutants_evaluated": 200,
    "mut:projection:domain-size": 3, "mut:projection:range-size": 3,
    "mut:projection:domain-index": 2,
    "mut:projection:domain-index-middle-of-long-array": 1,
    "mut:projection-list:child-domain-index": 2,
    "mut:projection-product:left-factor-domain-index": 1,
    "mut:function:name": 3, "mut:function:nested-call-regrouped": 1,
    "mut:surrogate-operator:name": 2,
    "mut:variable:domain-type-same-id": 2, "mut:time-dependent-array:domain-type-same-ids": 1,
    "mut:md-variable:domain-type-same-ids": 1,
    "mut:dense-array:entry-long": 1, "mut:sparse-array:format": 3, "mut:sparse-array:entry-value": 3,
    "mut:operation-kind": 3, "mut:operand-order": 3, "mut:scalar:value": 3,
    "mut:variable:name": 2, "mut:variable:domain": 2,
}
ASSUMPTIONS = [
    "sameness of two trees is decided on the specification (realised leaf data, grid "
    "identity), not on the keys",
    "the time / iterate index of a variable is recorded, not asserted (DESIGN section 3)",
    "operand-order mutations are asserted only when the exchanged operands' own keys differ "
    "(a collision of the operands themselves is reported at the leaf)",
]
LEVEL_TEXT = ("Every generated tree is rebuilt from fresh leaves (keys and hashes must agree) "
              "and mutated once per leaf attribute / node attribute (keys must differ, also "
              "pairwise between mutants).")
TECHNIQUE = "structural rebuild + single-mutation differential on the key strings"

# mutation kind -> specific mechanism key of a collision (stable, names the predicate)
MECH = {
    "projection:domain-size": "projection:domain-size-not-in-key",
    "projection:domain-index-middle-of-long-array": "projection:long-index-array-summarised",
    "projection:range-index-middle-of-long-array": "projection:long-index-array-summarised",
    "projection-list:child-domain-index": "projection-list:child-indices-not-in-key",
    "projection-list:child-range-index": "projection-list:child-indices-not-in-key",
    "function:name": "function:name-not-in-key",
    "function:nested-call-regrouped": "function:nested-call-arity-ambiguous",
    "surrogate-operator:name": "surrogate-operator:name-not-in-key",
    "variable:domain-type-same-id": "variable:domain-type-not-in-key",
    "md-variable:domain-type-same-ids": "md-variable:domain-type-not-in-key",
    "time-dependent-array:domain-type-same-ids": "time-dependent-array:domain-type-not-in-key",
}


def _mechanism(kind, node):
    if kind.startswith("projection-product:"):
        if len(node["items"]) >= 2:          # the result is a ProjectionList
            return "projection-list:child-indices-not-in-key"
        if "left-factor" in kind:
            return "projection-product:left-factor-not-in-key"
    return MECH.get(kind, "collision:" + kind)


# --------------------------------------------------------------------------- cases
def _v(name="p", t="sd", i=0):
    return {"k": "var", "name": name, "dom": [t, i]}


def _s(v):
    return {"k": "scalar", "v": float(v)}


def _p(dom, rng, ds, rs):
    return {"k": "proj", "dom": dom, "rng": rng, "ds": ds, "rs": rs}


def _op(op, a, b):
    return {"k": "op", "op": op, "c": [a, b]}


def _f(name, *args):
    return {"k": "func", "f": name, "c": list(args)}


def floor(tier):
    T = []
    long_p = {"k": "proj", "dom": {"perm": 1500, "seed": 7, "set": []},
              "rng": {"perm": 1500, "seed": 8, "set": []}, "ds": 1500, "rs": 1500}
    sp = lambda fmt, cls: {"k": "sparse", "fmt": fmt, "cls": cls, "m": 3, "n": 4,  # noqa: E731
                           "seed": 5, "dens": 0.5, "set": []}
    dense = {"k": "dense", "n": 5, "seed": 3, "set": []}
    dense_long = {"k": "dense", "n": 1200, "seed": 4, "set": []}
    # leaves on their own
    T.append(_p([0, 2], [0, 1], 4, 2))
    T.append(long_p)
    T.append(_op("matmul", long_p, dense_long))
    T.append({"k": "projlist", "items": [_p([0], [0], 4, 2), _p([1], [1], 4, 2)]})
    T.append({"k": "projlist", "items": [_p([0, 3], [0, 1], 6, 3), _p([1, 4], [1, 2], 6, 3),
                                         _p([2, 5], [2, 0], 6, 3)]})
    T.append({"k": "projprod", "items": [[_p([0, 1], [1, 0], 2, 2), _p([0, 2], [0, 1], 4, 2)]]})
    T.append({"k": "projprod", "items": [[_p([0, 1], [1, 2], 2, 3), _p([0, 2], [0, 1], 4, 2)],
                                         [_p([1, 0], [0, 1], 2, 3), _p([1, 3], [1, 0], 4, 2)]]})
    T.append(_op("matmul", {"k": "projprod", "items": [[_p([0, 1], [1, 0], 2, 2),
                                                        _p([0, 2], [0, 1], 4, 2)]]},
                 {"k": "mdvar", "name": "u", "doms": [["sd", 0], ["sd", 2]]}))
    for fmt in tg.FORMATS:
        T.append(_op("matmul", sp(fmt, "matrix"), dense))
    T.append(sp("csr", "array"))
    T.append(dense)
    T.append(dense_long)
    T.append(_s(0.0))
    T.append(_s(1e-300))
    T.append(_v())
    T.append(_v("lam", "intf", 3))
    T.append({"k": "mdvar", "name": "p", "doms": [["sd", 0], ["sd", 1], ["sd", 4]]})
    T.append({"k": "mdvar", "name": "lam", "doms": [["intf", 2]]})
    T.append({"k": "tdarray", "name": "bc", "doms": [["bg", 0], ["bg", 1]]})
    T.append({"k": "tdarray", "name": "src", "doms": [["sd", 3]]})
    T.append({"k": "div", "doms": [["sd", 0], ["sd", 1]], "dim": 1})
    T.append({"k": "discr", "cls": "Mpfa", "kw": "flow", "term": "flux", "doms": [["sd", 0]]})
    T.append({"k": "discr", "cls": "Upwind", "kw": "transport", "term": "upwind",
              "doms": [["sd", 1], ["sd", 2]]})
    # functions
    T.append(_f("exp", _v()))
    T.append(_f("maximum", _v(), _v("T", "sd", 1)))
    T.append(_f("fn_a", _v(), _f("fn_a", _v("T"), _v("u"))))
    T.append(_f("fn_b", _f("fn_b", _v("T"), _v("u"), _s(2)), _v(), dense))
    T.append(_op("mul", _f("log", _op("add", _v(), _s(1))), _f("abs", _v("T", "sd", 2))))
    # surrogate operators (what a SurrogateFactory returns when called on domains)
    deps = [{"k": "mdvar", "name": "p", "doms": [["sd", 0], ["sd", 1]]},
            {"k": "mdvar", "name": "T", "doms": [["sd", 0], ["sd", 1]]}]
    T.append({"k": "surrogate", "name": "rho", "doms": [["sd", 0], ["sd", 1]], "c": deps})
    T.append(_op("mul", {"k": "surrogate", "name": "rho", "doms": [["sd", 0], ["sd", 1]],
                         "c": deps},
                 {"k": "surrogate", "name": "h", "doms": [["sd", 0], ["sd", 1]], "c": deps}))
    # arithmetic
    T.append(_op("add", _v(), _v("T")))
    T.append(_op("sub", _op("mul", _v(), _s(2)), _op("div", _v("T"), dense)))
    T.append(_op("pow", _v(), _s(2)))
    T.append({"k": "rop", "op": "mul", "left": _s(2), "c": _v()})
    T.append({"k": "rop", "op": "sub", "left": _s(2), "c": _v()})
    T.append({"k": "rop", "op": "div", "left": _s(0.5), "c": _op("add", _v(), _v("T"))})
    T.append({"k": "rop", "op": "pow", "left": _s(3), "c": _v()})
    T.append({"k": "rop", "op": "add", "left": _s(3), "c": _v()})
    T.append({"k": "rop", "op": "matmul", "left": sp("csr", "matrix"), "c": _v()})
    T.append({"k": "neg", "c": _op("mul", _v(), dense)})
    T.append({"k": "neg", "c": dense})
    # a flux-like expression:  div @ (flux @ p + bound_flux @ bc) - src
    T.append(_op("sub", _op("matmul", {"k": "div", "doms": [["sd", 0]], "dim": 1},
                            _op("add",
                                _op("matmul", {"k": "discr", "cls": "Mpfa", "kw": "flow",
                                               "term": "flux", "doms": [["sd", 0]]}, _v()),
                                _op("matmul", {"k": "discr", "cls": "Mpfa", "kw": "flow",
                                               "term": "bound_flux", "doms": [["sd", 0]]},
                                    {"k": "tdarray", "name": "bc", "doms": [["bg", 0]]}))),
                 {"k": "tdarray", "name": "src", "doms": [["sd", 0]]}))
    return [{"tree": t, "mseed": 100 + i} for i, t in enumerate(T)]


def generate(rng, tier, i):
    return {"tree": tg.gen_tree(rng), "mseed": int(rng.integers(1, 2**31))}


# --------------------------------------------------------------------------- check
def _count_leaves(tree):
    return sum(1 for _, n in tg.paths(tree) if n["k"] not in tg.INNER)


def _short(x, limit=600):
    s = repr(x)
    return s if len(s) <= limit else s[:limit] + "..."


def check(case, mon):
    tree = case["tree"]
    rng = np.random.default_rng(int(case["mseed"]))
    tg.pool()

    # ---- rebuild: equal keys and hashes
    try:
        T = tg.build(tree)
        T2 = tg.build(tree, variant=1)
    except ValueError as e:
        if "Cannot take SparseArray to the power" in str(e):
            # documented rejection (the tree filter mirrors the rule; this is the net)
            mon.excluded("SparseArray ** constant is rejected by porepy (documented)")
            return
        raise
    mon.count("trees")
    nleaves = _count_leaves(tree)
    mon.measure("leaves_per_tree", nleaves)
    for _, n in tg.paths(tree):
        mon.count("node:" + n["k"])
    mon.klass("root:" + tree["k"])
    k1 = T._key()
    k2 = T2._key()
    if not isinstance(k1, str):
        mon.violation("key:not-a-string", {"type": type(k1).__name__})
        return
    if k1 != k2:
        mon.violation("rebuild:key-differs", {"key": _short(k1), "rebuilt": _short(k2),
                                              "tree": _short(tree)})
    else:
        mon.count("rebuild_key_equal")
    if hash(T) != hash(T2):
        mon.violation("rebuild:hash-differs", {"tree": _short(tree)})
    else:
        mon.count("rebuild_hash_equal")
    if T._key() != k1 or hash(T) != hash(k1):
        mon.violation("key:not-stable-or-hash-not-of-key", {"tree": _short(tree)})
    mon.measure("key_length", len(k1))

    # ---- time / iterate copies of variables: recorded only
    for _, n in tg.paths(tree):
        if n["k"] == "var":
            v = tg.build(n)
            same_t = v.previous_timestep()._key() == v._key()
            same_i = v.previous_iteration()._key() == v._key()
            mon.count("observed:previous-timestep-key-" + ("equal" if same_t else "differs"))
            mon.count("observed:previous-iteration-key-" + ("equal" if same_i else "differs"))
            mon.excluded("time/iterate index of a variable (recorded, not asserted)")
            break

    # ---- single mutations
    base_c = tg.canon(tree)
    seen = {base_c}
    evaluated = []       # (kind, path, canon, key, collides_with_base)
    for kind, path, mt in tg.mutants(rng, tree):
        c = tg.canon(mt)
        if c in seen:
            mon.count("mutants_without_effect_or_duplicate")
            continue
        node = tg._get(tree, path)
        # operand-order style mutations: the exchanged operands' own keys must differ
        if kind in ("operand-order", "function:argument-order"):
            ck = [tg.build(ch)._key() for ch in node["c"]]
            if ck[::-1] == ck:
                mon.excluded("operand order: exchanged operands have equal keys themselves")
                continue
        if kind == "reflected-vs-forward-operands" and node["op"] == "sub" \
                and tg.canon(node["left"]) == tg.canon(node["c"]):
            mon.excluded("a - a: reflected and forward form are the same tree")
            continue
        seen.add(c)
        M = tg.build(mt)
        km = M._key()
        mon.count("mutants_evaluated")
        mon.count("mut:" + kind)
        coll = km == k1
        evaluated.append((kind, path, c, km, coll))
        if coll:
            mech = _mechanism(kind, node)
            mon.violation(mech, {"mutation": kind, "at": path, "leaf": _short(node, 300),
                                 "mutated_leaf": _short(tg._get(mt, path), 300),
                                 "common_key": _short(k1, 500)})
            mon.count("collisions_with_base")
        else:
            if hash(M) != hash(T):
                mon.count("mutant_hash_differs")
            else:
                mon.count("mutant_hash_equal_by_chance")
    # pairwise between mutants (pairs that both collide with the base were reported above)
    bykey = {}
    for e in evaluated:
        bykey.setdefault(e[3], []).append(e)
    npairs = len(evaluated) * (len(evaluated) - 1) // 2
    mon.count("mutant_pairs_compared", npairs)
    for km, es in bykey.items():
        if len(es) < 2 or km == k1:
            continue
        kinds = sorted({e[0] for e in es})
        mon.violation("pairwise-mutants-collide:" + "|".join(kinds),
                      {"paths": [e[1] for e in es], "key": _short(km, 400)})
    mon.nontrivial(nleaves >= 2 and len(evaluated) >= 3)
    mon.measure("mutants_per_tree", len(evaluated))
