"""C05 Degree-of-freedom layout is a bijection under any variable history.

Invariant monitor at quiescent points: a generated history of ``create_variables`` /
``remove_variables`` calls is replayed on a real ``EquationSystem``; after EVERY
operation the live object is compared with a reference model (``pvm.ref.c05_layout``: a
Python list of the live atomic variables sorted by (domain position in
``mdg.subdomains()+mdg.interfaces()``, creation order)).  Observed at the public
boundary: ``num_dofs``, ``dofs_of``, ``identify_dof``, ``projection_to``,
``set_variable_values`` / ``get_variable_values`` and the per-grid data dictionaries
(through ``pp.get_solution_values``).
"""
from __future__ import annotations

import numpy as np

from pvm.gen import mdg as gm
from pvm.ref.c05_layout import RefLayout, express, warm_grids

PROP = "C05"
N = {"quick": 150, "thorough": 10000}
WORKERS = {"quick": 4, "thorough": 16}
TIMEOUT = {"quick": 240, "thorough": 1000}
CASE_TIMEOUT = 180.0
RULE = ("seeded histories of 2-12 create_variables/remove_variables calls on md-grids with "
        "0-3 fractures (Cartesian and simplex, 2-D and 3-D); creations draw a name from a "
        "pool of 4 (names are re-used after removal and shared between calls on disjoint "
        "grids), a random subset of subdomains OR interfaces in random list order and dof "
        "multiplicities 0-3 on cells/faces/nodes; removals by name, by the md-variable "
        "returned at creation, by a fresh md_variable(name, grids), by atomic variables or "
        "mixtures; after every call the full layout invariant is evaluated; non-trivial = "
        "the history contains a removal followed by a creation; distinct = case hash")
REACH = [
    ("numerics/ad/equation_system.py", "EquationSystem._cluster_dofs_gridwise"),
    ("numerics/ad/equation_system.py", "EquationSystem._append_dofs"),
    ("numerics/ad/equation_system.py", "EquationSystem.remove_variables"),
    ("numerics/ad/equation_system.py", "EquationSystem.identify_dof"),
    ("numerics/ad/equation_system.py", "EquationSystem.projection_to"),
    ("numerics/ad/equation_system.py", "EquationSystem.dofs_of"),
    ("numerics/ad/equation_system.py", "EquationSystem.set_variable_values"),
    ("numerics/ad/equation_system.py", "EquationSystem.get_variable_values"),
]
REQUIRED = {"steps_checked": 40, "op_create": 20, "op_remove": 10, "dofs_of_checked": 100,
            "identify_dof_checked": 100, "identify_dof_out_of_range_checked": 40,
            "projection_checked": 40, "roundtrip_checked": 40, "additive_checked": 10,
            "zero_size_blocks_seen": 1, "histories_removal_then_creation": 5,
            "interface_variables_created": 5, "same_name_on_disjoint_grids": 2}
ASSUMPTIONS = [
    "interface variables carry cell dofs only (faces/nodes multiplicities are not passed for "
    "interfaces)",
    "a selection of variables handed to dofs_of/projection_to names every atomic variable at "
    "most once (the list is documented as not uniquified)",
    "values are written (overwrite) before they are read or added to; storage left behind by "
    "a removed variable of the same name is not read",
]
LEVEL_TEXT = ("After every create/remove call of generated histories the real dof layout "
              "(num_dofs, dofs_of, identify_dof, projection_to) equals a list-based reference "
              "ordering, and set/get of values for random variable subsets round-trips in "
              "global order, including additive writes and zero-size blocks.")
TECHNIQUE = "invariant monitor at quiescent points against a list reference model"

NAMES = ["a", "b", "c", "d"]


# ------------------------------------------------------------------------------ generator
def _rand_dof(rng, kind):
    if kind == "intf":
        r = rng.random()
        if r < 0.1:
            return None
        return {"cells": int(rng.integers(0, 4))}
    r = rng.random()
    if r < 0.1:
        return None                               # default {"cells": 1}
    if r < 0.25:
        return {"faces": int(rng.integers(1, 4))}  # only face dofs: zero size on 0-d grids
    if r < 0.35:
        return {"nodes": int(rng.integers(1, 3))}
    d = {}
    for k in ("cells", "faces", "nodes"):
        if rng.random() < 0.75:
            d[k] = int(rng.integers(0, 4))
    return d


def _create_op(rng, p_intf=0.35):
    kind = "intf" if rng.random() < p_intf else "sd"
    return {"op": "create", "name": str(rng.choice(NAMES)), "kind": kind,
            "sel": int(rng.integers(1, 2**31)), "p": float(rng.choice([0.4, 0.7, 1.0])),
            "dof": _rand_dof(rng, kind)}


def _remove_op(rng):
    how = str(rng.choice(["name", "md", "md_fresh", "atomic", "mixed"],
                         p=[0.25, 0.2, 0.2, 0.25, 0.1]))
    return {"op": "remove", "how": how, "sel": int(rng.integers(1, 2**31))}


def _history(rng, length, force_rc):
    ops = [_create_op(rng) for _ in range(min(length, int(rng.integers(2, 5))))]
    while len(ops) < length:
        r = rng.random()
        if r < 0.55:
            ops.append(_create_op(rng))
        elif r < 0.9:
            ops.append(_remove_op(rng))
        elif r < 0.95:
            ops.append({"op": "create_dup", "sel": int(rng.integers(1, 2**31))})
        else:
            ops.append({"op": "remove_stale", "sel": int(rng.integers(1, 2**31))})
    if force_rc and length >= 3:
        k = int(rng.integers(1, length - 1))
        ops[k] = _remove_op(rng)
        ops[k + 1] = _create_op(rng)
    return ops


def generate(rng, tier, i):
    r = rng.random()
    for _ in range(3):
        if r < 0.70:
            recipe = gm.random_2d(rng, "cartesian", max_fracs=3)
        elif r < 0.85:
            recipe = gm.random_2d(rng, "simplex", max_fracs=3)
        else:
            recipe = gm.random_3d(rng, "cartesian", max_fracs=2)
        if recipe["fractures"] or rng.random() < 0.3:
            break
    length = int(rng.integers(2, 13))
    return {"mdg": recipe, "seed": int(rng.integers(1, 2**31)),
            "ops": _history(rng, length, bool(rng.random() < 0.6)),
            "sparse_observation": bool(rng.random() < 0.35)}


def floor(tier):
    F2 = gm.floor_recipes(dims=(2,), meshes=("cartesian",))
    X = F2[2]       # X-intersection: 2-d, two 1-d, one 0-d subdomain, four interfaces
    out = []

    def C(name, kind, dof, sel=1, p=1.0):
        return {"op": "create", "name": name, "kind": kind, "sel": sel, "p": p, "dof": dof}

    def R(how, sel=1):
        return {"op": "remove", "how": how, "sel": sel}

    # face-only variable on all subdomains (zero-size block on the 0-d grid), removal, re-creation
    out.append({"mdg": X, "seed": 11, "ops": [
        C("a", "sd", {"faces": 1}), C("b", "intf", {"cells": 2}), C("c", "sd", {"cells": 1, "nodes": 1}),
        R("name", 1), C("a", "sd", {"cells": 3}, sel=5, p=0.6), R("md", 2),
        C("b", "sd", None), R("atomic", 3), C("d", "intf", {"cells": 1}, sel=9, p=0.6)]})
    # the same name on disjoint grids through several calls, then removals of parts of it
    out.append({"mdg": X, "seed": 12, "ops": [
        C("a", "sd", {"cells": 1}, sel=3, p=0.3), C("a", "sd", {"cells": 2}, sel=4, p=0.6),
        C("a", "sd", {"nodes": 1}, sel=5, p=1.0), C("a", "intf", {"cells": 1}, sel=6, p=0.6),
        R("md_fresh", 7), C("b", "sd", {"cells": 0}), R("atomic", 8), C("a", "sd", {"faces": 2}),
        R("mixed", 9), C("c", "intf", {"cells": 3}), {"op": "create_dup", "sel": 3},
        {"op": "remove_stale", "sel": 4}]})
    # unfractured grid: a single domain
    out.append({"mdg": F2[0], "seed": 13, "ops": [
        C("a", "sd", {"cells": 1}), C("b", "sd", {"faces": 1, "nodes": 1}), R("name", 1),
        C("c", "sd", {"cells": 2}), C("a", "sd", {"nodes": 3})]})
    # same total size restored by a removal followed by a creation, observed only before
    # and after both (variables a, b, then a removed and c of the size of a created)
    for k, (sd, first) in enumerate([(21, "a"), (22, "b"), (23, "a"), (24, "a")]):
        out.append({"mdg": (F2[0], F2[1], X, F2[1])[k], "seed": sd,
                    "observe": [True, True, False, True, True], "ops": [
            C("a", "sd", {"cells": 1}), C("b", "sd", {"cells": 1}),
            dict(R("name", 1), name=first),
            C("c", "sd", {"cells": 1}), C("d", "sd", {"faces": 1})]})
    # remove everything, then start again
    out.append({"mdg": F2[1], "seed": 14, "ops": [
        C("a", "sd", {"cells": 1}), C("b", "intf", {"cells": 1}), R("name", 1), R("name", 2),
        C("b", "sd", {"cells": 1, "faces": 1}), C("a", "intf", {"cells": 2})]})
    # 3-D with a 0-d subdomain and 21 interfaces
    F3 = gm.floor_recipes(dims=(3,), meshes=("cartesian",))
    out.append({"mdg": F3[2], "seed": 15, "ops": [
        C("a", "sd", {"faces": 1}, sel=2, p=0.6), C("b", "intf", {"cells": 1}, sel=3, p=0.6),
        C("a", "sd", {"cells": 1}, sel=4, p=1.0), R("atomic", 5), C("c", "sd", {"nodes": 1}, sel=6, p=0.3),
        R("md_fresh", 7), C("b", "sd", {"cells": 2}, sel=8, p=0.6)]})
    # simplex
    S2 = gm.floor_recipes(dims=(2,), meshes=("simplex",))
    out.append({"mdg": S2[2], "seed": 16, "ops": [
        C("a", "sd", {"cells": 1, "faces": 1}), C("b", "intf", {"cells": 1}), R("md", 1),
        C("a", "sd", {"nodes": 2}, sel=3, p=0.6), R("name", 2), C("b", "sd", {"faces": 1})]})
    return out


# ---------------------------------------------------------------------------------- check
class _Abort(Exception):
    pass


class _Run:
    def __init__(self, case, mon):
        import porepy as pp
        self.pp = pp
        self.mon = mon
        self.mdg = gm.build(case["mdg"])
        self.es = pp.ad.EquationSystem(self.mdg)
        self.ref = RefLayout(self.mdg)
        self.calls = []       # per create call: (md variable returned, [entries])
        self.removed = []     # entries removed so far (stale objects)
        self.shadow = {}      # id(var) -> {"it": array|None, "ts": array|None}
        self.step = -1
        self.val_counter = 0

    # -- helpers
    def data(self, e):
        return (self.mdg.interface_data(e.grid) if e.kind == "intf"
                else self.mdg.subdomain_data(e.grid))

    def viol(self, mech, detail):
        d = {"step": self.step, "live": [(e.name, e.kind, e.gpos, e.seq, e.size)
                                         for e in self.ref.ordered()][:40]}
        d.update(detail)
        self.mon.violation(mech, d)
        raise _Abort()

    def selectors(self, entries, rng):
        """Express a set of live entries as a VariableList (names / md / atomic), every
        atomic variable named at most once; returns (list, actually selected entries)."""
        return express(self.es, self.ref, entries, rng, self.mon.count)

    # -- operations
    def do_create(self, op, call_index):
        rng = np.random.default_rng(op["sel"])
        kind = op["kind"]
        if kind == "intf" and not self.ref.intfs:
            kind = "sd"
        pool = self.ref.intfs if kind == "intf" else self.ref.sds
        name = op["name"]
        live_here = {id(e.grid) for e in self.ref.live if e.name == name}
        cand = [g for g in pool if id(g) not in live_here]
        chosen = [g for g in cand if rng.random() < op["p"]]
        rng.shuffle(chosen)
        dof = op["dof"]
        if dof is not None:
            dof = {k: int(v) for k, v in dof.items()}
            if kind == "intf":
                dof = {"cells": dof.get("cells", 0)}
        kw = {"subdomains": chosen} if kind == "sd" else {"interfaces": chosen}
        if dof is None:
            md = self.es.create_variables(name, **kw)
        else:
            md = self.es.create_variables(name, dict(dof), **kw)
        subs = list(md.sub_vars)
        if len(subs) != len(chosen) or any(v.domain is not g for v, g in zip(subs, chosen)):
            self.viol("create-returned-unexpected-subvariables",
                      {"n_sub": len(subs), "n_grids": len(chosen)})
        eff = dof if dof is not None else {"cells": 1}
        ents = [self.ref.add(v, name, g, eff, call=call_index) for v, g in zip(subs, chosen)]
        self.calls.append((md, ents))
        self.mon.count("op_create")
        self.mon.count("atomic_variables_created", len(ents))
        if kind == "intf":
            self.mon.count("interface_variables_created", len(ents))
        if ents and live_here:
            self.mon.count("same_name_on_disjoint_grids")
        if any(e.size == 0 for e in ents):
            self.mon.count("zero_size_blocks_seen", sum(e.size == 0 for e in ents))
        return len(ents)

    def do_remove(self, op):
        rng = np.random.default_rng(op["sel"])
        live = self.ref.live
        if not live:
            self.mon.count("op_remove_skipped_nothing_live")
            return 0
        how = op["how"]
        if how == "md":
            ok = [k for k, (md, ents) in enumerate(self.calls)
                  if ents and all(e in live for e in ents)]
            if not ok:
                how = "name"
            else:
                k = ok[int(rng.integers(0, len(ok)))]
                md, ents = self.calls[k]
                self.es.remove_variables([md])
                gone = self.ref.remove_where(lambda e: e in ents)
        if how == "name":
            names = sorted({e.name for e in live})
            nm = names[int(rng.integers(0, len(names)))]
            if op.get("name") in names:
                nm = op["name"]
            self.es.remove_variables([nm])
            gone = self.ref.remove_where(lambda e: e.name == nm)
        elif how == "md_fresh":
            e0 = live[int(rng.integers(0, len(live)))]
            grp = [e for e in live if e.name == e0.name and e.kind == e0.kind]
            rng.shuffle(grp)
            grp = grp[:int(rng.integers(1, len(grp) + 1))]
            md = self.es.md_variable(e0.name, [e.grid for e in grp])
            self.es.remove_variables([md])
            gone = self.ref.remove_where(lambda e: e in grp)
        elif how == "atomic":
            k = int(rng.integers(1, min(3, len(live)) + 1))
            idx = rng.choice(len(live), size=k, replace=False)
            grp = [live[int(j)] for j in idx]
            self.es.remove_variables([e.var for e in grp])
            gone = self.ref.remove_where(lambda e: e in grp)
        elif how == "mixed":
            k = int(rng.integers(1, min(5, len(live)) + 1))
            idx = rng.choice(len(live), size=k, replace=False)
            sel, grp = self.selectors([live[int(j)] for j in idx], rng)
            self.es.remove_variables(sel)
            gone = self.ref.remove_where(lambda e: e in grp)
        self.removed += gone
        for e in gone:
            self.shadow.pop(id(e.var), None)
        self.mon.count("op_remove")
        self.mon.count("op_remove_" + how)
        self.mon.count("atomic_variables_removed", len(gone))
        return len(gone)

    def do_create_dup(self, op):
        rng = np.random.default_rng(op["sel"])
        live = self.ref.live
        if not live:
            return
        e = live[int(rng.integers(0, len(live)))]
        pool = self.ref.intfs if e.kind == "intf" else self.ref.sds
        grids = [g for g in pool if rng.random() < 0.5 and g is not e.grid] + [e.grid]
        kw = {"subdomains": grids} if e.kind == "sd" else {"interfaces": grids}
        try:
            self.es.create_variables(e.name, {"cells": 1}, **kw)
        except KeyError:
            self.mon.count("duplicate_creation_rejected")
            return
        self.viol("create-duplicate-name-on-grid-accepted", {"name": e.name, "gpos": e.gpos})

    def do_remove_stale(self, op):
        rng = np.random.default_rng(op["sel"])
        if not self.removed:
            return
        e = self.removed[int(rng.integers(0, len(self.removed)))]
        try:
            self.es.remove_variables([e.var])
        except ValueError:
            self.mon.count("stale_removal_rejected")
            return
        self.mon.count("stale_removal_accepted")   # decided by the invariants that follow

    # -- invariant monitor
    def invariants(self, rng):
        pp, es, ref, mon = self.pp, self.es, self.ref, self.mon
        order = ref.ordered()
        blocks = ref.blocks()
        n = ref.num_dofs()
        mon.count("steps_checked")
        mon.measure("live_atomic_variables", len(order))
        mon.measure("num_dofs", n)
        got_n = es.num_dofs()
        if got_n != n:
            self.viol("num_dofs-differs-from-sum-of-live-blocks", {"got": got_n, "want": n})
        # every live variable's block
        for e in order:
            a, b = blocks[id(e.var)]
            d = es.dofs_of([e.var])
            mon.count("dofs_of_checked")
            if d.shape != (b - a,) or not np.array_equal(d, np.arange(a, b)):
                self.viol("dofs_of-not-the-expected-contiguous-block",
                          {"var": (e.name, e.kind, e.gpos, e.seq), "want": [a, b],
                           "got": d[:6].tolist() + (["..."] if d.size > 6 else [])})
        # union of all blocks = 0..n-1 (variables listed in random order)
        if order:
            perm = rng.permutation(len(order))
            d = es.dofs_of([order[int(k)].var for k in perm])
            want = np.concatenate([np.arange(*blocks[id(order[int(k)].var)]) for k in perm])
            if not np.array_equal(d, want) or not np.array_equal(np.sort(d), np.arange(n)):
                self.viol("dofs-of-all-variables-not-a-partition", {"n": n})
            # by name: all atomic variables with that name
            names = sorted({e.name for e in order})
            nm = names[int(rng.integers(0, len(names)))]
            d = np.sort(es.dofs_of([nm]))
            want = ref.indices([e for e in order if e.name == nm])
            mon.count("dofs_of_by_name_checked")
            if not np.array_equal(d, want):
                self.viol("dofs_of-by-name-not-union-of-blocks", {"name": nm})
        # identify_dof
        for e in order:
            a, b = blocks[id(e.var)]
            if b == a:
                continue
            probe = {a, b - 1, int(rng.integers(a, b))}
            for i in probe:
                v = es.identify_dof(i)
                mon.count("identify_dof_checked")
                if v is not e.var:
                    self.viol("identify_dof-wrong-owner",
                              {"dof": i, "want": (e.name, e.kind, e.gpos, e.seq),
                               "got": repr(v)[:120]})
        for i in (-1, n):
            mon.count("identify_dof_out_of_range_checked")
            try:
                es.identify_dof(i)
            except KeyError:
                continue
            self.viol("identify_dof-out-of-range-index-accepted", {"dof": i, "n": n})
        # projection: two random selections, plus the same two selections at EVERY quiescent
        # point (first and last live variable, given as variable objects) - a selection
        # requested before and after a removal / creation must follow the new layout
        for rep in range(4):
            if rep < 2:
                k = int(rng.integers(0, len(order) + 1)) if order else 0
                sub = [order[int(j)] for j in rng.choice(len(order), size=k, replace=False)] if k else []
                sel, grp = self.selectors(sub, rng) if sub else ([], [])
                arg = sel if (sel or rng.random() < 0.5) else None
            else:
                if not order:
                    continue
                grp = [order[0]] if rep == 2 else [order[-1]]
                arg = [e.var for e in grp]
                mon.count("projection_same_selection_every_step")
            P = es.projection_to(arg)
            idx = ref.indices(grp)
            mon.count("projection_checked")
            C = P.tocoo()
            ok = P.shape == (idx.size, n)
            if ok and idx.size:
                o = np.argsort(C.row, kind="stable")
                ok = (C.nnz == idx.size and np.array_equal(C.row[o], np.arange(idx.size))
                      and np.array_equal(C.col[o], idx) and np.all(C.data == 1.0))
            elif ok:
                ok = C.nnz == 0
            if not ok:
                self.viol("projection_to-not-the-sorted-selection-matrix",
                          {"shape": list(P.shape), "want_rows": int(idx.size), "n": n})
        # set / get round trip in global order
        self.roundtrip(rng)

    def fresh_values(self, size):
        v = self.val_counter + 1.0 + np.arange(size, dtype=float)
        self.val_counter += size + 7
        return v

    def roundtrip(self, rng):
        pp, es, ref, mon = self.pp, self.es, self.ref, self.mon
        order = ref.ordered()
        if not order:
            v = es.get_variable_values(None, iterate_index=0)
            if v.size != 0:
                self.viol("get_variable_values-nonempty-without-variables", {"size": int(v.size)})
            return
        storage = str(rng.choice(["it", "ts", "both"]))
        kw = {}
        if storage in ("it", "both"):
            kw["iterate_index"] = 0
        if storage in ("ts", "both"):
            kw["time_step_index"] = 0
        keys = [k for k in ("it", "ts") if storage in (k, "both")]
        use_all = rng.random() < 0.3
        if use_all:
            sub = list(order)
            sel, grp = (None, sub) if rng.random() < 0.5 else self.selectors(sub, rng)
        else:
            k = int(rng.integers(1, len(order) + 1))
            sub = [order[int(j)] for j in rng.choice(len(order), size=k, replace=False)]
            sel, grp = self.selectors(sub, rng)
        g_order = ref.global_order(grp)
        parts = {id(e.var): self.fresh_values(e.size) for e in g_order}
        vals = np.concatenate([parts[id(e.var)] for e in g_order]) if g_order else np.zeros(0)
        es.set_variable_values(vals.copy(), sel, **kw)
        for e in g_order:
            sh = self.shadow.setdefault(id(e.var), {"it": None, "ts": None})
            for k in keys:
                sh[k] = parts[id(e.var)].copy()
        mon.count("roundtrip_checked")
        self.compare_storage("set-values-not-stored-in-the-variables-own-block", keys)
        # read back through the system, selection expressed differently
        sel2, _ = (None, None) if (use_all and rng.random() < 0.5) else self.selectors(grp, rng)
        for k in keys:
            got = es.get_variable_values(
                sel2, **({"iterate_index": 0} if k == "it" else {"time_step_index": 0}))
            if got.shape != vals.shape or not np.array_equal(got, vals):
                self.viol("get-after-set-differs-in-global-order",
                          {"storage": k, "n": int(vals.size), "n_got": int(got.size)})
        # additive write
        if rng.random() < 0.6:
            dparts = {id(e.var): self.fresh_values(e.size) for e in g_order}
            dv = np.concatenate([dparts[id(e.var)] for e in g_order]) if g_order else np.zeros(0)
            sel3, _ = (sel, None) if sel is None else self.selectors(grp, rng)
            es.set_variable_values(dv.copy(), sel3, additive=True, **kw)
            for e in g_order:
                for k in keys:
                    self.shadow[id(e.var)][k] = self.shadow[id(e.var)][k] + dparts[id(e.var)]
            mon.count("additive_checked")
            self.compare_storage("additive-write-not-added-to-the-variables-own-block", keys)
            for k in keys:
                got = es.get_variable_values(
                    sel2, **({"iterate_index": 0} if k == "it" else {"time_step_index": 0}))
                if not np.array_equal(got, vals + dv):
                    self.viol("get-after-additive-set-differs", {"storage": k})
        # the full vector, if every live variable has been written in that storage
        for k in ("it", "ts"):
            if all(id(e.var) in self.shadow and self.shadow[id(e.var)][k] is not None
                   for e in order):
                got = es.get_variable_values(
                    None, **({"iterate_index": 0} if k == "it" else {"time_step_index": 0}))
                want = np.concatenate([self.shadow[id(e.var)][k] for e in order])
                mon.count("full_vector_checked")
                if got.shape != want.shape or not np.array_equal(got, want):
                    self.viol("full-vector-not-in-global-block-order", {"storage": k})

    def compare_storage(self, mech, keys):
        """Every live variable that has been written: its own data dictionary holds the
        expected values (also the variables NOT selected by the last write)."""
        pp = self.pp
        for e in self.ref.live:
            sh = self.shadow.get(id(e.var))
            if sh is None:
                continue
            for k in ("it", "ts"):
                if sh[k] is None:
                    continue
                kw = {"iterate_index": 0} if k == "it" else {"time_step_index": 0}
                got = pp.get_solution_values(e.name, self.data(e), **kw)
                self.mon.count("storage_blocks_compared")
                if got.shape != sh[k].shape or not np.array_equal(got, sh[k]):
                    self.viol(mech, {"var": (e.name, e.kind, e.gpos, e.seq), "storage": k,
                                     "got": got[:4].tolist(), "want": sh[k][:4].tolist()})


def check(case, mon):
    run = _Run(case, mon)
    r = case["mdg"]
    mon.klass(f"{r['dim']}d-{r['mesh']}-{len(r['fractures'])}frac")
    mon.count("domains_in_mdg", len(run.ref.domains))
    removed_before = False
    rc = False
    n_calls = 0
    try:
        run.step = -1
        run.invariants(np.random.default_rng([case["seed"], 0]))     # empty system
        for k, op in enumerate(case["ops"]):
            run.step = k
            if op["op"] == "create":
                made = run.do_create(op, n_calls)
                n_calls += 1
                if made and removed_before:
                    rc = True
            elif op["op"] == "remove":
                if run.do_remove(op):
                    removed_before = True
            elif op["op"] == "create_dup":
                run.do_create_dup(op)
            elif op["op"] == "remove_stale":
                run.do_remove_stale(op)
            # the monitor itself calls the code under test (and so refreshes anything that
            # code may remember): in a third of the histories some quiescent points are
            # left unobserved, so that e.g. a removal followed by a creation is seen only
            # from before and after both
            skip = case.get("sparse_observation") and k + 1 < len(case["ops"]) and \
                np.random.default_rng([case["seed"], 7, k]).random() < 0.5
            if case.get("observe") is not None:
                skip = not case["observe"][k]
            if skip:
                mon.count("quiescent_points_left_unobserved")
                continue
            run.invariants(np.random.default_rng([case["seed"], k + 1]))
    except _Abort:
        pass
    mon.nontrivial(rc)
    if rc:
        mon.count("histories_removal_then_creation")
        mon.klass("removal-then-creation")
    else:
        mon.klass("no-removal-before-creation")


def warmup():
    warm_grids()
