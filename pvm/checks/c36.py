"""C36 Array slicers act exactly like their projection matrices.

Monitor: for a generated chain of 1-3 composable ``ArraySlicer`` specifications the
explicit dense projection matrices ``P`` (``range_size x domain_size``, ``P[r_k, d_k] = 1``)
are built by the harness.  Every slicer of the chain is applied to every operand type
(1-D / 2-D dense, csr / csc / coo / csr_array, AdArray, float, int), transposed, with
pending left operands (``a*S@x``, ``a/S@x``, ``a+S@x``, ``a-S@x``, ``a**S@x`` with ``a`` a
float or an AdArray, ``A@S@x`` with ``A`` sparse) and as chains ``S0@S1@S2@x``; each result
is compared with the dense reference ``a o (P@x)`` (dense dual numbers for AdArrays).

Fresh slicers are built for every expression (a slicer that was the right operand of a chain
keeps its pending operand - documented, DESIGN section 3).
"""
from __future__ import annotations

import numpy as np
import scipy.sparse as sps

PROP = "C36"
N = {"quick": 600, "thorough": 20000}
WORKERS = {"quick": 4, "thorough": 16}
TIMEOUT = {"quick": 300, "thorough": 3000}
CASE_TIMEOUT = 300.0
RULE = ("chains of 1-3 composable slicers; each slicer is a permutation, an injection into a "
        "larger range, a restriction (domain indices only: the onto fast path), a partial "
        "injective map or a range-only prolongation, with explicit or implicit range/domain "
        "sizes (sizes 1-9, 150-400 in 2 % of the thorough tier), optionally transposed inside the "
        "chain; operands carry distinct random values; non-trivial = the first slicer moves "
        "at least 2 entries and is not the identity; distinct = hash of the index sets, "
        "sizes and data seed")
_F = "numerics/linalg/matrix_operations.py"
REACH = [(_F, "ArraySlicer.__matmul__"), (_F, "ArraySlicer._slice_vector"),
         (_F, "ArraySlicer._slice_matrix"), (_F, "ArraySlicer.transpose"),
         (_F, "ArraySlicer.__rmatmul__"), (_F, "ArraySlicer.__rmul__"),
         (_F, "ArraySlicer.__rtruediv__"), (_F, "ArraySlicer.__rpow__"),
         (_F, "ArraySlicer.__radd__"), (_F, "ArraySlicer.__rsub__"),
         (_F, "ArraySlicer.copy")]
REACH_LINES = [
    (_F, "return x[self._domain_indices]"),                 # onto fast path, vectors
    (_F, "return A[self._domain_indices]"),                 # onto fast path, matrices
    (_F, "vec = np.zeros((self._range_size, x.shape[1]))"),  # 2-D dense
    (_F, "tmp = np.full(self._domain_size, x)"),            # scalar broadcast
    (_F, "x._pending_operand = self"),                      # slicer @ slicer
]
REQUIRED = {"slicers_built": 100, "apply_1d": 20, "apply_2d": 20, "apply_sparse": 60,
            "apply_ad": 20, "apply_scalar": 20, "apply_transposed": 40, "apply_copy": 20,
            "pending_float": 50, "pending_ad": 50, "pending_sparse_matmul": 40,
            "pending_two_alive": 50, "chains_len2": 5, "chains_len3": 5, "chains_with_pending_left": 5,
            "onto_slicers": 10, "explicit_domain_size": 10, "implicit_sizes": 10}
ASSUMPTIONS = [
    "index maps are injective on both sides (the statement's quantifier)",
    "a/(S@x) is asserted only when every range row is hit (no division by the zero fill)",
    "empty index sets only with explicit sizes (sizes cannot be inferred from nothing)",
    "numpy arrays are never the Python-level left operand of a slicer (documented)",
]
LEVEL_TEXT = ("Every generated slicer (and chain, transpose, pending left operand) is compared "
              "with the explicit dense projection matrix on all supported operand types.")
TECHNIQUE = "dense projection-matrix reference, dense dual numbers for AdArray operands"
TOL = 1e-12


# --------------------------------------------------------------------------- cases
def _spec(dom, rng, rs, ds, t=False):
    return {"dom": None if dom is None else [int(v) for v in dom],
            "rng": None if rng is None else [int(v) for v in rng],
            "rs": None if rs is None else int(rs), "ds": None if ds is None else int(ds),
            "T": bool(t)}


def floor(tier):
    out = []
    # the documented examples of the class docstring (operand size 4)
    out.append({"chain": [_spec([0, 2], None, None, 4)], "seed": 1, "ncol": 3})
    out.append({"chain": [_spec(None, [0, 2, 4, 1], None, None)], "seed": 2, "ncol": 3})
    out.append({"chain": [_spec([0, 2, 3], [0, 4, 1], None, 4)], "seed": 3, "ncol": 2})
    out.append({"chain": [_spec([0, 2, 3], [0, 4, 1], 7, 4)], "seed": 4, "ncol": 2})
    out.append({"chain": [_spec([0, 2, 3], None, 7, 4)], "seed": 5, "ncol": 2})
    out.append({"chain": [_spec(None, [0, 1, 3], 7, None)], "seed": 6, "ncol": 1})
    # test-suite index sets, both orders non-monotone, implicit sizes (operand longer than
    # the implied domain size)
    out.append({"chain": [_spec([2, 3, 0], [3, 0, 1], None, None)], "seed": 7, "ncol": 4,
                "operand_size": 6})
    out.append({"chain": [_spec([3, 1], [0, 4], 6, 6)], "seed": 8, "ncol": 4})
    # identity, single entry, full permutation, reversed
    out.append({"chain": [_spec([0, 1, 2], [0, 1, 2], 3, 3)], "seed": 9, "ncol": 2})
    out.append({"chain": [_spec([0], [0], 1, 1)], "seed": 10, "ncol": 1})
    out.append({"chain": [_spec([4, 3, 2, 1, 0], None, None, 5)], "seed": 11, "ncol": 3})
    out.append({"chain": [_spec([1, 3, 0, 2, 4], [2, 0, 4, 1, 3], 5, 5)], "seed": 12, "ncol": 5})
    # long equally spaced index sets: reversal of 20 entries, descending stride 2 down to 0
    out.append({"chain": [_spec(list(range(19, -1, -1)), None, None, 20)], "seed": 18, "ncol": 2})
    out.append({"chain": [_spec(list(range(38, -1, -2)), None, None, 40)], "seed": 19, "ncol": 2})
    out.append({"chain": [_spec(list(range(0, 48, 3)), None, None, 50)], "seed": 20, "ncol": 1})
    out.append({"chain": [_spec(list(range(24, 0, -1)), list(range(24)), 24, 25)], "seed": 21,
                "ncol": 2})
    # empty index sets with explicit sizes
    out.append({"chain": [_spec([], [], 3, 4)], "seed": 13, "ncol": 2})
    # chains: restriction of a prolongation, three slicers, with transposes
    out.append({"chain": [_spec([0, 2], None, None, 6),
                          _spec([3, 1, 0], [0, 3, 2], 6, 5)], "seed": 14, "ncol": 3})
    out.append({"chain": [_spec([1, 0], [0, 2], 3, 2), _spec([4, 0], None, None, 5),
                          _spec([0, 1, 2], [4, 2, 0], 5, 3)], "seed": 15, "ncol": 2})
    out.append({"chain": [_spec([0, 1, 2], [4, 2, 0], 5, 3, True),
                          _spec([2, 0, 1], [1, 3, 4], 5, 4)], "seed": 16, "ncol": 2})
    out.append({"chain": [_spec([2, 0], None, None, 3), _spec([0, 2, 1], [1, 2, 0], 3, 3),
                          _spec([0, 1, 2], [4, 2, 0], 5, 3, True)], "seed": 17, "ncol": 3})
    return out


def _random_spec(rng, ds, big=False):
    """A slicer specification acting on a domain of size ``ds``; returns (spec, range size)."""
    kind = rng.choice(["perm", "restrict", "inject", "partial", "range_only", "onto_sorted",
                       "progression"])
    if kind == "progression" and ds < 4:
        kind = "perm"
    if kind == "progression":
        # equally spaced domain indices (a vector component in natural or reversed cell
        # order, a reversal permutation): ascending or descending, any stride, reaching the
        # first / last entry or not - structured index sets invite slice-based shortcuts
        step = int(rng.integers(1, max(2, ds // 4) + 1))
        m = int(rng.integers(2, (ds - 1) // step + 2))
        first = int(rng.integers(0, ds - (m - 1) * step))
        if rng.random() < 0.6:
            first = 0 if rng.random() < 0.5 else ds - 1 - (m - 1) * step
        dom = first + step * np.arange(m)
        if rng.random() < 0.6:
            dom = dom[::-1]
        return _spec(dom, None, None, _maybe(rng, ds, dom)), m
    if kind == "perm":
        dom = rng.permutation(ds)
        rg = rng.permutation(ds)
        rs = ds
        if rng.random() < 0.3:
            return _spec(dom, None, None, _maybe(rng, ds, dom)), ds
        return _spec(dom, rg, _maybe(rng, rs, rg), _maybe(rng, ds, dom)), rs
    if kind in ("restrict", "onto_sorted"):
        m = int(rng.integers(1, ds + 1))
        dom = rng.choice(ds, size=m, replace=False)
        if kind == "onto_sorted":
            dom = np.sort(dom)
        if rng.random() < 0.7:     # onto fast path
            return _spec(dom, None, None, _maybe(rng, ds, dom)), m
        rs = m + int(rng.integers(0, 3))
        return _spec(dom, None, rs, _maybe(rng, ds, dom)), rs
    if kind == "inject":
        rs = ds + int(rng.integers(1, 4))
        rg = rng.choice(rs, size=ds, replace=False)
        if rng.random() < 0.5:
            return _spec(None, rg, _maybe(rng, rs, rg), None), (rs if True else rs)
        dom = rng.permutation(ds)
        return _spec(dom, rg, _maybe(rng, rs, rg), _maybe(rng, ds, dom)), rs
    if kind == "range_only":
        # domain implied as arange(len(rg)) -> needs ds == len(rg)
        rs = ds + int(rng.integers(0, 4))
        rg = rng.choice(rs, size=ds, replace=False)
        return _spec(None, rg, _maybe(rng, rs, rg), None), rs
    # partial injective map
    m = int(rng.integers(1, ds + 1))
    rs = int(rng.integers(m, m + 4))
    dom = rng.choice(ds, size=m, replace=False)
    rg = rng.choice(rs, size=m, replace=False)
    return _spec(dom, rg, _maybe(rng, rs, rg), _maybe(rng, ds, dom)), rs


def _maybe(rng, size, idx):
    """Explicit size, or None when the implicit size (max index + 1) is the same."""
    if len(idx) and int(np.max(idx)) + 1 == size and rng.random() < 0.5:
        return None
    return int(size)


def generate(rng, tier, i):
    nch = int(rng.choice([1, 1, 2, 3]))
    big = tier == "thorough" and rng.random() < 0.02
    ds = int(rng.integers(150, 400)) if big else int(rng.integers(1, 10))
    chain = []
    # chain[-1] acts first:  S0 @ S1 @ S2 @ x
    size = ds
    for _ in range(nch):
        s, rs = _random_spec(rng, size)
        # resolve implicit range size for the next slicer of the chain
        if s["rs"] is None:
            rs_eff = (max(s["rng"]) + 1) if s["rng"] is not None else len(s["dom"])
        else:
            rs_eff = s["rs"]
        chain.insert(0, s)
        size = rs_eff
    # optionally replace one slicer by the transpose of its transpose-specification
    if rng.random() < 0.25:
        k = int(rng.integers(0, nch))
        s = chain[k]
        if s["dom"] is not None and s["rng"] is not None and s["rs"] is not None \
                and s["ds"] is not None:
            chain[k] = _spec(s["rng"], s["dom"], s["ds"], s["rs"], True)
    return {"chain": chain, "seed": int(rng.integers(1, 2**31)),
            "ncol": int(rng.integers(1, 6))}


# --------------------------------------------------------------------------- helpers
def _arr(v):
    return None if v is None else np.asarray(v, dtype=int)


def _mk(spec):
    """Fresh real slicer from a specification."""
    from porepy.numerics.linalg.matrix_operations import ArraySlicer

    s = ArraySlicer(_arr(spec["dom"]), _arr(spec["rng"]), spec["rs"], spec["ds"])
    if spec.get("T"):
        s = s.T
    return s


def _ref(spec, operand_size=None):
    """Dense projection matrix of a specification (harness arithmetic only)."""
    dom, rg = _arr(spec["dom"]), _arr(spec["rng"])
    if dom is None:
        dom = np.arange(rg.size)
    if rg is None:
        rg = np.arange(dom.size)
    rs = spec["rs"] if spec["rs"] is not None else (int(rg.max()) + 1)
    ds = spec["ds"] if spec["ds"] is not None else (int(dom.max()) + 1)
    if operand_size is not None and spec["ds"] is None:
        ds = max(ds, operand_size)
    P = np.zeros((rs, ds))
    P[rg, dom] = 1.0
    return P.T.copy() if spec.get("T") else P


class _Dual:
    """Dense dual number (value, Jacobian) - the AdArray reference."""

    def __init__(self, v, J):
        self.v = np.asarray(v, dtype=float)
        self.J = np.asarray(J, dtype=float)


def _lift(x, ncols):
    if isinstance(x, _Dual):
        return x
    x = np.asarray(x, dtype=float)
    return _Dual(x, np.zeros((x.size, ncols)))


def _dual_op(op, a, y, ncols):
    """a <op> y elementwise for dense duals / arrays / floats; returns _Dual."""
    y = _lift(y, ncols)
    if not isinstance(a, _Dual):
        a = _Dual(np.full(y.v.shape, float(a)), np.zeros_like(y.J))
    av, aJ, yv, yJ = a.v, a.J, y.v, y.J
    c = lambda w: w[:, None]  # noqa: E731
    if op == "+":
        return _Dual(av + yv, aJ + yJ)
    if op == "-":
        return _Dual(av - yv, aJ - yJ)
    if op == "*":
        return _Dual(av * yv, c(yv) * aJ + c(av) * yJ)
    if op == "/":
        return _Dual(av / yv, aJ / c(yv) - c(av / yv**2) * yJ)
    if op == "**":
        val = av**yv
        return _Dual(val, c(yv * av ** (yv - 1.0)) * aJ + c(val * np.log(av)) * yJ)
    raise KeyError(op)


def _cmp(mon, name, got, want, mech, detail=None):
    """Compare a real result with the dense reference (arrays, sparse, AdArray/_Dual)."""
    import porepy as pp

    if isinstance(want, _Dual):
        if not isinstance(got, pp.ad.AdArray):
            mon.violation(mech, {"what": "result is not an AdArray", "form": name,
                                 "type": type(got).__name__, "detail": detail})
            return
        mon.close("res_" + name + "_val", got.val, want.v, TOL, mech, detail=(name, detail))
        mon.close("res_" + name + "_jac", got.jac.toarray(), want.J, TOL, mech,
                  detail=(name, "jac", detail))
        return
    if sps.issparse(got):
        got = got.toarray()
    elif isinstance(got, pp.ad.AdArray):
        mon.violation(mech, {"what": "unexpected AdArray result", "form": name,
                             "detail": detail})
        return
    mon.close("res_" + name, np.asarray(got, dtype=float), want, TOL, mech,
              detail=(name, detail))


# --------------------------------------------------------------------------- check
def check(case, mon):
    import porepy as pp

    chain = case["chain"]
    drng = np.random.default_rng(int(case["seed"]))
    ncol = int(case["ncol"])
    nch = len(chain)
    mon.klass(f"chain{nch}")

    # operand size of each slicer: the next one's range (or the data size for the last)
    Pl = [None] * nch
    last = chain[-1]
    P_last0 = _ref(last)
    n_in = int(case.get("operand_size") or P_last0.shape[1])
    for k in range(nch - 1, -1, -1):
        Pl[k] = _ref(chain[k], n_in if k == nch - 1 else None)
    for k in range(nch - 1):
        if Pl[k].shape[1] != Pl[k + 1].shape[0]:
            mon.inconclusive(f"generator produced a non-composable chain at {k}")
            return

    def data(n):
        """Operands of length n with distinct values away from 0."""
        x = drng.permutation(np.arange(1, n + 1)) + drng.uniform(0.1, 0.9, n)
        X2 = drng.uniform(1.0, 2.0, (n, ncol)) + np.arange(n)[:, None]
        J = drng.uniform(0.5, 1.5, (n, ncol)) * (drng.random((n, ncol)) < 0.6)
        J[drng.integers(0, n)] = 0.0          # an empty row
        return x, X2, J

    # ---------------------------------------------------------- every slicer on its own
    for k, spec in enumerate(chain):
        P = Pl[k]
        rs, ds = P.shape
        x, X2, J = data(ds)
        mon.count("slicers_built")
        S = _mk(spec)
        if S.range_size != rs or (spec["ds"] is not None and S.domain_size != ds):
            mon.violation("sizes-differ-from-projection-matrix",
                          {"slicer": [int(S.range_size), int(S.domain_size)], "P": [rs, ds],
                           "spec": spec})
            return
        onto = bool(S._is_onto)
        mon.count("onto_slicers" if onto else "general_slicers")
        mon.count("explicit_domain_size" if spec["ds"] is not None else "implicit_sizes")
        if spec.get("T"):
            mon.count("apply_transposed")
            mon.klass("transposed-in-chain")
        ident = rs == ds and np.array_equal(P, np.eye(rs))
        if k == 0:
            mon.nontrivial(int(P.sum()) >= 2 and not ident)
            mon.klass(("onto" if onto else "general") + ("+T" if spec.get("T") else "")
                      + ("+big" if ds > 50 else ""))
        tag = {"slicer": k, "spec": spec if ds <= 12 else "big"}

        # operand types
        _cmp(mon, "1d", _mk(spec) @ x, P @ x, "slice-1d-vector", tag)
        mon.count("apply_1d")
        _cmp(mon, "2d", _mk(spec) @ X2, P @ X2, "slice-2d-dense", tag)
        mon.count("apply_2d")
        for fmt, conv in (("csr", sps.csr_matrix), ("csc", sps.csc_matrix),
                          ("coo", sps.coo_matrix), ("csr_array", sps.csr_array)):
            A = conv(J)
            r = _mk(spec) @ A
            if not sps.issparse(r):
                mon.violation("slice-sparse:" + fmt, {"what": "result not sparse", **tag})
            else:
                _cmp(mon, "sparse", r, P @ J, "slice-sparse:" + fmt, tag)
            mon.count("apply_sparse")
        ad = pp.ad.AdArray(x.copy(), sps.csr_matrix(J))
        _cmp(mon, "ad", _mk(spec) @ ad, _Dual(P @ x, P @ J), "slice-adarray", tag)
        mon.count("apply_ad")
        for sc in (2.5, 3):
            if spec["ds"] is None and P.shape[1] != _ref(spec).shape[1]:
                mon.excluded("scalar operand with an operand longer than the implied domain")
                continue
            _cmp(mon, "scalar", _mk(spec) @ sc, P @ np.full(ds, float(sc)),
                 "slice-scalar-broadcast", tag)
            mon.count("apply_scalar")

        # copy() acts like the same matrix, with and without a pending left operand
        _cmp(mon, "copy", _mk(spec).copy() @ X2, P @ X2, "copy-of-slicer", tag)
        a_c = float(drng.uniform(1.2, 2.0))
        _cmp(mon, "copy_pending", (a_c * _mk(spec)).copy() @ x, a_c * (P @ x),
             "copy-of-slicer-with-pending-operand", tag)
        mon.count("apply_copy", 2)

        # transpose: S.T <-> P^T  (applied to data living in the range)
        if spec["ds"] is not None or P.shape[1] == _ref(spec).shape[1]:
            y, Y2, JY = data(rs)
            St = _mk(spec).T
            if St.range_size != ds or St.domain_size != rs:
                mon.violation("transpose-sizes", {"got": [int(St.range_size),
                                                          int(St.domain_size)],
                                                  "want": [ds, rs], **tag})
            else:
                _cmp(mon, "T_1d", _mk(spec).T @ y, P.T @ y, "transpose-1d", tag)
                _cmp(mon, "T_2d", _mk(spec).T @ Y2, P.T @ Y2, "transpose-2d", tag)
                _cmp(mon, "T_sparse", _mk(spec).T @ sps.csr_matrix(JY), P.T @ JY,
                     "transpose-sparse", tag)
                _cmp(mon, "T_ad", _mk(spec).T @ pp.ad.AdArray(y.copy(), sps.csc_matrix(JY)),
                     _Dual(P.T @ y, P.T @ JY), "transpose-adarray", tag)
                _cmp(mon, "T_scalar", _mk(spec).T @ 1.5, P.T @ np.full(rs, 1.5),
                     "transpose-scalar", tag)
                _cmp(mon, "TT_1d", _mk(spec).T.T @ x, P @ x, "double-transpose", tag)
                mon.count("apply_transposed", 6)
        else:
            mon.excluded("transpose with an operand longer than the implied domain")

        # pending left operands
        full_range = bool(np.all(P.sum(axis=1) == 1))
        a_f = float(drng.uniform(1.2, 2.0))
        a_ad_v = drng.uniform(1.2, 2.0, rs)
        a_ad_J = drng.uniform(0.5, 1.5, (rs, ncol)) * (drng.random((rs, ncol)) < 0.7)
        xs = x / (1.0 + np.max(x)) * 2.0 + 0.25       # modest exponents / divisors
        ad_s = pp.ad.AdArray(xs.copy(), sps.csr_matrix(J))
        for op in ("*", "/", "+", "-", "**"):
            if op == "/" and not full_range:
                mon.excluded("a/(S@x) with rows outside the range (division by zero fill)")
                continue
            for aname in ("float", "ad"):
                for tname in ("1d", "ad", "scalar"):
                    if tname == "scalar" and spec["ds"] is None \
                            and P.shape[1] != _ref(spec).shape[1]:
                        continue
                    Sx = _mk(spec)  # noqa: F841  (used in eval)
                    if aname == "float":
                        a = a_f
                        a_ref = a_f
                    else:
                        a = pp.ad.AdArray(a_ad_v.copy(), sps.csr_matrix(a_ad_J))
                        a_ref = _Dual(a_ad_v, a_ad_J)
                    if tname == "1d":
                        t, t_ref = xs.copy(), P @ xs
                    elif tname == "ad":
                        t, t_ref = ad_s, _Dual(P @ xs, P @ J)
                    else:
                        t, t_ref = 1.75, P @ np.full(ds, 1.75)
                    if aname == "ad" and op in "+-":
                        # AdArray.__add__/__sub__ reject the slicer themselves, the
                        # slicer's reflected method is never called (class docstring: the
                        # delayed evaluation "only works if __rmul__ etc. are called in
                        # the first place")
                        try:
                            eval(f"(a {op} Sx)")
                        except ValueError:
                            mon.excluded("AdArray +/- slicer is rejected by AdArray itself")
                            continue
                    got = eval(f"(a {op} Sx) @ t")
                    want = _dual_op(op, a_ref, t_ref, ncol)
                    if aname == "float" and tname != "ad":
                        want = want.v
                    _cmp(mon, f"pending_{aname}", got, want,
                         f"pending-left-operand:{op}", {"a": aname, "target": tname, **tag})
                    mon.count("pending_" + aname)
                    mon.count("pending_op_" + {"*": "mul", "/": "div", "+": "add",
                                               "-": "sub", "**": "pow"}[op])
        # float * S @ sparse
        got = (a_f * _mk(spec)) @ sps.csr_matrix(J)
        _cmp(mon, "pending_float_sparse", got, a_f * (P @ J), "pending-left-operand:*",
             {"a": "float", "target": "sparse", **tag})
        mon.count("pending_float")
        # A @ S @ target with A sparse
        nrow = int(drng.integers(1, 5))
        Ad = drng.uniform(0.5, 1.5, (nrow, rs)) * (drng.random((nrow, rs)) < 0.7)
        for conv in (sps.csr_matrix, sps.csc_matrix, sps.csr_array):
            A = conv(Ad)
            for tname in ("1d", "2d", "sparse", "ad", "scalar"):
                if tname == "scalar" and spec["ds"] is None \
                        and P.shape[1] != _ref(spec).shape[1]:
                    continue
                Sx = _mk(spec)
                if tname == "1d":
                    got, want = A @ Sx @ x, Ad @ (P @ x)
                elif tname == "2d":
                    got, want = A @ Sx @ X2, Ad @ (P @ X2)
                elif tname == "sparse":
                    got, want = A @ Sx @ sps.csc_matrix(J), Ad @ (P @ J)
                elif tname == "ad":
                    got = A @ Sx @ pp.ad.AdArray(x.copy(), sps.csr_matrix(J))
                    want = _Dual(Ad @ (P @ x), Ad @ (P @ J))
                else:
                    got, want = A @ Sx @ 2.0, Ad @ (P @ np.full(ds, 2.0))
                _cmp(mon, "pending_matmul", got, want, "pending-left-operand:@",
                     {"target": tname, **tag})
                mon.count("pending_sparse_matmul")

        # two delayed expressions formed from ONE slicer object, both alive, applied
        # afterwards in reverse order of creation: each acts like its own explicit matrix
        # and the slicer itself is left untouched
        Sx = _mk(spec)
        b1, b2 = 1.5, 2.25
        Ad2 = drng.uniform(0.5, 1.5, (nrow, rs)) * (drng.random((nrow, rs)) < 0.7)
        e1, e2 = b1 * Sx, b2 * Sx
        m1, m2 = sps.csr_matrix(Ad) @ Sx, sps.csr_matrix(Ad2) @ Sx
        two = "pending-left-operand:two-alive-on-one-slicer"
        _cmp(mon, "pending_two_alive", m2 @ x, Ad2 @ (P @ x), two, {"expr": "A2@S", **tag})
        _cmp(mon, "pending_two_alive", m1 @ x, Ad @ (P @ x), two, {"expr": "A1@S", **tag})
        _cmp(mon, "pending_two_alive", e2 @ x, b2 * (P @ x), two, {"expr": "b2*S", **tag})
        _cmp(mon, "pending_two_alive", e1 @ x, b1 * (P @ x), two, {"expr": "b1*S", **tag})
        _cmp(mon, "pending_two_alive", Sx @ x, P @ x, two, {"expr": "S", **tag})
        mon.count("pending_two_alive", 5)
        # the transpose of one slicer object used as right factor of a slicer-slicer
        # product and afterwards on its own: S.T taken later is the plain transpose again
        if not (spec["ds"] is None and P.shape[1] != _ref(spec).shape[1]):
            Sy = _mk(spec)
            yv = drng.uniform(0.5, 1.5, rs)
            prod = Sy @ Sy.T
            tr = "transpose-reused-after-being-right-factor-of-a-chain"
            _cmp(mon, "transpose_reuse", prod @ yv, P @ (P.T @ yv), tr,
                 {"expr": "S@S.T", **tag})
            _cmp(mon, "transpose_reuse", Sy.T @ yv, P.T @ yv, tr, {"expr": "S.T after", **tag})
            _cmp(mon, "transpose_reuse", Sy @ x, P @ x, tr, {"expr": "S after", **tag})
            mon.count("transpose_reuse", 3)

    # ---------------------------------------------------------- the chain
    if nch >= 2:
        Pc = Pl[0]
        for k in range(1, nch):
            Pc = Pc @ Pl[k]
        ds = Pl[-1].shape[1]
        x, X2, J = data(ds)
        mon.count(f"chains_len{nch}")
        tag = {"chain": chain if ds <= 12 else "big"}

        def fresh():
            return [_mk(s) for s in chain]

        for tname in ("1d", "2d", "sparse", "ad", "scalar"):
            if tname == "scalar" and chain[-1]["ds"] is None \
                    and Pl[-1].shape[1] != _ref(chain[-1]).shape[1]:
                continue
            Ss = fresh()
            if tname == "1d":
                t, want = x, Pc @ x
            elif tname == "2d":
                t, want = X2, Pc @ X2
            elif tname == "sparse":
                t, want = sps.csr_matrix(J), Pc @ J
            elif tname == "ad":
                t, want = pp.ad.AdArray(x.copy(), sps.csr_matrix(J)), _Dual(Pc @ x, Pc @ J)
            else:
                t, want = 2.0, Pc @ np.full(ds, 2.0)
            if nch == 2:
                got = Ss[0] @ Ss[1] @ t
            else:
                got = Ss[0] @ Ss[1] @ Ss[2] @ t
            _cmp(mon, "chain", got, want, f"chain-of-{nch}", {"target": tname, **tag})
            mon.count("chain_applications")
        # a copy of the chained slicer keeps the chain
        Ss = fresh()
        Sc = (Ss[0] @ Ss[1]) if nch == 2 else (Ss[0] @ Ss[1] @ Ss[2])
        _cmp(mon, "chain_copy", Sc.copy() @ x, Pc @ x, "copy-of-slicer-with-pending-operand",
             {"target": "copy of chain", **tag})
        # explicitly parenthesised from the right gives the same
        Ss = fresh()
        got = Ss[0] @ (Ss[1] @ x) if nch == 2 else Ss[0] @ (Ss[1] @ (Ss[2] @ x))
        _cmp(mon, "chain_paren", got, Pc @ x, f"chain-of-{nch}", {"target": "paren", **tag})
        # pending left operand in front of a chain
        rs0 = Pl[0].shape[0]
        a_f = float(drng.uniform(1.2, 2.0))
        Ad = drng.uniform(0.5, 1.5, (2, rs0)) * (drng.random((2, rs0)) < 0.8)
        a_v = drng.uniform(1.2, 2.0, rs0)
        a_J = drng.uniform(0.5, 1.5, (rs0, ncol))
        for form in ("float*", "sparse@", "ad*", "float+"):
            Ss = fresh()
            if form == "float*":
                got = (a_f * Ss[0]) @ Ss[1] @ x if nch == 2 else (a_f * Ss[0]) @ Ss[1] @ Ss[2] @ x
                want = a_f * (Pc @ x)
            elif form == "float+":
                got = (a_f + Ss[0]) @ Ss[1] @ x if nch == 2 else (a_f + Ss[0]) @ Ss[1] @ Ss[2] @ x
                want = a_f + (Pc @ x)
            elif form == "sparse@":
                A = sps.csr_matrix(Ad)
                got = A @ Ss[0] @ Ss[1] @ x if nch == 2 else A @ Ss[0] @ Ss[1] @ Ss[2] @ x
                want = Ad @ (Pc @ x)
            else:
                a = pp.ad.AdArray(a_v.copy(), sps.csr_matrix(a_J))
                t = pp.ad.AdArray(x.copy(), sps.csr_matrix(J))
                got = (a * Ss[0]) @ Ss[1] @ t if nch == 2 else (a * Ss[0]) @ Ss[1] @ Ss[2] @ t
                want = _dual_op("*", _Dual(a_v, a_J), _Dual(Pc @ x, Pc @ J), ncol)
            _cmp(mon, "chain_pending", got, want, "chain-with-pending-left-operand",
                 {"form": form, **tag})
            mon.count("chains_with_pending_left")
