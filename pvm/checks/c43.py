"""C43 Unit conversion is consistent and simulations are unit-invariant.

Monitor: the real ``pp.Units.convert_units`` and the material data classes
(``FluidComponent``, ``SolidConstants``, ``FractureDamageSolidConstants``,
``NumericalConstants``, ``ReferenceVariableValues``) are driven with generated unit systems,
unit strings and values; every returned number is decided by an independent reference (own
parser of the unit string + table of base-unit exponents of the derived units, evaluated
with python floats).  A compressible single-phase flow model with fractures is run in
scaled units and in SI; pressure, interface flux, Darcy flux and fluid flux converted back to
SI are compared cell by cell / face by face (fault injection: both runs are forced to
perform the same fixed number of Newton iterations, see ASSUMPTIONS).
"""
from __future__ import annotations

import dataclasses
import math

import numpy as np

PROP = "C43"
N = {"quick": 2000, "thorough": 120000}
WORKERS = {"quick": 4, "thorough": 16}
TIMEOUT = {"quick": 600, "thorough": 3000}
CASE_TIMEOUT = 180.0
MODEL_EVERY = 2000            # one generated model case per this many generated cases
RULE = ("seeded unit systems: scalings of m, kg, K, mol, rad drawn from 10^k (k in -6..6), "
        "small integers and random floats in [0.1, 10], never s (documented "
        "NotImplementedError, checked once in the floor); unit strings: 1-5 factors over the "
        "base units m, s, kg, K, mol, rad and the derived units Pa, J, N, W, degree with powers "
        "-3..3 (rarely half-integer), random blanks, and the dimensionless strings '', '1', "
        "'-'; values: python int / float, numpy float64 scalars, 1-D and 2-D float arrays; "
        "material classes with all or a random subset of the declared constants given; model "
        "cases: SquareDomainOrthogonalFractures + SinglePhaseFlow (compressible water, "
        "granite), fractures [0] / [1] / [0, 1], Cartesian cell size 0.5 or 0.25, scaled m and "
        "kg (quick) plus K, mol, rad (thorough). non-trivial = unit system differs from SI in "
        "a unit that occurs in the string / the model; distinct = case hash")
REACH = [
    ("models/units.py", "Units.convert_units"),
    ("compositional/materials.py", "Constants.__post_init__"),
    ("compositional/materials.py", "Constants.to_units"),
    ("models/solution_strategy.py", "SolutionStrategy.set_materials"),
]
REACH_LINES = [
    ("models/units.py", "factor = getattr(self, sub_unit) ** float(power)"),
    ("models/units.py", "value *= factor"),
    ("models/units.py", "value /= factor"),
    ("models/solution_strategy.py", "solid = solid.to_units(self.units)"),
]
REQUIRED = {
    "conversions": 500, "roundtrips": 100, "compositions": 100, "derived_unit_checks": 50,
    "material_instances": 20, "material_fields": 200, "to_units_calls": 40,
    "model_runs_scaled": 2, "model_quantities_compared": 8, "dimensionless_strings": 3,
}
ASSUMPTIONS = [
    "time scaling is excluded: pp.Units(s != 1) raises NotImplementedError by design",
    "integer-dtype numpy arrays are not generated: convert_units divides in place and numpy "
    "refuses the cast (observed, reported, not asserted)",
    "model runs: porepy's Newton convergence test uses an absolute residual norm in the "
    "scaled units, which is a user tolerance and not unit invariant; both runs are therefore "
    "forced (override of check_convergence) to take exactly 6 Newton iterations, three more "
    "than the unscaled run needs to reach its round-off floor",
    "model runs: the linear solver is replaced in both runs by SuperLU on the Jacobian "
    "equilibrated with powers of two plus two refinement steps (forced back-end).  A change "
    "of units scales rows and columns of the Jacobian by powers of ten; scipy's spsolve on "
    "the raw matrix (the default when PyPardiso is missing) loses up to ten digits for some "
    "unit systems (observed for m = 1e3: first Newton increment off by 1e8, linear instead of "
    "quadratic convergence, SI pressures differing by 5e-6 after 6 iterations), which is a "
    "property of the third-party solver and not of the unit handling",
    "model comparison tolerance 1e-6 relative to the largest SI magnitude of the quantity "
    "(interface flux: relative to the largest Darcy flux): the observed agreement floor is "
    "3e-10 for the pressure (conditioning of the Jacobian), so the 1e-8 of the design entry "
    "would sit only a factor 30 above round-off",
    "Cartesian grids only: gmsh meshes depend on the length scale",
]
LEVEL_TEXT = ("Reference-model monitor for every convert_units / to_units result "
              "(independent unit-string parser and exponent table) plus a differential "
              "monitor of scaled versus SI runs of a fractured compressible flow model.")
TECHNIQUE = "independent unit algebra oracle; scaled-vs-SI differential model runs"
RTOL = 1e-12
MODEL_RTOL = 1e-6
NEWTON_ITERATIONS = 6

BASE = ["m", "s", "kg", "K", "mol", "rad"]
# exponents over BASE, extra numeric factor
DERIVED = {
    "Pa": ({"kg": 1, "m": -1, "s": -2}, 1.0),
    "J": ({"kg": 1, "m": 2, "s": -2}, 1.0),
    "N": ({"kg": 1, "m": 1, "s": -2}, 1.0),
    "W": ({"kg": 1, "m": 2, "s": -3}, 1.0),
    "degree": ({"rad": 1}, 180.0 / math.pi),
}
NAMES = BASE + list(DERIVED)
BASE_EXPRESSION = {"Pa": "kg*m^-1*s^-2", "J": "kg*m^2*s^-2", "N": "kg*m*s^-2",
                   "W": "kg*m^2*s^-3"}

# ----------------------------------------------------------------------------- reference


def ref_factor(units_str: str, scal: dict) -> float:
    """Independent evaluation of the scaling factor of a unit string."""
    s = units_str.replace(" ", "")
    if s in ("", "1", "-"):
        return 1.0
    f = 1.0
    for term in s.split("*"):
        name, _, power = term.partition("^")
        p = float(power) if power else 1.0
        if name in DERIVED:
            expo, num = DERIVED[name]
            base = num
            for b, e in expo.items():
                base *= float(scal.get(b, 1.0)) ** e
        else:
            base = float(scal.get(name, 1.0))
        f *= base ** p
    return f


# ----------------------------------------------------------------------------- generators


def _scaling(rng):
    u = rng.random()
    if u < 0.55:
        return float(10.0 ** int(rng.integers(-6, 7)))
    if u < 0.7:
        return int(rng.integers(2, 10))
    return float(np.round(rng.uniform(0.1, 10.0), 3))


def _unit_system(rng, keys=("m", "kg", "K", "mol", "rad"), p=0.7):
    scal = {}
    if rng.random() < 0.2:
        # exactly one unit scaled (all others SI): code that classifies a unit system as
        # "SI" must look at every unit
        k = keys[int(rng.integers(len(keys)))]
        return {k: _scaling(rng)}
    for k in keys:
        if rng.random() < p:
            scal[k] = _scaling(rng)
    if rng.random() < 0.2:
        scal["s"] = 1
    return scal


def _power_str(rng, p):
    if p == 1 and rng.random() < 0.8:
        return ""
    if float(p).is_integer():
        return "^" + str(int(p))
    return "^" + repr(float(p))


def _unit_string(rng, nterms=None):
    nterms = int(rng.integers(1, 6)) if nterms is None else nterms
    terms = []
    for _ in range(nterms):
        name = NAMES[int(rng.integers(len(NAMES)))]
        if rng.random() < 0.05:
            p = float(rng.choice([0.5, -0.5, 1.5]))
        else:
            p = int(rng.choice([-3, -2, -1, 1, 1, 1, 2, 3, 0]))
        terms.append(name + _power_str(rng, p))
    sep = str(rng.choice(["*", " * ", "* ", " *"]))
    s = sep.join(terms)
    if rng.random() < 0.2:
        s = " " + s + " "
    return s


def _value(rng):
    u = rng.random()
    mag = 10.0 ** rng.uniform(-8, 8)
    if u < 0.3:
        return {"t": "float", "v": float(mag * rng.choice([-1.0, 1.0]))}
    if u < 0.4:
        return {"t": "int", "v": int(rng.integers(-1000, 1000))}
    if u < 0.5:
        return {"t": "np64", "v": float(mag)}
    if u < 0.85:
        return {"t": "array", "v": (mag * rng.normal(size=int(rng.integers(1, 8)))).tolist()}
    return {"t": "array2", "v": (mag * rng.normal(size=(int(rng.integers(1, 4)),
                                                         int(rng.integers(1, 4))))).tolist()}


def _conv_case(rng):
    return {"kind": "convert", "scal": _unit_system(rng), "unit": _unit_string(rng),
            "value": _value(rng), "split": int(rng.integers(0, 5))}


MATERIALS = ["FluidComponent", "SolidConstants", "FractureDamageSolidConstants",
             "NumericalConstants", "ReferenceVariableValues"]


def _material_case(rng, cls=None):
    cls = MATERIALS[int(rng.integers(len(MATERIALS)))] if cls is None else cls
    return {"kind": "material", "cls": cls, "scal": _unit_system(rng, p=0.85),
            "scal2": _unit_system(rng, p=0.85), "seed": int(rng.integers(1, 2**31)),
            "subset": bool(rng.random() < 0.4)}


def _model_case(rng, tier, scal=None, fracs=None, h=None):
    if scal is None:
        keys = ("m", "kg") if tier == "quick" else ("m", "kg", "K", "mol", "rad")
        scal = {}
        while not ({"m", "kg"} & set(scal)):
            scal = _unit_system(rng, keys=keys, p=0.8)
            scal.pop("s", None)
    fracs = [[0], [1], [0, 1]][int(rng.integers(3))] if fracs is None else fracs
    h = float(rng.choice([0.5, 0.25])) if h is None else h
    return {"kind": "model", "scal": scal, "fracs": fracs, "h": h}


def floor(tier):
    rng = np.random.default_rng(4343)
    out = []
    # model cases first (they are the slow ones; spread over the workers)
    out.append(_model_case(rng, tier, {"m": 2, "kg": 3}, [0, 1], 0.25))
    out.append(_model_case(rng, tier, {"m": 1e-3, "kg": 1e6}, [0], 0.5))
    out.append(_model_case(rng, tier, {"m": 1e6, "kg": 1e-6}, [1], 0.5))
    if tier == "thorough":
        out.append(_model_case(rng, tier, {"m": 10.0, "kg": 1e6, "K": 1e3, "mol": 1e-3,
                                           "rad": 10.0}, [0, 1], 0.25))
    out.append({"kind": "time-scaling"})
    for u in ["", "1", "-", " ", " 1 ", "m^0"]:
        out.append({"kind": "convert", "scal": {"m": 1e3, "kg": 1e-3, "K": 10.0},
                    "unit": u, "value": {"t": "array", "v": [1.0, -2.5, 3e7]}, "split": 0})
    for d, expr in BASE_EXPRESSION.items():
        out.append({"kind": "convert", "scal": {"m": 1e3, "kg": 1e-3}, "unit": d,
                    "value": {"t": "float", "v": 1e8}, "split": 0})
        out.append({"kind": "convert", "scal": {"m": 7, "kg": 0.37}, "unit": expr + "*" + d + "^-1",
                    "value": {"t": "float", "v": 3.25}, "split": 1})
    out.append({"kind": "convert", "scal": {"rad": 1e-2}, "unit": "degree * rad^-1",
                "value": {"t": "array2", "v": [[1.0, 2.0], [3.0, 4.0]]}, "split": 1})
    out.append({"kind": "convert", "scal": {"m": 1e6, "kg": 1e-6, "K": 1e3, "mol": 1e-3,
                                            "rad": 10.0},
                "unit": "Pa * m^3 * kg^-1 * K^-1 * mol", "value": {"t": "int", "v": 12},
                "split": 2})
    for cls in MATERIALS:
        c = _material_case(rng, cls)
        c["subset"] = False
        out.append(c)
        c = _material_case(rng, cls)
        c["subset"] = True
        out.append(c)
        # only one unit scaled, each unit in turn
        for k, u in enumerate(("rad", "mol", "K", "kg", "m")):
            c = _material_case(rng, cls)
            c["scal"] = {u: [2.0, 1e-3, 0.5, 1e3, 1.7][k]}
            c["subset"] = False
            out.append(c)
    return out


def generate(rng, tier, i):
    if i % MODEL_EVERY == 1:
        return _model_case(rng, tier)
    u = rng.random()
    if u < 0.8:
        return _conv_case(rng)
    return _material_case(rng)


# ----------------------------------------------------------------------------- conversions


def _mk_units(scal):
    import porepy as pp
    return pp.Units(**{k: (v if isinstance(v, int) else float(v)) for k, v in scal.items()})


def _mk_value(spec):
    t, v = spec["t"], spec["v"]
    if t == "float":
        return float(v)
    if t == "int":
        return int(v)
    if t == "np64":
        return np.float64(v)
    return np.asarray(v, dtype=float)


def _relclose(mon, name, got, want, tol, mech, detail=None):
    got = np.asarray(got, dtype=float)
    want = np.asarray(want, dtype=float)
    sc = float(np.max(np.abs(want))) if want.size else 1.0
    return mon.close(name, got, want, tol, mech, scale=max(sc, 1e-300), detail=detail)


def _uses(unit: str, scal: dict) -> bool:
    """Does the unit string involve a base unit whose scaling differs from one?"""
    s = unit.replace(" ", "")
    if s in ("", "1", "-"):
        return False
    for term in s.split("*"):
        name = term.partition("^")[0]
        bases = DERIVED[name][0].keys() if name in DERIVED else [name]
        if any(float(scal.get(b, 1)) != 1.0 for b in bases):
            return True
    return False


def _check_convert(case, mon):
    scal, unit = case["scal"], case["unit"]
    U = _mk_units(scal)
    v = _mk_value(case["value"])
    is_arr = isinstance(v, np.ndarray)
    keep = v.copy() if is_arr else v
    mon.klass("convert:" + case["value"]["t"])
    mon.nontrivial(_uses(unit, scal))
    stripped = unit.replace(" ", "")
    if stripped in ("", "1", "-"):
        mon.count("dimensionless_strings")
    f = ref_factor(unit, scal)
    detail = {"unit": unit, "scal": scal}

    got = U.convert_units(v, unit)
    mon.count("conversions")
    if is_arr:
        if not np.array_equal(v, keep):
            mon.violation("convert:mutates-input-array", detail)
        if not isinstance(got, np.ndarray) or got.shape != v.shape:
            mon.violation("convert:array-type-or-shape-changed", detail)
            return
        if got is v or np.shares_memory(got, v):
            mon.violation("convert:returns-view-of-input", detail)
    _relclose(mon, "convert_vs_reference", got, np.asarray(keep, dtype=float) / f, RTOL,
              "convert:differs-from-unit-algebra", detail)

    # round trip
    back = U.convert_units(got, unit, to_si=True)
    mon.count("conversions")
    mon.count("roundtrips")
    _relclose(mon, "roundtrip", back, keep, RTOL, "convert:roundtrip-not-identity", detail)
    # to_si direction against the reference
    si = U.convert_units(v, unit, to_si=True)
    mon.count("conversions")
    _relclose(mon, "to_si_vs_reference", si, np.asarray(keep, dtype=float) * f, RTOL,
              "convert:to-si-differs-from-unit-algebra", detail)

    # composition: "a*b*c" == convert(convert(v, "a*b"), "c")
    terms = stripped.split("*") if stripped not in ("", "1", "-") else []
    if len(terms) >= 2:
        k = 1 + int(case.get("split", 0)) % (len(terms) - 1)
        left, right = "*".join(terms[:k]), "*".join(terms[k:])
        for to_si, ref in ((False, got), (True, si)):
            comp = U.convert_units(U.convert_units(v, left, to_si=to_si), right, to_si=to_si)
            mon.count("conversions", 2)
            mon.count("compositions")
            _relclose(mon, "composition", comp, ref, RTOL,
                      "convert:composed-string-differs-from-composition",
                      {"unit": unit, "left": left, "right": right, "to_si": to_si})
        # order of the factors is immaterial
        rev = "*".join(terms[::-1])
        _relclose(mon, "factor_order", U.convert_units(v, rev), got, RTOL,
                  "convert:depends-on-factor-order", {"unit": unit, "reversed": rev})
        mon.count("conversions")
    # derived units equal their base-unit expression
    for t in terms:
        name, _, power = t.partition("^")
        if name in BASE_EXPRESSION:
            a = U.convert_units(v, name)
            b = U.convert_units(v, BASE_EXPRESSION[name])
            mon.count("conversions", 2)
            mon.count("derived_unit_checks")
            _relclose(mon, "derived_vs_base_expression", a, b, RTOL,
                      "convert:derived-unit-differs-from-base-expression",
                      {"derived": name, "scal": scal})
    # the attribute itself
    for name in BASE_EXPRESSION:
        if name in stripped:
            _relclose(mon, "derived_attribute", getattr(U, name),
                      ref_factor(name, scal), RTOL,
                      "units:derived-attribute-differs-from-base-units", {"name": name})


def _check_time_scaling(case, mon):
    import porepy as pp
    mon.klass("time-scaling")
    mon.count("time_scaling_rejections_checked")
    try:
        pp.Units(s=60)
    except NotImplementedError:
        mon.excluded("unit systems that scale time (NotImplementedError by design)")
        return
    mon.inconclusive("pp.Units(s=60) no longer raises: the exclusion of time scaling has to "
                     "be revisited")


# ----------------------------------------------------------------------------- materials


def _check_material(case, mon):
    import porepy as pp
    cls = getattr(pp, case["cls"], None)
    if cls is None:
        from porepy.compositional import materials
        cls = getattr(materials, case["cls"])
    rng = np.random.default_rng(int(case["seed"]))
    si_units = dict(cls.SI_units)
    defaults = {f.name: f.default for f in dataclasses.fields(cls) if f.name in si_units}
    keys = sorted(si_units)
    given = {}
    for k in keys:
        if case["subset"] and rng.random() < 0.5:
            continue
        u = rng.random()
        if u < 0.8:
            given[k] = float(10.0 ** rng.uniform(-12, 10))
        elif u < 0.9:
            given[k] = -float(10.0 ** rng.uniform(-3, 3))
        elif u < 0.95:
            given[k] = 0.0
        else:
            given[k] = int(rng.integers(1, 100))
    si_vals = {k: given.get(k, defaults[k]) for k in keys}
    scal, scal2 = case["scal"], case["scal2"]
    U, U2 = _mk_units(scal), _mk_units(scal2)
    mon.klass("material:" + case["cls"])
    mon.nontrivial(any(float(v) != 1.0 for v in scal.values()))

    def fields_match(obj, sc, tag):
        for k in keys:
            want = float(si_vals[k]) / ref_factor(si_units[k], sc)
            mon.count("material_fields")
            _relclose(mon, "material_field", getattr(obj, k), want, RTOL,
                      f"material:{tag}-field-differs-from-unit-algebra",
                      {"cls": case["cls"], "field": k, "unit": si_units[k], "scal": sc})

    c = cls(name="stuff", units=U, **given)
    mon.count("material_instances")
    fields_match(c, scal, "constructor")
    if {k: c.constants_in_SI[k] for k in keys} != si_vals:
        mon.violation("material:constants-in-si-not-preserved", {"cls": case["cls"]})
    # convert each stored field back with the unit system: equals SI
    for k in keys:
        back = U.convert_units(getattr(c, k), si_units[k], to_si=True)
        mon.count("conversions")
        _relclose(mon, "material_field_back_to_si", back, si_vals[k], RTOL,
                  "material:field-converted-back-differs-from-si",
                  {"cls": case["cls"], "field": k})
    c2 = c.to_units(U2)
    mon.count("to_units_calls")
    if type(c2) is not cls or c2.name != "stuff" or c2.units is not U2:
        mon.violation("material:to-units-loses-type-name-or-units", {"cls": case["cls"]})
    fields_match(c2, scal2, "to-units")
    fields_match(c, scal, "original-after-to-units")     # the source is left alone
    c3 = c2.to_units(pp.Units())
    mon.count("to_units_calls")
    for k in keys:
        mon.count("material_fields")
        if float(getattr(c3, k)) != float(si_vals[k]):
            mon.violation("material:back-to-si-not-exact",
                          {"cls": case["cls"], "field": k, "got": float(getattr(c3, k)),
                           "want": float(si_vals[k])})
    c4 = c3.to_units(U)
    mon.count("to_units_calls")
    fields_match(c4, scal, "to-units-round-trip")


# ----------------------------------------------------------------------------- model runs

_MODEL_CLS = None
_REFERENCE = {}


def _model_class():
    global _MODEL_CLS
    if _MODEL_CLS is not None:
        return _MODEL_CLS
    import porepy as pp
    from porepy.applications.md_grids.model_geometries import \
        SquareDomainOrthogonalFractures
    from porepy.models.fluid_mass_balance import SinglePhaseFlow

    class ScaledFlow(SquareDomainOrthogonalFractures, SinglePhaseFlow):
        def bc_values_pressure(self, bg):
            vals = self.reference_variable_values.pressure * np.ones(bg.num_cells)
            faces = self.domain_boundary_sides(bg).east
            vals[faces] += self.units.convert_units(1e5, "Pa")
            return vals

        def meshing_arguments(self):
            return {"cell_size": self.units.convert_units(self.params["pvm_h"], "m")}

        def solve_linear_system(self):
            # fault injection (forced linear-solver back-end): SuperLU on the Jacobian
            # equilibrated by powers of two, plus two refinement steps.  A change of units
            # is a row/column scaling of the Jacobian by powers of ten; scipy's spsolve on
            # the raw matrix loses up to ten digits for some of these scalings.
            import scipy.sparse as sps
            import scipy.sparse.linalg as spla
            A, b = self.linear_system
            A = sps.csr_matrix(A)
            rmax = np.asarray(abs(A).max(axis=1).todense()).ravel()
            rmax[rmax == 0] = 1.0
            r = 2.0 ** (-np.round(np.log2(rmax)))
            A1 = sps.diags(r) @ A
            cmax = np.asarray(abs(A1).max(axis=0).todense()).ravel()
            cmax[cmax == 0] = 1.0
            c = 2.0 ** (-np.round(np.log2(cmax)))
            A2 = sps.csc_matrix(A1 @ sps.diags(c))
            lu = spla.splu(A2)
            rb = r * b
            y = lu.solve(rb)
            for _ in range(2):
                y = y + lu.solve(rb - A2 @ y)
            return np.atleast_1d(c * y)

        def check_convergence(self, nonlinear_increment, residual, reference_residual,
                              nl_params):
            # fault injection: identical, fixed Newton iteration count in every run
            super().check_convergence(nonlinear_increment, residual, reference_residual,
                                      nl_params)
            it = self.nonlinear_solver_statistics.num_iteration
            if np.any(np.isnan(nonlinear_increment)):
                return False, True
            return it >= NEWTON_ITERATIONS, False

    _MODEL_CLS = ScaledFlow
    return ScaledFlow


def _run_model(scal, fracs, h):
    import porepy as pp
    from porepy.applications.material_values.fluid_values import \
        extended_water_values_for_testing as water_values
    cls = _model_class()
    params = {
        "times_to_export": [],
        "fracture_indices": list(fracs),
        "grid_type": "cartesian",
        "pvm_h": float(h),
        "material_constants": {
            "solid": pp.SolidConstants(**pp.solid_values.extended_granite_values_for_testing),
            "fluid": pp.FluidComponent(**water_values),
            "numerical": pp.NumericalConstants(
                **pp.numerical_values.extended_numerical_values_for_testing),
        },
        "reference_variable_values": pp.ReferenceVariableValues(
            **pp.reference_values.extended_reference_values_for_testing),
        "units": _mk_units(scal),
    }
    model = cls(params)
    pp.run_time_dependent_model(model, {"nl_convergence_tol_res": 1e-12,
                                        "nl_convergence_tol": 1,
                                        "max_iterations": NEWTON_ITERATIONS + 2})
    es = model.equation_system
    U = model.units
    sds = model.mdg.subdomains()
    intfs = model.mdg.interfaces()
    L = float(U.convert_units(1.0, "m"))           # simulation length per metre

    def canonical(values, coords, dims, absolute=False):
        """Values re-ordered by SI location (the numbering of cells / faces is a meshing
        detail that may differ between unit systems, e.g. the direction in which a 1-d
        fracture grid is numbered): sort by (dimension, x, y, z); values sharing a location
        (the two sides of a fracture) are sorted among themselves.  Face fluxes are compared
        in magnitude (the sign follows the arbitrary orientation of the face normal)."""
        v = np.abs(values) if absolute else np.asarray(values, dtype=float)
        k = np.round(np.asarray(coords) / L / 1e-7).astype(np.int64)
        order = np.lexsort((v, k[2], k[1], k[0], -np.asarray(dims)))
        return v[order]

    cc = np.hstack([g.cell_centers for g in sds])
    cd = np.hstack([np.full(g.num_cells, g.dim) for g in sds])
    fc = np.hstack([g.face_centers for g in sds])
    fd = np.hstack([np.full(g.num_faces, g.dim) for g in sds])
    mc = np.hstack([i.cell_centers for i in intfs]) if intfs else np.zeros((3, 0))
    md = np.hstack([np.full(i.num_cells, i.dim) for i in intfs]) if intfs else np.zeros(0)
    out = {
        "pressure": canonical(U.convert_units(es.get_variable_values(
            variables=[model.pressure_variable], time_step_index=0), "Pa", to_si=True),
            cc, cd),
        "interface_darcy_flux": canonical(U.convert_units(es.get_variable_values(
            variables=[model.interface_darcy_flux_variable], time_step_index=0),
            "Pa * m^2 * s^-1", to_si=True), mc, md),
        "darcy_flux": canonical(U.convert_units(es.evaluate(model.darcy_flux(sds)),
                                                "Pa * m^2 * s^-1", to_si=True), fc, fd,
                                absolute=True),
        "fluid_flux": canonical(U.convert_units(es.evaluate(model.fluid_flux(sds)),
                                                "kg * m^-1 * s^-1", to_si=True), fc, fd,
                                absolute=True),
    }
    info = {"iterations": int(model.nonlinear_solver_statistics.num_iteration),
            "cells": int(model.mdg.num_subdomain_cells()),
            "subdomains": int(model.mdg.num_subdomains()),
            "converged": bool(model.convergence_status)}
    return out, info


def _check_model(case, mon):
    scal, fracs, h = case["scal"], case["fracs"], case["h"]
    key = (tuple(fracs), float(h))
    if key not in _REFERENCE:
        _REFERENCE[key] = _run_model({}, fracs, h)
        mon.count("model_runs_reference")
    ref, rinfo = _REFERENCE[key]
    got, ginfo = _run_model(scal, fracs, h)
    mon.count("model_runs_scaled")
    mon.klass("model:" + "+".join(sorted(scal)) + f":fracs={len(fracs)}")
    mon.nontrivial(True)
    mon.measure("model_cells", ginfo["cells"])
    if ginfo["iterations"] != rinfo["iterations"] or ginfo["iterations"] < NEWTON_ITERATIONS:
        mon.inconclusive(f"Newton iteration counts differ or are too low: {rinfo} vs {ginfo}")
        return
    # the reference solution must be non-trivial, else agreement says nothing
    p = ref["pressure"]
    if not (np.ptp(p) > 1e-3 * np.max(np.abs(p)) and np.max(np.abs(ref["darcy_flux"])) > 0):
        mon.inconclusive("reference solution is trivial")
        return
    flux_scale = float(np.max(np.abs(ref["darcy_flux"])))
    for name in ("pressure", "interface_darcy_flux", "darcy_flux", "fluid_flux"):
        a, b = np.asarray(got[name]), np.asarray(ref[name])
        mon.count("model_quantities_compared")
        if a.shape != b.shape:
            mon.violation("model:scaled-run-has-different-size",
                          {"quantity": name, "got": list(a.shape), "want": list(b.shape)})
            continue
        sc = float(np.max(np.abs(b)))
        if name == "interface_darcy_flux":
            sc = max(sc, flux_scale)
        mon.close(f"model_{name}", a, b, MODEL_RTOL,
                  f"model:si-{name.replace('_', '-')}-depends-on-units", scale=max(sc, 1e-300),
                  detail={"scal": scal, "fracs": fracs, "h": h})


def check(case, mon):
    kind = case["kind"]
    if kind == "convert":
        _check_convert(case, mon)
    elif kind == "material":
        _check_material(case, mon)
    elif kind == "model":
        _check_model(case, mon)
    else:
        _check_time_scaling(case, mon)
