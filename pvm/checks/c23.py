"""C23 Refinement and extrusion preserve measure and nesting.

Monitor: the real ``refine_grid_1d``, ``remesh_1d``, ``refine_triangle_grid``,
``structured_refinement`` and ``extrude_grid`` are called on generated grids; the returned
grids and maps are read at the public boundary and decided by

* the total measure of the parent (times the extrusion height),
* the validity identities of a computed grid (``pvm.ref.c23_gridcheck``: positive volumes,
  outward normals, closed cells, divergence theorem for x and x_i x),
* a geometric nesting oracle that does not use the returned maps (interval test in 1-D,
  barycentric coordinates in 2-D/3-D: which parent contains the child's nodes and centre),
* the returned maps compared with the geometric parents (functions onto parents, volumes
  of the children of a parent sum to the parent's volume).

For ``structured_refinement`` the fine grid is built by the harness itself (uneven 1-D
subdivision, red / centroid refinement of triangles, centroid refinement of tetrahedra,
fine cells shuffled), so the expected parent of every fine cell is known by construction.
"""
from __future__ import annotations


import numpy as np
import scipy.sparse as sps

from pvm.gen import grids as gg
from pvm.gen import mdg as gm
from pvm.ref import c23_gridcheck as gc

PROP = "C23"
N = {"quick": 120, "thorough": 6000}
WORKERS = {"quick": 4, "thorough": 16}
RULE = ("one operation per case: refine_grid_1d (1-D tensor grids with random spacing, rigidly "
        "embedded, optionally with permuted node/cell numbering, and split 1-D fracture grids "
        "of md-grids; ratios 2-5), remesh_1d (2-12 nodes), refine_triangle_grid (structured, "
        "perturbed, affine, Delaunay and gmsh triangle grids with 1-60 cells, embedded, one or "
        "two levels), structured_refinement (harness-built nested pairs in 1-D / 2-D / 3-D, fine "
        "cells shuffled), extrude_grid (0-d / 1-d / 2-d grids in the xy-plane incl. in-plane "
        "rotation, 1-4 layers, monotone one-signed z increasing or decreasing, not starting at "
        "0); non-trivial = parent grid has at least 2 cells (extrusion: at least 2 new cells); "
        "distinct = case hash")
REACH = [
    ("grids/refinement.py", "refine_grid_1d"),
    ("grids/refinement.py", "refine_triangle_grid"),
    ("grids/refinement.py", "remesh_1d"),
    ("grids/refinement.py", "structured_refinement"),
    ("grids/grid_extrusion.py", "extrude_grid"),
    ("grids/grid_extrusion.py", "_extrude_0d"),
    ("grids/grid_extrusion.py", "_extrude_1d"),
    ("grids/grid_extrusion.py", "_extrude_2d"),
    ("grids/grid_extrusion.py", "_create_mappings"),
]
REACH_LINES = [
    ("grids/grid_extrusion.py", "flip = np.logical_not(flip)"),       # negative extrusion
    ("grids/refinement.py", "loc_new_ind.append(old_2_new_nodes[start])"),
]
REQUIRED = {"op:refine_grid_1d": 8, "op:remesh_1d": 5, "op:refine_triangle_grid": 10,
            "op:structured_refinement": 10, "op:extrude_grid": 10,
            "tri_parents_ge3": 5, "tri_level2": 1, "sr_dim1": 2, "sr_dim2": 3, "sr_dim3": 1,
            "extrude_dim0": 1, "extrude_dim1": 2, "extrude_dim2": 3, "extrude_negative": 2,
            "children_nested_tests": 300}
ASSUMPTIONS = [
    "a child lies inside a parent if its nodes have barycentric coordinates >= -1e-9 and its "
    "centre > 1e-9 in that parent (children of the generated refinements keep their centre at "
    "a relative distance >= 1/12 from the parent's boundary)",
    "extruded and refined grids have planar faces, so all validity identities apply",
    "the orientation-fallback warning of compute_geometry is legitimate for the refined / "
    "extruded grids (convex cells) and only counted",
    "remesh_1d is applied to grids with exactly two boundary nodes (documented 'use with care' "
    "for internal boundaries)",
]
LEVEL_TEXT = ("For every explored base grid, ratio and layer sequence the refined / remeshed / "
              "extruded grid is a valid grid of the parent's measure (times the height), every "
              "child lies in exactly one parent, and the returned parent / cell / face maps and "
              "the structured_refinement matrix name that parent; exploration only.")
TECHNIQUE = "invariant + reference-model monitor (geometric nesting oracle independent of the maps)"
TOL = 1e-10
BARY = 1e-9

# ------------------------------------------------------------------------------ cases
def _zrot(theta, t):
    return {"q": [float(np.cos(theta / 2)), 0.0, 0.0, float(np.sin(theta / 2))],
            "t": [float(t[0]), float(t[1]), 0.0]}


def _r1(n, L=1.0, tseed=1, rigid=None, kind="tensor"):
    return {"kind": kind, "dim": 1, "n": [n], "phys": [L], "tseed": tseed, "perturb": 0.0,
            "pseed": 0, "affine": None, "rigid": rigid}


def _rt(n, L=(1.0, 1.0), kind="tri", perturb=0.0, pseed=0, affine=None, rigid=None, tseed=0):
    return {"kind": kind, "dim": 2, "n": list(n), "phys": list(L), "tseed": tseed,
            "perturb": perturb, "pseed": pseed, "affine": affine, "rigid": rigid}


_RIG = {"q": [0.9, 0.1, -0.3, 0.2], "t": [0.3, -1.0, 2.0]}
_RIG2 = {"q": [0.3, -0.5, 0.7, 0.1], "t": [1.0, 1.0, 1.0]}


def floor(tier):
    out = []
    # refine_grid_1d
    for k, (r, ratio, perm) in enumerate([
            (_r1(1), 2, 0), (_r1(5, 2.0, 3), 3, 0), (_r1(4, 1.0, 1, _RIG2), 5, 0),
            (_r1(6, 3.0, 4, _RIG), 2, 77), (_r1(3, 1.0, 9, None, "cart"), 4, 5)]):
        out.append({"op": "refine_grid_1d", "grid": r, "ratio": ratio, "perm": perm})
    out.append({"op": "refine_grid_1d", "mdg": gm.FLOOR_2D[2], "ratio": 3, "perm": 0})
    out.append({"op": "refine_grid_1d", "mdg": gm.FLOOR_2D[3], "ratio": 2, "perm": 0})
    # remesh_1d
    for r, nn, perm in [(_r1(1), 2, 0), (_r1(5, 2.0, 3), 4, 0), (_r1(4, 1.0, 1, _RIG2), 9, 0),
                        (_r1(3, 2.0, 2, _RIG), 3, 13),
                        (_r1(2, 1.0, 6, {"q": [float(np.cos(np.pi / 4)), 0.0, 0.0,
                                                float(np.sin(np.pi / 4))],
                                         "t": [0.0, 0.0, 0.0]}), 5, 0)]:
        out.append({"op": "remesh_1d", "grid": r, "num_nodes": nn, "perm": perm})
    # refine_triangle_grid: 2, 4, 8, 12 ... parents
    for r, lev in [(_rt([1, 1]), 1), (_rt([1, 1]), 2), (_rt([2, 1]), 1), (_rt([2, 2]), 1),
                   (_rt([3, 2], perturb=0.15, pseed=1), 1), (_rt([2, 2], rigid=_RIG), 2),
                   (_rt([3, 3], (1.0, 1.5), "delaunay", tseed=7), 1),
                   (_rt([2, 3], affine=[[1.0, 0.3, 0.0], [-0.2, 0.9, 0.0], [0.0, 0.0, 1.0]]), 1)]:
        out.append({"op": "refine_triangle_grid", "grid": r, "levels": lev})
    out.append({"op": "refine_triangle_grid", "mdg": gm.FLOOR_2D[6], "levels": 1})
    # structured_refinement
    for r, mode in [(_r1(1), "uneven"), (_r1(5, 2.0, 3, _RIG2), "uneven"),
                    (_rt([1, 1]), "red"), (_rt([2, 2]), "red"), (_rt([2, 1], rigid=_RIG), "centroid"),
                    (_rt([3, 2], perturb=0.15, pseed=1), "red+centroid"),
                    ({"kind": "tet", "dim": 3, "n": [1, 1, 1], "phys": [1.0, 1.0, 1.0]}, "centroid"),
                    ({"kind": "tet", "dim": 3, "n": [2, 1, 1], "phys": [1.0, 1.0, 1.0],
                      "perturb": 0.1, "pseed": 5}, "centroid")]:
        out.append({"op": "structured_refinement", "grid": r, "mode": mode, "seed": 17})
    for k in range(4):
        out.append({"op": "structured_refinement", "grid": _r1(4 + k, 1.0 + k), "mode": "uneven",
                    "seed": 30 + k, "cperm": 5 + k})
    # extrude_grid
    pt = {"kind": "point", "dim": 0, "xy": [0.3, -0.7]}
    for r, z in [(pt, [0.0, 1.0]), (pt, [-0.5, -1.0, -2.5]),
                 (_r1(1), [0.0, 1.0]), (_r1(4, 2.0, 2, _zrot(0.7, (1.0, 2.0))), [0.5, 1.0, 2.5]),
                 (_r1(3, 1.0, 3), [0.0, -0.5, -1.0]),
                 ({"kind": "cart", "dim": 2, "n": [1, 1], "phys": [1.0, 1.0]}, [0.0, 1.0]),
                 ({"kind": "cart", "dim": 2, "n": [3, 2], "phys": [3.0, 1.0]}, [0.0, 0.5, 2.0]),
                 (_rt([2, 2], rigid=_zrot(1.1, (0.5, -0.5))), [1.0, 2.0]),
                 (_rt([2, 1], perturb=0.1, pseed=3), [-1.0, -1.5, -4.0]),
                 ({"kind": "poly", "dim": 2, "n": [3, 3], "phys": [1.0, 1.0], "tseed": 2},
                  [0.0, -1.0]),
                 ({"kind": "poly", "dim": 2, "n": [2, 3], "phys": [1.0, 1.0], "tseed": 4,
                   "perturb": 0.15, "pseed": 9}, [0.25, 0.5, 0.75, 1.0, 1.25])]:
        out.append({"op": "extrude_grid", "grid": r, "z": z})
    return out


def _rand_1d(rng):
    r = gg.random_recipe(rng, dims=(1,), affine=False, perturb=False, rigid="embedded")
    return r


def _rand_tri(rng, max_cells=24):
    return gg.random_recipe(rng, dims=(2,), kinds=("tri", "delaunay"), max_cells=max_cells,
                            rigid="embedded")


def generate(rng, tier, i):
    op = str(rng.choice(["refine_grid_1d", "remesh_1d", "refine_triangle_grid",
                         "structured_refinement", "extrude_grid"],
                        p=[0.15, 0.1, 0.3, 0.2, 0.25]))
    if op == "refine_grid_1d":
        c = {"op": op, "ratio": int(rng.integers(2, 6)), "perm": 0}
        if rng.random() < 0.25:
            c["mdg"] = gm.random_2d(rng, "cartesian", max_fracs=3)
            if not c["mdg"]["fractures"]:
                c["mdg"]["fractures"] = [[[0, 1], [1, 1]]]
        else:
            c["grid"] = _rand_1d(rng)
            if rng.random() < 0.4:
                c["perm"] = int(rng.integers(1, 2**31))
        return c
    if op == "remesh_1d":
        return {"op": op, "grid": _rand_1d(rng), "num_nodes": int(rng.integers(2, 13)),
                "perm": int(rng.integers(1, 2**31)) if rng.random() < 0.3 else 0}
    if op == "refine_triangle_grid":
        c = {"op": op, "levels": 2 if rng.random() < 0.3 else 1}
        if rng.random() < 0.12:
            c["mdg"] = {"dim": 2, "mesh": "simplex", "fractures": [],
                        "domain": [int(rng.integers(1, 4)), int(rng.integers(1, 4))],
                        "h": float(rng.choice([0.75, 1.0]))}
            c["levels"] = 1
        else:
            c["grid"] = _rand_tri(rng)
        return c
    if op == "structured_refinement":
        u = rng.random()
        seed = int(rng.integers(0, 2**31))
        if u < 0.3:
            return {"op": op, "grid": _rand_1d(rng), "mode": "uneven", "seed": seed,
                    "cperm": int(rng.integers(1, 2**31)) if rng.random() < 0.6 else 0}
        if u < 0.85:
            return {"op": op, "grid": _rand_tri(rng, 16), "seed": seed,
                    "mode": str(rng.choice(["red", "centroid", "red+centroid"]))}
        r = gg.random_recipe(rng, dims=(3,), kinds=("tet",), max_cells=30, affine=True)
        return {"op": op, "grid": r, "mode": "centroid", "seed": seed}
    # extrusion
    nl = int(rng.integers(1, 5))
    z0 = 0.0 if rng.random() < 0.5 else float(np.round(rng.uniform(0.1, 2.0), 3))
    z = z0 + np.concatenate([[0.0], np.cumsum(np.round(rng.uniform(0.2, 1.5, nl), 3))])
    if rng.random() < 0.45:
        z = -z
    u = rng.random()
    rot = _zrot(float(rng.uniform(0, 2 * np.pi)), rng.uniform(-2, 2, 2)) \
        if rng.random() < 0.5 else None
    if u < 0.1:
        r = {"kind": "point", "dim": 0, "xy": [float(v) for v in rng.uniform(-2, 2, 2)]}
    elif u < 0.35:
        r = gg.random_recipe(rng, dims=(1,), affine=False, perturb=False, rigid=False)
        r["rigid"] = rot
    else:
        r = gg.random_recipe(rng, dims=(2,), max_cells=30, rigid=False)
        r["rigid"] = rot
    return {"op": "extrude_grid", "grid": r, "z": [float(v) for v in z]}


# ------------------------------------------------------------------------------ helpers
def _permute_1d(g, seed):
    """Same 1-D grid with permuted node (= face) and cell numbering."""
    import porepy as pp
    rng = np.random.default_rng(seed)
    pn = rng.permutation(g.num_nodes)       # new index of old node
    pc = rng.permutation(g.num_cells)
    nodes = np.zeros_like(g.nodes)
    nodes[:, pn] = g.nodes
    cf = sps.coo_matrix(g.cell_faces)
    cf2 = sps.coo_matrix((cf.data, (pn[cf.row], pc[cf.col])), shape=cf.shape).tocsc()
    fn = sps.identity(g.num_nodes, format="csc")
    h = pp.Grid(1, nodes, fn, cf2, "permuted 1d grid")
    h.compute_geometry()
    return h


def _line_param(g):
    """Unit tangent and origin of the line of a 1-D grid (own computation)."""
    x = g.nodes
    i0 = 0
    d = np.linalg.norm(x - x[:, [i0]], axis=0)
    i1 = int(np.argmax(d))
    t = (x[:, i1] - x[:, i0]) / d[i1]
    return x[:, i0], t


def _intervals(g, x0, t):
    """Sorted (lo, hi) of every cell from its face (= node) coordinates."""
    cf = g.cell_faces.tocsc()
    fn = g.face_nodes.tocsc()
    out = np.zeros((g.num_cells, 2))
    for c in range(g.num_cells):
        faces = cf.indices[cf.indptr[c]:cf.indptr[c + 1]]
        s = [float((g.nodes[:, fn.indices[fn.indptr[f]]] - x0) @ t) for f in faces]
        out[c] = (min(s), max(s))
    return out


def _off_line(g, x0, t):
    y = g.nodes - x0.reshape(3, 1)
    return float(np.max(np.linalg.norm(y - np.outer(t, t @ y), axis=0)))


def _plane_coords(g):
    """Own orthonormal in-plane coordinates of a planar 2-D grid: (2, n) maps."""
    x = g.nodes
    x0 = x[:, 0]
    y = x - x0.reshape(3, 1)
    i1 = int(np.argmax(np.linalg.norm(y, axis=0)))
    e1 = y[:, i1] / np.linalg.norm(y[:, i1])
    z = y - np.outer(e1, e1 @ y)
    i2 = int(np.argmax(np.linalg.norm(z, axis=0)))
    e2 = z[:, i2] / np.linalg.norm(z[:, i2])
    E = np.vstack([e1, e2])
    off = float(np.max(np.abs(y - E.T @ (E @ y))))
    return x0, E, off


def _cell_node_lists(g, k):
    cn = g.cell_nodes().tocsc()
    if not np.all(np.diff(cn.indptr) == k):
        return None
    return cn.indices.reshape((g.num_cells, k))


def _bary(simplex_pts, pts):
    """Barycentric coordinates of pts (d, m) in the simplex (d, d+1) -> (d+1, m)."""
    d = simplex_pts.shape[0]
    A = np.vstack([simplex_pts, np.ones((1, d + 1))])
    b = np.vstack([pts, np.ones((1, pts.shape[1]))])
    return np.linalg.solve(A, b)


def _geometric_parents(parent_pts, child_node_pts, child_centres):
    """For every child: list of parents that contain all its nodes (>= -BARY) and its
    centre (> BARY).  parent_pts: (P, d, d+1); child_node_pts: (C, d, d+1);
    child_centres: (d, C)."""
    P = parent_pts.shape[0]
    C = child_node_pts.shape[0]
    d = parent_pts.shape[1]
    inside = np.zeros((C, P), dtype=bool)
    margin = np.full(C, -np.inf)
    allp = np.concatenate([child_node_pts.transpose(1, 0, 2).reshape(d, -1), child_centres],
                          axis=1)
    for p in range(P):
        lam = _bary(parent_pts[p], allp)
        ln = lam[:, :C * (d + 1)].reshape(d + 1, C, d + 1)
        lc = lam[:, C * (d + 1):]
        ok = np.all(ln >= -BARY, axis=(0, 2)) & np.all(lc > BARY, axis=0)
        inside[:, p] = ok
        margin = np.where(ok, np.maximum(margin, lc.min(axis=0)), margin)
    return inside, margin


def _simplex_pts(g, coords, k):
    lists = _cell_node_lists(g, k)
    if lists is None:
        return None
    return np.stack([coords[:, lists[c]] for c in range(g.num_cells)])


# ------------------------------------------------------------------------------ check
def check(case, mon):
    op = case["op"]
    mon.count("op:" + op)
    {"refine_grid_1d": _check_refine_1d, "remesh_1d": _check_remesh_1d,
     "refine_triangle_grid": _check_refine_tri, "structured_refinement": _check_structured,
     "extrude_grid": _check_extrude}[op](case, mon)


def _base_1d(case, mon):
    """List of (label, grid) for the 1-D operations."""
    if "mdg" in case:
        mdg = gm.build(case["mdg"])
        gs = [(f"split1d", sd) for sd in mdg.subdomains(dim=1)]
        return gs
    g = gg.build(case["grid"])
    label = "tensor1d" + ("+emb" if case["grid"].get("rigid") else "")
    if case.get("perm"):
        g = _permute_1d(g, case["perm"])
        label += "+perm"
    return [(label, g)]


# ---- refine_grid_1d
def _check_refine_1d(case, mon):
    import porepy as pp
    ratio = int(case["ratio"])
    grids = _base_1d(case, mon)
    if not grids:
        mon.excluded("md-grid without 1-D subdomain")
        return
    for label, g in grids:
        mon.klass(f"refine_grid_1d/{label}/r{ratio}")
        mon.nontrivial(g.num_cells >= 2)
        what = {"grid": label, "cells": g.num_cells, "ratio": ratio}
        h = pp.refinement.refine_grid_1d(g, ratio)
        mon.count("refine_1d_calls")
        if h.num_cells != ratio * g.num_cells:
            mon.violation("refine_grid_1d:cell-count", {**what, "got": h.num_cells})
            continue
        L = float(g.cell_volumes.sum())
        mon.close("refine_1d:measure", h.cell_volumes.sum(), L, TOL, "refine_grid_1d:measure",
                  scale=L, detail=what)
        gc.report(mon, h, "refine_1d", "refine_grid_1d:invalid-grid", TOL, what)
        x0, t = _line_param(g)
        mon.measure("refine_1d:off_line", _off_line(h, x0, t) / L)
        if _off_line(h, x0, t) > TOL * max(1.0, L):
            mon.violation("refine_grid_1d:nesting", {**what, "what": "new nodes off the line"})
            continue
        par = _intervals(g, x0, t)
        chi = _intervals(h, x0, t)
        tol = 1e-11 * max(1.0, L)
        cont = (chi[:, [0]] >= par[:, 0] - tol) & (chi[:, [1]] <= par[:, 1] + tol)
        mon.count("children_nested_tests", int(h.num_cells))
        nparents = cont.sum(axis=1)
        if not np.all(nparents == 1):
            k = int(np.flatnonzero(nparents != 1)[0])
            mon.violation("refine_grid_1d:nesting", {**what, "child": k, "interval": chi[k],
                                                     "parents_containing": int(nparents[k])})
            continue
        pidx = np.argmax(cont, axis=1)
        cnt = np.bincount(pidx, minlength=g.num_cells)
        vs = np.bincount(pidx, weights=h.cell_volumes, minlength=g.num_cells)
        if not np.all(cnt == ratio):
            mon.violation("refine_grid_1d:nesting", {**what, "what": "children per parent",
                                                     "counts": cnt[:20]})
        mon.close("refine_1d:children_volume", vs, g.cell_volumes, TOL, "refine_grid_1d:nesting",
                  scale=float(g.cell_volumes.max()), detail=what)
        if getattr(h, "frac_num", None) != getattr(g, "frac_num", None):
            mon.count("refine_1d_frac_num_changed")


# ---- remesh_1d
def _check_remesh_1d(case, mon):
    import porepy as pp
    (label, g), = _base_1d(case, mon)
    nn = int(case["num_nodes"])
    mon.klass(f"remesh_1d/{label}")
    mon.nontrivial(g.num_cells >= 2 and nn != g.num_nodes)
    what = {"grid": label, "cells": g.num_cells, "num_nodes": nn}
    h = pp.refinement.remesh_1d(g, nn)
    if h.num_nodes != nn or h.num_cells != nn - 1:
        mon.violation("remesh_1d:node-count", {**what, "got_nodes": h.num_nodes,
                                               "got_cells": h.num_cells})
        return
    L = float(g.cell_volumes.sum())
    mon.close("remesh_1d:measure", h.cell_volumes.sum(), L, TOL, "remesh_1d:measure", scale=L,
              detail=what)
    gc.report(mon, h, "remesh_1d", "remesh_1d:invalid-grid", TOL, what)
    x0, t = _line_param(g)
    so = np.sort((g.nodes - x0.reshape(3, 1)).T @ t)
    sn = np.sort((h.nodes - x0.reshape(3, 1)).T @ t)
    sc = max(1.0, L)
    mon.close("remesh_1d:end_points", [sn[0], sn[-1]], [so[0], so[-1]], TOL,
              "remesh_1d:end-points", scale=sc, detail=what)
    mon.measure("remesh_1d:off_line", _off_line(h, x0, t) / sc)
    if _off_line(h, x0, t) > TOL * sc:
        mon.violation("remesh_1d:end-points", {**what, "what": "new nodes off the line"})
    mon.count("children_nested_tests", int(h.num_cells))
    mon.measure("remesh_1d:equispacing", float(np.ptp(h.cell_volumes)) / L)


# ---- refine_triangle_grid
def _check_refine_tri(case, mon):
    import porepy as pp
    if "mdg" in case:
        g = gm.build(case["mdg"]).subdomains(dim=2)[0]
        label = "gmsh"
    else:
        g = gg.build(case["grid"])
        r = case["grid"]
        label = r["kind"] + ("+perturb" if r.get("perturb") else "") + \
            ("+affine" if r.get("affine") is not None else "") + ("+emb" if r.get("rigid") else "")
    mon.klass(f"refine_triangle_grid/{label}/L{case['levels']}")
    mon.nontrivial(g.num_cells >= 2)
    for lev in range(int(case["levels"])):
        what = {"grid": label, "parents": g.num_cells, "level": lev + 1}
        if g.num_cells >= 3:
            mon.count("tri_parents_ge3")
        if lev == 1:
            mon.count("tri_level2")
        h, parent = pp.refinement.refine_triangle_grid(g)
        mon.count("refine_tri_calls")
        h.compute_geometry()
        ok = _decide_tri(g, h, np.asarray(parent), what, mon)
        if not ok:
            if lev + 1 < int(case["levels"]):
                mon.excluded("second refinement level skipped: first level is not a valid grid")
            return
        g = h


def _decide_tri(g, h, parent, what, mon) -> bool:
    n = g.num_cells
    if h.num_cells != 4 * n:
        mon.violation("refine_triangle_grid:cell-count", {**what, "got": h.num_cells})
        return False
    A = float(g.cell_volumes.sum())
    ok = mon.close("refine_tri:measure", h.cell_volumes.sum(), A, TOL,
                   "refine_triangle_grid:measure", scale=A, detail=what)
    ok &= gc.report(mon, h, "refine_tri", "refine_triangle_grid:invalid-grid", TOL, what)
    # geometric parents (independent of the returned map)
    x0, E, off = _plane_coords(g)
    mon.measure("refine_tri:parent_off_plane", off)
    pc = E @ (g.nodes - x0.reshape(3, 1))
    hc = E @ (h.nodes - x0.reshape(3, 1))
    hoff = float(np.max(np.abs((h.nodes - x0.reshape(3, 1)) - E.T @ hc)))
    if hoff > 1e-9 * max(1.0, float(np.max(np.abs(pc)))):
        mon.violation("refine_triangle_grid:not-nested", {**what, "what": "new nodes off the plane",
                                                          "distance": hoff})
        return False
    ppts = _simplex_pts(g, pc, 3)
    cpts = _simplex_pts(h, hc, 3)
    if ppts is None or cpts is None:
        mon.violation("refine_triangle_grid:invalid-grid", {**what, "what": "non-triangular cell"})
        return False
    ccen = E @ (h.cell_centers - x0.reshape(3, 1))
    inside, margin = _geometric_parents(ppts, cpts, ccen)
    mon.count("children_nested_tests", int(h.num_cells))
    npar = inside.sum(axis=1)
    nested = bool(np.all(npar == 1))
    if not nested:
        k = int(np.flatnonzero(npar != 1)[0])
        mon.violation("refine_triangle_grid:not-nested",
                      {**what, "child": k, "parents_containing_child": int(npar[k]),
                       "children_not_in_exactly_one_parent": int(np.sum(npar != 1))})
        ok = False
    else:
        mon.measure("refine_tri:centre_margin", float(margin.min()))
    # the returned map
    if parent.shape != (4 * n,) or parent.min() < 0 or parent.max() >= n or \
            not np.issubdtype(parent.dtype, np.integer):
        mon.violation("refine_triangle_grid:parent-map", {**what, "what": "shape / range",
                                                          "shape": list(parent.shape)})
        return False
    uniq = npar == 1
    geo = np.argmax(inside, axis=1)
    wrong = uniq & (geo != parent)
    mon.count("tri_parent_entries_compared", int(uniq.sum()))
    if np.any(wrong):
        k = int(np.flatnonzero(wrong)[0])
        mon.violation("refine_triangle_grid:parent-map",
                      {**what, "child": k, "map_says": int(parent[k]),
                       "geometric_parent": int(geo[k]), "wrong_entries": int(wrong.sum()),
                       "map_head": parent[:12], "geometric_head": geo[:12]})
        ok = False
    elif nested:
        vs = np.bincount(parent, weights=h.cell_volumes, minlength=n)
        ok &= mon.close("refine_tri:children_volume", vs, g.cell_volumes, TOL,
                        "refine_triangle_grid:parent-map", scale=float(g.cell_volumes.max()),
                        detail=what)
    return bool(ok)


# ---- structured_refinement
def _fine_1d(g, rng):
    import porepy as pp
    x0, t = _line_param(g)
    iv = _intervals(g, x0, t)
    pts, owner = [], []
    for c, (lo, hi) in enumerate(iv):
        k = int(rng.integers(1, 5))
        if c == 0:
            k = max(k, 2)       # the fine grid must have more cells than the coarse one
        # interior cut points on a 1/10 lattice: pieces are at least 10 % of the parent
        cuts = np.unique(rng.integers(2, 9, size=k - 1)) / 10.0 if k > 1 else np.array([])
        edges = [lo] + [lo + a * (hi - lo) for a in cuts] + [hi]
        for a, b in zip(edges[:-1], edges[1:]):
            pts.append((a, b))
            owner.append(c)
    pts = np.array(pts)
    owner = np.array(owner)
    # a 1-D grid whose cells are the pieces, in shuffled order, nodes shared
    s_nodes = np.unique(pts.ravel())
    key = {float(v): i for i, v in enumerate(s_nodes)}
    perm = rng.permutation(len(pts))
    rows, cols, vals = [], [], []
    for newc, oldc in enumerate(perm):
        a, b = pts[oldc]
        rows += [key[float(a)], key[float(b)]]
        cols += [newc, newc]
        vals += [-1, 1]
    nodes = x0.reshape(3, 1) + np.outer(t, s_nodes)
    cf = sps.csc_matrix((vals, (rows, cols)), shape=(s_nodes.size, len(pts)))
    h = pp.Grid(1, nodes, sps.identity(s_nodes.size, format="csc"), cf, "fine 1d")
    h.compute_geometry()
    return h, owner[perm]


def _fine_simplex(g, mode, rng):
    """Nested refinement of a triangle / tetrahedral grid built by the harness."""
    import porepy as pp
    d = g.dim
    lists = _cell_node_lists(g, d + 1)
    nodes = [g.nodes[:, i] for i in range(g.num_nodes)]
    cells = [list(map(int, l)) for l in lists]
    owner = list(range(g.num_cells))
    for step in mode.split("+"):
        new_cells, new_owner = [], []
        if step == "centroid":
            for cl, ow in zip(cells, owner):
                m = len(nodes)
                nodes.append(np.mean([nodes[i] for i in cl], axis=0))
                for k in range(d + 1):
                    new_cells.append([m if j == k else cl[j] for j in range(d + 1)])
                    new_owner.append(ow)
        elif step == "red":
            mid: dict[tuple[int, int], int] = {}

            def midpoint(a, b):
                key = (min(a, b), max(a, b))
                if key not in mid:
                    mid[key] = len(nodes)
                    nodes.append(0.5 * (nodes[a] + nodes[b]))
                return mid[key]
            for cl, ow in zip(cells, owner):
                a, b, c = cl
                ab, bc, ca = midpoint(a, b), midpoint(b, c), midpoint(c, a)
                new_cells += [[a, ab, ca], [ab, b, bc], [ca, bc, c], [ab, bc, ca]]
                new_owner += [ow] * 4
        else:
            raise ValueError(step)
        cells, owner = new_cells, new_owner
    perm = rng.permutation(len(cells))
    conn = np.array(cells)[perm].T
    P = np.array(nodes).T
    h = pp.TriangleGrid(P, conn) if d == 2 else pp.TetrahedralGrid(P, conn)
    h.compute_geometry()
    return h, np.array(owner)[perm]


def _check_structured(case, mon):
    import porepy as pp
    r = case["grid"]
    rng = np.random.default_rng(case["seed"])
    g = gg.build(r)
    d = g.dim
    mon.count(f"sr_dim{d}")
    label = f"{r['kind']}{d}d/{case['mode']}" + ("+emb" if r.get("rigid") else "")
    mon.klass("structured_refinement/" + label)
    mon.nontrivial(g.num_cells >= 2)
    if d == 1:
        if case.get("cperm"):
            # coarse cells (and nodes) numbered in a random order along the line
            g = _permute_1d(g, case["cperm"])
            mon.count("sr_1d_coarse_numbering_permuted")
        h, owner = _fine_1d(g, rng)
    else:
        h, owner = _fine_simplex(g, case["mode"], rng)
    what = {"grid": label, "coarse": g.num_cells, "fine": h.num_cells}
    # harness self-check: the fine grid is a valid grid of the same measure, owners by geometry
    A = float(g.cell_volumes.sum())
    if abs(h.cell_volumes.sum() - A) > 1e-9 * A or not np.all(h.cell_volumes > 0):
        mon.inconclusive("harness: fine grid does not tile the coarse grid")
        return
    vs = np.bincount(owner, weights=h.cell_volumes, minlength=g.num_cells)
    if np.max(np.abs(vs - g.cell_volumes)) > 1e-9 * float(g.cell_volumes.max()):
        mon.inconclusive("harness: owners do not partition the coarse cells")
        return
    M = pp.refinement.structured_refinement(g, h)
    mon.count("structured_refinement_calls")
    M = sps.csc_matrix(M)
    if M.shape != (h.num_cells, g.num_cells):
        mon.violation("structured_refinement:shape", {**what, "shape": list(M.shape)})
        return
    D = np.asarray(M.todense())
    rows_nnz = (D != 0).sum(axis=1)
    mon.count("children_nested_tests", int(h.num_cells))
    if not np.all(rows_nnz == 1) or not np.all(D[D != 0] == 1):
        k = int(np.flatnonzero(rows_nnz != 1)[0]) if np.any(rows_nnz != 1) else -1
        mon.violation("structured_refinement:not-one-entry-per-fine-cell",
                      {**what, "fine_cell": k, "entries": int(rows_nnz[k]) if k >= 0 else None})
        return
    got = np.argmax(D != 0, axis=1)
    if not np.array_equal(got, owner):
        k = int(np.flatnonzero(got != owner)[0])
        mon.violation("structured_refinement:wrong-coarse-cell",
                      {**what, "fine_cell": k, "got": int(got[k]), "want": int(owner[k]),
                       "wrong": int(np.sum(got != owner))})
    mon.count("sr_fine_cells_mapped", int(h.num_cells))


# ---- extrude_grid
def _check_extrude(case, mon):
    import porepy as pp
    r = case["grid"]
    z = np.asarray(case["z"], dtype=float)
    if r["kind"] == "point":
        g = pp.PointGrid(np.array([r["xy"][0], r["xy"][1], 0.0]))
        g.compute_geometry()
    else:
        g = gg.build(r)
    d = g.dim
    neg = bool(np.all(z <= 0) and np.any(z < 0))
    mon.count(f"extrude_dim{d}")
    if neg:
        mon.count("extrude_negative")
    label = f"{r['kind']}{d}d" + ("+rot" if r.get("rigid") else "") + ("/neg" if neg else "/pos") \
        + f"/L{z.size - 1}"
    mon.klass("extrude_grid/" + label)
    nl = z.size - 1
    mon.nontrivial(g.num_cells * nl >= 2)
    what = {"grid": label, "cells": g.num_cells, "z": z}
    V_old = np.asarray(g.cell_volumes, dtype=float).copy()
    cc_old = np.asarray(g.cell_centers, dtype=float).copy()
    height = abs(z[-1] - z[0])
    h, cell_map, face_map = pp.grid_extrusion.extrude_grid(g, z.copy())
    mon.count("extrude_calls")
    if h.dim != d + 1 or h.num_cells != g.num_cells * nl:
        mon.violation("extrude_grid:cell-count", {**what, "dim": h.dim, "cells": h.num_cells})
        return
    meas = float(V_old.sum()) * height
    mon.close("extrude:measure", h.cell_volumes.sum(), meas, TOL, "extrude_grid:measure",
              scale=meas, detail=what)
    gc.report(mon, h, "extrude", "extrude_grid:invalid-grid", TOL, what)
    zc = np.sort(np.abs(z))
    # ---- cell map
    if len(cell_map) != g.num_cells:
        mon.violation("extrude_grid:cell-map", {**what, "what": "number of rows",
                                                "rows": len(cell_map)})
        return
    allc = np.concatenate([np.asarray(cm, dtype=int).ravel() for cm in cell_map])
    if allc.size != h.num_cells or not np.array_equal(np.sort(allc), np.arange(h.num_cells)):
        mon.violation("extrude_grid:cell-map", {**what, "what": "new cells not listed exactly once"})
        return
    xs = max(1.0, float(np.max(np.abs(cc_old))), float(np.max(np.abs(h.nodes))))
    ordered = True
    for c, cm in enumerate(cell_map):
        cm = np.asarray(cm, dtype=int)
        if cm.size != nl:
            mon.violation("extrude_grid:cell-map", {**what, "what": "row length", "row": c})
            return
        mon.count("children_nested_tests", int(cm.size))
        dxy = np.max(np.abs(h.cell_centers[:2, cm] - cc_old[:2, [c]]))
        mon.measure("extrude:child_xy", dxy / xs)
        if dxy > TOL * xs:
            mon.violation("extrude_grid:cell-map", {**what, "what": "child does not share the "
                                                    "parent's (x, y) centre", "row": c,
                                                    "distance": float(dxy)})
            return
        zz = np.abs(h.cell_centers[2, cm])
        if np.any(zz < zc[0] - TOL) or np.any(zz > zc[-1] + TOL):
            mon.violation("extrude_grid:cell-map", {**what, "what": "child outside the z-range"})
            return
        ordered &= bool(np.all(np.diff(zz) > 0))
        vsum = float(h.cell_volumes[cm].sum())
        if abs(vsum - V_old[c] * height) > TOL * max(V_old.max() * height, 1e-300):
            mon.violation("extrude_grid:cell-map", {**what, "what": "children volumes do not sum to "
                                                    "parent volume x height", "row": c})
            return
    mon.count("extrude_cell_map_layer_ordered" if ordered else "extrude_cell_map_not_layer_ordered")
    # ---- face map (vertical faces)
    if d == 0:
        if len(face_map) != 0:
            mon.violation("extrude_grid:face-map", {**what, "what": "0-d grid has no faces"})
        return
    if len(face_map) != g.num_faces:
        mon.violation("extrude_grid:face-map", {**what, "what": "number of rows"})
        return
    allf = np.concatenate([np.asarray(fm, dtype=int).ravel() for fm in face_map])
    if allf.size != g.num_faces * nl or np.unique(allf).size != allf.size or allf.min() < 0 \
            or allf.max() >= h.num_faces:
        mon.violation("extrude_grid:face-map", {**what, "what": "vertical faces not listed exactly once"})
        return
    As = float(np.max(g.face_areas)) * height
    for f, fm in enumerate(face_map):
        fm = np.asarray(fm, dtype=int)
        dxy = np.max(np.abs(h.face_centers[:2, fm] - g.face_centers[:2, [f]]))
        if dxy > TOL * xs:
            mon.violation("extrude_grid:face-map", {**what, "what": "child face does not share the "
                                                    "parent's (x, y) centre", "row": f})
            return
        if abs(float(h.face_areas[fm].sum()) - float(g.face_areas[f]) * height) > TOL * As:
            mon.violation("extrude_grid:face-map", {**what, "what": "child face areas do not sum to "
                                                    "parent area x height", "row": f})
            return
    mon.count("extrude_faces_mapped", int(allf.size))
    # horizontal faces are the rest: they must be as many as cells x (layers + 1)
    if h.num_faces - allf.size != g.num_cells * (nl + 1):
        mon.violation("extrude_grid:face-map", {**what, "what": "number of horizontal faces"})
