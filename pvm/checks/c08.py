"""C08 Stored time-step and iterate histories behave as sliding windows.

Reference-model monitor: generated interleavings of set (overwrite / additive), shift
(depth d in 1..5 or None) and get are issued
  layer "dict": through ``pp.set_solution_values / shift_solution_values /
                get_solution_values`` on a data dictionary,
  layer "es"  : through ``EquationSystem.set_variable_values / shift_time_step_values /
                shift_iterate_values / get_variable_values`` on a real md-grid,
and decided by a Python list machine (``pvm.ref.c08_window``).  Post-conditions (icontract,
named conditions, explicit error) sit on the three helpers *and* the four wrappers; they
count their evaluations.  Every written array carries a unique id (2**k for the k-th write,
plus a position tag), so a read identifies the set of writes it observed - additive sums
included - and all comparisons are exact.
"""
from __future__ import annotations

import os
import shutil
import tempfile

import numpy as np

from pvm.gen import mdg as gm
from pvm.ref import c08_window as cw
from pvm.ref.c05_layout import RefLayout, express, warm_grids

PROP = "C08"
N = {"quick": 500, "thorough": 30000}
WORKERS = {"quick": 4, "thorough": 16}
TIMEOUT = {"quick": 240, "thorough": 1000}
CASE_TIMEOUT = 180.0
RULE = ("seeded interleavings of 1-30 operations set0 / add0 / shift(d) / get(i) over the "
        "time-step and the iterate storage (also both in one write) and 1-3 names; depth d "
        "changes within a history (1..5, None); 60 % of the histories run on a plain data "
        "dictionary through the ad_utils helpers, 40 % on a real md-grid through the "
        "EquationSystem wrappers with random variable subsets (names / md-variables / atomic "
        "variables); a few histories drive the real flow model's update_solution / "
        "after_nonlinear_iteration with time_step_indices / iterate_indices of depth 1-4; "
        "non-trivial = at least one shift after a write and one read or "
        "comparison at index >= 1; distinct = case hash")
REACH = [
    ("numerics/ad/ad_utils.py", "set_solution_values"),
    ("numerics/ad/ad_utils.py", "get_solution_values"),
    ("numerics/ad/ad_utils.py", "shift_solution_values"),
    ("numerics/ad/equation_system.py", "EquationSystem.set_variable_values"),
    ("numerics/ad/equation_system.py", "EquationSystem.get_variable_values"),
    ("numerics/ad/equation_system.py", "EquationSystem.shift_time_step_values"),
    ("numerics/ad/equation_system.py", "EquationSystem.shift_iterate_values"),
    ("models/solution_strategy.py", "SolutionStrategy.update_solution"),
    ("models/solution_strategy.py", "SolutionStrategy.after_nonlinear_iteration"),
]
REACH_LINES = [
    ("numerics/ad/ad_utils.py", "range_ = range(max_index - 1, 0, -1)"),
    ("numerics/ad/ad_utils.py", "range_ = range(num_stored, 0, -1)"),
    ("numerics/ad/ad_utils.py", "data[loc][name][index] += values"),
    ("numerics/ad/ad_utils.py", "No values stored to add to."),
]
REQUIRED = {
    "contract_set_solution_values": 100, "contract_shift_solution_values": 100,
    "contract_get_solution_values": 100, "contract_equation_system_storage": 50,
    "contract_get_variable_values": 20, "helper_calls_under_wrapper_set": 20,
    "helper_calls_under_wrapper_shift": 20, "helper_calls_under_wrapper_get": 20,
    "slots_compared": 500, "slots_compared_index_ge_1": 100,
    "additive_to_empty_slot_rejected": 5, "op_set": 50, "op_add": 50, "op_shift": 50,
    "op_get": 50, "shift_depth_none": 5, "depth_decreased_within_history": 5,
    "returned_array_mutated_and_storage_rechecked": 50,
    "argument_mutated_and_storage_rechecked": 50, "aliases_patched": 3,
    "model_events_checked": 10,
}
ASSUMPTIONS = [
    "writes go to index 0 (the statement speaks of values written at index 0)",
    "indices at or above the current window depth are not decided (stale values may remain "
    "there after the depth has been lowered)",
    "an additive EquationSystem write is issued only when slot 0 of ALL selected variables is "
    "empty (rejected) or of none (partial application to a mixed selection is not specified)",
    "depth 0 is not generated",
]
LEVEL_TEXT = ("Every set/add/shift/get of generated histories on both storages, through the "
              "ad_utils helpers and through the EquationSystem wrappers, leaves the storage "
              "equal to a list machine for every index below the depth; reads are copies, "
              "writes do not alias their argument, additive writes to an empty slot raise.")
TECHNIQUE = "list-machine reference model behind counted icontract post-conditions"

_REPORTED = False
ST = {"ts": ("time_step_index",), "it": ("iterate_index",),
      "both": ("iterate_index", "time_step_index")}


# ------------------------------------------------------------------------------ generator
def _ops(rng, length, nnames):
    """Operations concentrate on one (name, storage) pair so that windows become deep; the
    rest of the operations interleave other names / the other storage."""
    ops = []
    depth = {s: (None if rng.random() < 0.15 else int(rng.integers(1, 6))) for s in ("ts", "it")}
    f_name, f_st = int(rng.integers(0, nnames)), str(rng.choice(["ts", "it"]))
    for k in range(length):
        r = rng.random()
        focus = rng.random() < 0.7
        nm = f_name if focus else int(rng.integers(0, nnames))
        st1 = f_st if focus else str(rng.choice(["ts", "it"]))
        st = st1 if rng.random() < 0.8 else "both"
        if k == 0 and rng.random() < 0.7:
            r = 0.0
        if r < 0.27:
            ops.append({"op": "set", "name": nm, "add": False, "st": st})
        elif r < 0.42:
            ops.append({"op": "set", "name": nm, "add": True, "st": st})
        elif r < 0.78:
            if rng.random() < 0.15:       # the depth changes within the history
                depth[st1] = None if rng.random() < 0.2 else int(rng.integers(1, 6))
            ops.append({"op": "shift", "name": nm, "st": st1, "d": depth[st1]})
        else:
            ops.append({"op": "get", "name": nm, "st": st1, "i": int(rng.integers(0, 5))})
    return ops


def _model_case(rng):
    ev = [str(rng.choice(["iter", "step"], p=[0.6, 0.4])) for _ in range(int(rng.integers(4, 13)))]
    return {"layer": "model", "seed": int(rng.integers(1, 2**31)), "d_ts": int(rng.integers(1, 5)),
            "d_it": int(rng.integers(1, 5)), "events": ev, "ops": []}


def generate(rng, tier, i):
    if tier == "thorough" and rng.random() < 0.003:
        return _model_case(rng)
    length = int(rng.integers(1, 31))
    nnames = int(rng.integers(1, 4))
    case = {"seed": int(rng.integers(1, 2**31)), "nnames": nnames,
            "ops": _ops(rng, length, nnames)}
    if rng.random() < 0.6:
        case["layer"] = "dict"
        case["size"] = int(rng.integers(0, 7)) if rng.random() < 0.9 else 0
    else:
        case["layer"] = "es"
        case["mdg"] = gm.random_2d(rng, "cartesian", max_fracs=2)
        case["vars"] = []
        for k in range(nnames):
            kind = "intf" if rng.random() < 0.3 else "sd"
            dof = ({"cells": int(rng.integers(1, 3))} if kind == "intf" else
                   {"cells": int(rng.integers(0, 3)), "faces": int(rng.integers(0, 2)),
                    "nodes": int(rng.integers(0, 2))})
            case["vars"].append({"kind": kind, "dof": dof, "p": float(rng.choice([0.6, 1.0])),
                                 "sel": int(rng.integers(1, 2**31))})
    return case


def floor(tier):
    S, A, H, G = "set", "add", "shift", "get"

    def mk(seq, names=1):
        ops = []
        for t in seq:
            if t[0] in (S, A):
                ops.append({"op": "set", "name": t[2] if len(t) > 2 else 0, "add": t[0] == A,
                            "st": t[1]})
            elif t[0] == H:
                ops.append({"op": "shift", "name": t[3] if len(t) > 3 else 0, "st": t[1],
                            "d": t[2]})
            else:
                ops.append({"op": "get", "name": t[3] if len(t) > 3 else 0, "st": t[1],
                            "i": t[2]})
        return ops

    seqs = [
        # additive write to an empty slot, then the classical set/shift cycle with depth 3
        [(A, "ts"), (S, "ts"), (H, "ts", 3), (S, "ts"), (H, "ts", 3), (A, "ts"), (H, "ts", 3),
         (S, "ts"), (G, "ts", 0), (G, "ts", 1), (G, "ts", 2), (H, "ts", 3), (G, "ts", 2)],
        # depth 1 and 2, additive right after a shift (slot 0 and 1 must not be aliased)
        [(S, "it"), (H, "it", 1), (A, "it"), (H, "it", 2), (A, "it"), (G, "it", 1),
         (H, "it", 2), (A, "it"), (G, "it", 1), (G, "it", 0)],
        # unbounded depth, then a lower depth, then a larger one again
        [(S, "ts"), (H, "ts", None), (S, "ts"), (H, "ts", None), (S, "ts"), (H, "ts", None),
         (S, "ts"), (G, "ts", 3), (H, "ts", 2), (S, "ts"), (H, "ts", 2), (S, "ts"),
         (H, "ts", 4), (S, "ts"), (H, "ts", 4), (G, "ts", 2), (H, "ts", 4), (G, "ts", 3)],
        # both storages in one write; shifting one must not move the other
        [(A, "both"), (S, "both"), (H, "ts", 3), (A, "both"), (H, "it", 2), (S, "it"),
         (G, "ts", 1), (G, "it", 1), (H, "ts", 3), (H, "it", 2), (G, "ts", 2), (G, "it", 1)],
        # shift on empty storage, depth larger than the number of stored values
        [(H, "ts", 5), (H, "it", None), (S, "ts"), (H, "ts", 5), (H, "ts", 5), (S, "ts"),
         (H, "ts", 5), (G, "ts", 3), (A, "it")],
        # two names interleaved
        [(S, "ts", 0), (S, "ts", 1), (H, "ts", 3, 0), (S, "ts", 0), (H, "ts", 2, 1), (A, "ts", 1),
         (H, "ts", 3, 0), (G, "ts", 1, 1), (G, "ts", 2, 0), (A, "ts", 0), (H, "ts", 2, 1),
         (G, "ts", 1, 1)],
    ]
    out = []
    X = gm.floor_recipes(dims=(2,), meshes=("cartesian",))
    for k, s in enumerate(seqs):
        nn = 2 if k == 5 else 1
        out.append({"layer": "dict", "seed": 100 + k, "nnames": nn, "size": 3, "ops": mk(s)})
        out.append({"layer": "es", "seed": 200 + k, "nnames": nn, "mdg": X[2 if k % 2 else 1],
                    "vars": [{"kind": "sd", "dof": {"cells": 1, "faces": 1}, "p": 1.0, "sel": 5},
                             {"kind": "intf", "dof": {"cells": 2}, "p": 1.0, "sel": 6}][:nn],
                    "ops": mk(s)})
    out.append({"layer": "dict", "seed": 99, "nnames": 1, "size": 0, "ops": mk(seqs[0])})
    out.append({"layer": "model", "seed": 7, "d_ts": 3, "d_it": 2, "ops": [],
                "events": ["iter", "iter", "step", "iter", "step", "step", "iter", "iter", "iter",
                           "step", "step"]})
    out.append({"layer": "model", "seed": 8, "d_ts": 1, "d_it": 4, "ops": [],
                "events": ["iter", "iter", "iter", "iter", "iter", "step", "iter", "step"]})
    return out


# ---------------------------------------------------------------------------------- check
class _Abort(Exception):
    pass


class _Hist:
    """Common part of both layers: unique ids, the model, comparisons."""

    def __init__(self, case, mon):
        import porepy as pp
        self.pp = pp
        self.mon = mon
        self.case = case
        self.k = 0                       # write counter -> unique id 2**k
        self.loc = {"ts": pp.TIME_STEP_SOLUTIONS, "it": pp.ITERATE_SOLUTIONS}
        self.step = -1
        self.shift_after_write = False
        self.deep_compare = False
        self.last_depth = {}

    def payload(self, size):
        v = 2.0 ** self.k + (np.arange(size, dtype=float) + 1.0) / 4096.0
        self.k += 1
        return v

    def viol(self, mech, detail):
        d = {"step": self.step, "op": self.case["ops"][self.step] if self.step >= 0 else None,
             "layer": self.case["layer"]}
        d.update(detail)
        self.mon.violation(mech, d)
        raise _Abort()

    def compare_all(self, what):
        """Direct reads of the data dictionaries against the model (harness side, in
        addition to the post-conditions)."""
        for (did, loc, name), W in cw.CTX.windows.items():
            data = cw.CTX.datas[did]
            for i, want in enumerate(W.L):
                try:
                    got = data[loc][name][i]
                except KeyError:
                    self.viol("window-slot-missing-below-depth",
                              {"what": what, "loc": loc, "name": name, "index": i})
                self.mon.count("slots_compared")
                if i >= 1:
                    self.mon.count("slots_compared_index_ge_1")
                    self.deep_compare = True
                if got.shape != want.shape or not np.array_equal(got, want):
                    self.viol("window-slot-is-not-the-ith-most-recent-write",
                              {"what": what, "loc": loc, "name": name, "index": i,
                               "depth": len(W.L),
                               "stored_write_ids": cw.write_ids(got[0]) if got.size else [],
                               "expected_write_ids": cw.write_ids(want[0]) if want.size else []})
            self.mon.measure("window_depth", len(W.L))

    def note_depth(self, key, d):
        old = self.last_depth.get(key, "unset")
        if old != "unset" and d is not None and (old is None or d < old):
            self.mon.count("depth_decreased_within_history")
        if old != "unset" and old is not None and (d is None or d > old):
            self.mon.count("depth_increased_within_history")
        self.last_depth[key] = d
        self.mon.count("shift_depth_none" if d is None else f"shift_depth_{d}")

    def flush(self):
        for k, v in cw.CTX.counts.items():
            self.mon.count(k, v)
        self.mon.count("write_ids_used", self.k)


def _call(h, fn, *a, **kw):
    """Call the real function; a failed post-condition becomes a violation."""
    try:
        return fn(*a, **kw)
    except cw.WindowViolation as e:
        h.viol(e.mechanism, e.detail)


# -- layer "dict": the ad_utils helpers on a data dictionary
def _run_dict(case, mon, h):
    pp = h.pp
    data = {}
    n = int(case["size"])
    names = [f"v{k}" for k in range(case["nnames"])]
    cw.CTX.datas[id(data)] = data
    for k, op in enumerate(case["ops"]):
        h.step = k
        name = names[op["name"] % len(names)]
        sts = ["it", "ts"] if op["st"] == "both" else [op["st"]]
        Ws = [cw.CTX.window(data, h.loc[s], name) for s in sts]
        if op["op"] == "set":
            v = h.payload(n)
            arg = v.copy()
            kw = {a: 0 for a in ST[op["st"]]}
            if op["add"]:
                empty = [not W.L for W in Ws]
                if any(empty) and not all(empty):
                    mon.excluded("additive write to both storages with exactly one empty slot")
                    continue
                mon.count("op_add")
                if all(empty):
                    try:
                        pp.set_solution_values(name, arg, data, additive=True, **kw)
                    except ValueError:
                        mon.count("additive_to_empty_slot_rejected")
                    except cw.WindowViolation as e:
                        h.viol(e.mechanism, e.detail)
                    else:
                        h.viol("additive-write-to-empty-slot-accepted", {"name": name})
                    h.compare_all("after rejected additive write")
                    continue
                for W in Ws:
                    W.add0(v)
                _call(h, pp.set_solution_values, name, arg, data, additive=True, **kw)
            else:
                mon.count("op_set")
                for W in Ws:
                    W.set0(v)
                _call(h, pp.set_solution_values, name, arg, data, **kw)
            h.compare_all("after write")
            if arg.size:
                arg += 2.0 ** 40           # the argument is not aliased by the storage
                mon.count("argument_mutated_and_storage_rechecked")
                h.compare_all("after mutating the written argument")
        elif op["op"] == "shift":
            mon.count("op_shift")
            h.note_depth((name, op["st"]), op["d"])
            W = Ws[0]
            if W.L:
                h.shift_after_write = True
            W.shift(op["d"])
            _call(h, pp.shift_solution_values, name, data, h.loc[op["st"]], op["d"])
            h.compare_all("after shift")
        else:
            W = Ws[0]
            i = op["i"]
            mon.count("op_get")
            if i >= len(W.L):
                mon.count("get_index_wrapped_into_depth")
                if not W.L:
                    continue
                i = i % len(W.L)
            kw = {ST[op["st"]][0]: i}
            got = _call(h, pp.get_solution_values, name, data, **kw)
            if i >= 1:
                h.deep_compare = True
                mon.count("get_index_ge_1")
            if got.shape != W.L[i].shape or not np.array_equal(got, W.L[i]):
                h.viol("read-returns-a-value-other-than-the-ith-most-recent-write",
                       {"index": i, "returned_write_ids": cw.write_ids(got[0]) if got.size else []})
            if got.size:
                got += 2.0 ** 41           # mutate the returned array, re-read everything
                mon.count("returned_array_mutated_and_storage_rechecked")
                h.compare_all("after mutating a returned array")
                again = _call(h, pp.get_solution_values, name, data, **kw)
                if not np.array_equal(again, W.L[i]):
                    h.viol("read-after-mutating-an-earlier-read-differs", {"index": i})


# -- layer "es": the EquationSystem wrappers on an md-grid
def _run_es(case, mon, h):
    pp = h.pp
    if (int(case["mdg"].get("domain", [0])[0]) + len(case["vars"])) % 2 == 0:
        # subdomains and interfaces are numbered by separate counters; at the start of a
        # process the two ranges coincide.  Reproduce that state: let the interface counter
        # catch up with the grid counter (dummy mortar grids on one reused side grid), so
        # that the md-grid built next has subdomains and interfaces with EQUAL ids
        side = pp.CartGrid(np.array([1]))
        side.compute_geometry()
        probe = pp.MortarGrid(1, {pp.grids.mortar_grid.MortarSides.LEFT_SIDE: side}, None)
        for _ in range(max(0, min(side.id - probe.id, 5000))):
            pp.MortarGrid(1, {pp.grids.mortar_grid.MortarSides.LEFT_SIDE: side}, None)
        mon.count("md_grids_with_aligned_subdomain_and_interface_ids")
    mdg = gm.build(case["mdg"])
    if mdg.interfaces() and {g.id for g in mdg.subdomains()} & {i.id for i in mdg.interfaces()}:
        mon.count("md_grids_where_a_subdomain_and_an_interface_share_an_id")
    es = pp.ad.EquationSystem(mdg)
    ref = RefLayout(mdg)
    cw.CTX.es = es
    for k, spec in enumerate(case["vars"]):
        rng = np.random.default_rng(spec["sel"])
        kind = spec["kind"] if (spec["kind"] == "sd" or ref.intfs) else "sd"
        pool = ref.intfs if kind == "intf" else ref.sds
        grids = [g for g in pool if rng.random() < spec["p"]] or [pool[0]]
        rng.shuffle(grids)
        dof = {a: int(b) for a, b in spec["dof"].items()}
        if kind == "intf":
            dof = {"cells": max(1, dof.get("cells", 1))}
        kw = {"subdomains": grids} if kind == "sd" else {"interfaces": grids}
        md = es.create_variables(f"v{k}", dict(dof), **kw)
        for v, g in zip(md.sub_vars, grids):
            ref.add(v, f"v{k}", g, dof, call=k)
    names = [f"v{k}" for k in range(len(case["vars"]))]

    def data_of(e):
        d = mdg.interface_data(e.grid) if e.kind == "intf" else mdg.subdomain_data(e.grid)
        cw.CTX.datas[id(d)] = d
        return d

    def windows(e, sts):
        return [cw.CTX.window(data_of(e), h.loc[s], e.name) for s in sts]

    for e in ref.live:                      # register every window: untouched ones are checked too
        windows(e, ["it", "ts"])
    mon.measure("es_atomic_variables", len(ref.live))
    mon.measure("es_num_dofs", ref.num_dofs())

    def helper_calls():
        c = cw.CTX.counts
        return (c["contract_set_solution_values"], c["contract_shift_solution_values"],
                c["contract_get_solution_values"])

    for k, op in enumerate(case["ops"]):
        h.step = k
        rng = np.random.default_rng([case["seed"], k])
        name = names[op["name"] % len(names)]
        sts = ["it", "ts"] if op["st"] == "both" else [op["st"]]
        # selection: mostly the variables of one name (or a subset), sometimes everything
        r = rng.random()
        if r < 0.2:
            sub = list(ref.live)
        else:
            grp = [e for e in ref.live if e.name == name]
            m = int(rng.integers(1, len(grp) + 1))
            sub = [grp[int(j)] for j in rng.choice(len(grp), size=m, replace=False)]
            if rng.random() < 0.25:
                others = [e for e in ref.live if e.name != name]
                sub += [e for e in others if rng.random() < 0.3]
        if r < 0.1:
            sel, grp = None, list(ref.live)
        else:
            sel, grp = express(es, ref, sub, rng, mon.count)
        g_order = ref.global_order(grp)
        before = helper_calls()
        if op["op"] == "set":
            size = sum(e.size for e in g_order)
            v = h.payload(size)
            arg = v.copy()
            kw = {a: 0 for a in ST[op["st"]]}
            parts = {}
            a0 = 0
            for e in g_order:
                parts[id(e.var)] = v[a0:a0 + e.size]
                a0 += e.size
            if op["add"]:
                empty = [not W.L for e in g_order for W in windows(e, sts)]
                if any(empty) and not all(empty):
                    mon.excluded("additive EquationSystem write to a selection with some but "
                                 "not all slots empty")
                    continue
                mon.count("op_add")
                if all(empty):
                    try:
                        es.set_variable_values(arg, sel, additive=True, **kw)
                    except ValueError:
                        mon.count("additive_to_empty_slot_rejected")
                    except cw.WindowViolation as e:
                        h.viol(e.mechanism, e.detail)
                    else:
                        h.viol("additive-write-to-empty-slot-accepted", {"name": name})
                    h.compare_all("after rejected additive write")
                    continue
                for e in g_order:
                    for W in windows(e, sts):
                        W.add0(parts[id(e.var)])
                _call(h, es.set_variable_values, arg, sel, additive=True, **kw)
            else:
                mon.count("op_set")
                for e in g_order:
                    for W in windows(e, sts):
                        W.set0(parts[id(e.var)])
                _call(h, es.set_variable_values, arg, sel, **kw)
            if helper_calls()[0] > before[0]:
                mon.count("helper_calls_under_wrapper_set", helper_calls()[0] - before[0])
            h.compare_all("after write")
            if arg.size:
                arg += 2.0 ** 40
                mon.count("argument_mutated_and_storage_rechecked")
                h.compare_all("after mutating the written argument")
        elif op["op"] == "shift":
            mon.count("op_shift")
            st = op["st"]
            h.note_depth(("es", st), op["d"])
            for e in g_order:
                W, = windows(e, [st])
                if W.L:
                    h.shift_after_write = True
                W.shift(op["d"])
            fn = es.shift_time_step_values if st == "ts" else es.shift_iterate_values
            if op["d"] is None and rng.random() < 0.5:
                _call(h, fn, sel)
            else:
                _call(h, fn, sel, op["d"])
            if helper_calls()[1] > before[1]:
                mon.count("helper_calls_under_wrapper_shift", helper_calls()[1] - before[1])
            h.compare_all("after shift")
        else:
            st = op["st"]
            mon.count("op_get")
            depth = min([len(windows(e, [st])[0].L) for e in g_order], default=0)
            i = op["i"]
            if i >= depth:
                mon.count("get_index_wrapped_into_depth")
                if depth == 0:
                    continue
                i = i % depth
            want = np.concatenate([windows(e, [st])[0].L[i] for e in g_order])
            cw.CTX.expected_result = want
            kw = {ST[st][0]: i}
            try:
                got = _call(h, es.get_variable_values, sel, **kw)
            finally:
                cw.CTX.expected_result = None
            if i >= 1:
                h.deep_compare = True
                mon.count("get_index_ge_1")
            if helper_calls()[2] > before[2]:
                mon.count("helper_calls_under_wrapper_get", helper_calls()[2] - before[2])
            if got.shape != want.shape or not np.array_equal(got, want):
                h.viol("get_variable_values-not-the-ith-most-recent-writes-in-global-order",
                       {"index": i})
            if got.size:
                got += 2.0 ** 41
                mon.count("returned_array_mutated_and_storage_rechecked")
                h.compare_all("after mutating a returned vector")


# -- layer "model": the model's own use of the windows (depth = len(*_indices))
def _run_model(case, mon, h):
    import porepy as pp
    from porepy.applications.md_grids.model_geometries import SquareDomainOrthogonalFractures
    from porepy.models.fluid_mass_balance import SinglePhaseFlow
    d_ts, d_it = int(case["d_ts"]), int(case["d_it"])

    class M(SquareDomainOrthogonalFractures, SinglePhaseFlow):
        @property
        def time_step_indices(self):
            return np.arange(d_ts)

        @property
        def iterate_indices(self):
            return np.arange(d_it)

    cwd = os.getcwd()
    tmp = tempfile.mkdtemp(prefix="c08_model_", dir="/tmp")
    os.chdir(tmp)
    try:
        model = M({"fracture_indices": [0], "meshing_arguments": {"cell_size": 0.5},
                   "times_to_export": []})
        model.prepare_simulation()
        es = model.equation_system
        n = es.num_dofs()
        x0 = es.get_variable_values(iterate_index=0)
        W = {"ts": cw.Window(), "it": cw.Window()}
        W["ts"].L = [x0.copy() for _ in range(d_ts)]      # initialisation fills every index
        W["it"].L = [x0.copy() for _ in range(d_it)]

        def compare(what):
            for st, key in (("ts", "time_step_index"), ("it", "iterate_index")):
                for i, want in enumerate(W[st].L):
                    got = es.get_variable_values(**{key: i})
                    mon.count("slots_compared")
                    if i >= 1:
                        mon.count("slots_compared_index_ge_1")
                        h.deep_compare = True
                    if got.shape != want.shape or not np.array_equal(got, want):
                        h.viol("model-window-slot-is-not-the-ith-most-recent-solution",
                               {"what": what, "storage": st, "index": i, "depth": len(W[st].L),
                                "stored_write_ids": cw.write_ids(got[0]),
                                "expected_write_ids": cw.write_ids(want[0])})

        compare("after initialisation")
        for k, ev in enumerate(case["events"]):
            h.step = -1
            if ev == "iter":
                inc = h.payload(n)
                W["it"].shift(d_it)
                W["it"].add0(inc)
                model.after_nonlinear_iteration(inc.copy())
            else:
                sol = es.get_variable_values(iterate_index=0)
                W["ts"].shift(d_ts)
                W["ts"].set0(sol)
                model.update_solution(sol)
            h.shift_after_write = True
            mon.count("model_events_checked")
            mon.count("model_event_" + ev)
            compare(f"after event {k} ({ev})")
    finally:
        os.chdir(cwd)
        shutil.rmtree(tmp, ignore_errors=True)


def check(case, mon):
    global _REPORTED
    n = cw.install()
    if not _REPORTED:                     # once per worker process
        mon.count("aliases_patched", n)
        _REPORTED = True
    mon.count("icontract_in_use" if cw.HAVE_ICONTRACT else "plain_contract_fallback_in_use")
    cw.CTX.reset()
    cw.CTX.active = True
    h = _Hist(case, mon)
    mon.klass("layer:" + case["layer"])
    try:
        if case["layer"] == "dict":
            _run_dict(case, mon, h)
        elif case["layer"] == "model":
            cw.CTX.active = False            # global vectors are compared by the harness
            _run_model(case, mon, h)
        else:
            _run_es(case, mon, h)
    except _Abort:
        pass
    finally:
        h.flush()
        cw.CTX.reset()
    mon.nontrivial(h.shift_after_write and h.deep_compare)


def warmup():
    warm_grids(dims=(2,), simplex=False)
    from pvm.monitor import Monitor
    m = Monitor(PROP)
    m.begin_case(-1, {})
    try:                       # throw-away model run: discretization kernels compile here
        _run_model({"seed": 1, "d_ts": 1, "d_it": 1, "events": ["iter"], "ops": []}, m,
                   _Hist({"layer": "model", "ops": []}, m))
    except Exception:
        pass
    cw.install()
