"""C32 Coordinate maps and tangential-normal bases are orthonormal.

Invariant monitor: every matrix returned by ``map_geometry.rotation_matrix /
project_plane_matrix / project_line_matrix / map_grid`` and every block of
``TangentialNormalProjection`` is evaluated against the defining identities
(R R^T = I, det R = +1, normal -> +-e3, distances preserved, planar clouds get a constant
last coordinate, computed normals orthogonal to the cloud, normal component last).
"""
from __future__ import annotations

import numpy as np

from pvm.gen import grids as gg

PROP = "C32"
N = {"quick": 3000, "thorough": 300000}
WORKERS = {"quick": 4, "thorough": 16}
TIMEOUT = {"quick": 600, "thorough": 3000}
RULE = ("directions: random Gaussian, axis aligned (+-e_i), nearly axis aligned (+-e_i + 1e-7 "
        "noise), nearly anti-parallel to the reference axis, lengths 1e-3..1e3; planar clouds "
        "of 3-10 well spread points in the plane orthogonal to the direction (extent 1e-2..1e2, "
        "random origin); collinear clouds of 2-8 points; 1-D / 2-D grids rigidly embedded in "
        "3-D (shared grid recipes); batches of 1-12 normals in 2-D and 3-D for "
        "TangentialNormalProjection; non-trivial = direction not exactly the reference axis; "
        "distinct = case hash")
REACH = [
    ("geometry/map_geometry.py", "rotation_matrix"),
    ("geometry/map_geometry.py", "project_plane_matrix"),
    ("geometry/map_geometry.py", "project_line_matrix"),
    ("geometry/map_geometry.py", "compute_normal"),
    ("geometry/map_geometry.py", "compute_tangent"),
    ("geometry/map_geometry.py", "map_grid"),
    ("utils/tangential_normal_projection.py", "TangentialNormalProjection.__init__"),
    ("utils/tangential_normal_projection.py",
     "TangentialNormalProjection._construct_local_basis"),
    ("utils/tangential_normal_projection.py",
     "TangentialNormalProjection.project_tangential_normal"),
    ("utils/tangential_normal_projection.py", "TangentialNormalProjection.project_tangential"),
    ("utils/tangential_normal_projection.py", "TangentialNormalProjection.project_normal"),
]
REACH_LINES = [
    ("geometry/map_geometry.py", "return np.identity(3)"),
    ("utils/tangential_normal_projection.py", "tc1[other_dim[0], aligned_with_axis] = 1"),
    ("utils/tangential_normal_projection.py", "tc1[1, equal_zero] = 1"),
    ("geometry/map_geometry.py", "R = project_line_matrix(g.nodes)"),
    ("geometry/map_geometry.py", "R = project_plane_matrix(g.nodes, tol=tol)"),
]
REQUIRED = {
    "rotation_matrices_checked": 100, "plane_matrices_checked": 100,
    "line_matrices_checked": 50, "normals_checked": 50, "map_grid_checked": 10,
    "tnp_blocks_checked_3d": 50, "tnp_blocks_checked_2d": 50,
    "class_axis": 10, "class_near_axis": 10, "class_random": 50,
}
ASSUMPTIONS = [
    "normals / tangents are non-zero, planar clouds contain three well separated "
    "non-collinear points (documented precondition of compute_normal)",
    "the sign of a computed normal is arbitrary (documented): normal -> +e3 or -e3",
    "in 2-D TangentialNormalProjection chooses the tangent to point in the positive x "
    "direction (documented), which makes the block a reflection when n_y < 0 (or n = +e_x): "
    "'unit determinant' is asserted as |det| = 1 in 2-D and det = +1 in 3-D; the sign is "
    "recorded in the counters tnp_2d_det_plus / tnp_2d_det_minus",
]
LEVEL_TEXT = ("Orthogonality, orientation, normal-to-axis and isometry identities held within "
              "1e-10 (2e-5 for the image of the normal, limited by arccos near +-1) on all "
              "explored directions, clouds and embedded grids; exploration only.")
TECHNIQUE = "invariant monitor on returned matrices (orthogonality, determinant, isometry)"

TOL_ORTH = 1e-11       # floor observed ~4e-16
TOL_AXIS = 2e-5        # image of the normal: arccos(1 - eps) loses half the digits: the
                       # floor is sqrt(eps) ~ 1.5e-8 for directions within 1e-7 of the axis
                       # (observed 4e-9), 1e-13 for generic directions
TOL_ISO = 1e-10
E3 = np.array([0.0, 0.0, 1.0])


# ------------------------------------------------------------------------- generators
def _direction(rng, dim=3):
    cls = str(rng.choice(["random", "axis", "near_axis", "near_anti"], p=[0.55, 0.15, 0.2, 0.1]))
    if cls == "random":
        v = rng.normal(size=dim)
    elif cls == "axis":
        v = np.zeros(dim)
        v[int(rng.integers(0, dim))] = rng.choice([-1.0, 1.0])
    elif cls == "near_axis":
        v = np.zeros(dim)
        v[int(rng.integers(0, dim))] = rng.choice([-1.0, 1.0])
        v = v + float(rng.choice([1e-7, 1e-5, 1e-9])) * rng.normal(size=dim)
    else:
        v = np.zeros(dim)
        v[-1] = -1.0
        v = v + float(rng.choice([1e-7, 1e-4, 1e-2])) * rng.normal(size=dim)
    scale = float(10.0 ** rng.uniform(-3, 3)) if rng.random() < 0.5 else 1.0
    return [float(x) for x in v * scale], cls


def _coeffs(rng, n):
    """Well spread in-plane coefficients: a triangle plus random points."""
    ab = [[1.0, 0.0], [-0.5, 0.9], [-0.6, -0.8]]
    ab += [[float(x) for x in rng.uniform(-1, 1, size=2)] for _ in range(n - 3)]
    perm = rng.permutation(len(ab))
    return [ab[int(i)] for i in perm]


def floor(tier):
    out = []
    for v in ([0, 0, 1], [0, 0, -1], [1, 0, 0], [0, -1, 0], [1, 1, 1], [1e-7, 0, 1],
              [0, 1e-7, -1], [3, -4, 12]):
        out.append({"kind": "plane", "cls": "floor", "n": [float(x) for x in v],
                    "ab": [[1, 0], [0, 1], [-1, -1], [0.5, 0.25]], "extent": 1.0,
                    "origin": [0.5, -1.0, 2.0], "seed": 1, "reference": None})
        out.append({"kind": "line", "cls": "floor", "t": [float(x) for x in v],
                    "k": [0.0, 1.0, -2.0, 0.5], "origin": [1.0, 2.0, 3.0], "reference": None})
        out.append({"kind": "rotation", "cls": "floor", "a": 0.7, "vect": [float(x) for x in v]})
    out.append({"kind": "rotation", "cls": "floor", "a": 1.0, "vect": [0.0, 0.0, 0.0]})
    out.append({"kind": "rotation", "cls": "floor", "a": np.pi, "vect": [1.0, 2.0, 3.0]})
    out.append({"kind": "plane", "cls": "floor", "n": [1.0, 2.0, -1.0],
                "ab": [[1, 0], [0, 1], [-1, -1]], "extent": 1.0, "origin": [0.0, 0.0, 0.0],
                "seed": 2, "reference": [1.0, 0.0, 0.0]})
    for r in gg.floor_recipes(dims=(1, 2)):
        out.append({"kind": "mapgrid", "cls": "floor", "grid": r})
    out.append({"kind": "tnp", "cls": "floor", "dim": 3,
                "normals": [[0, 0, 1], [0, 0, -1], [1, 0, 0], [-1, 0, 0], [0, 1, 0], [0, -1, 0],
                            [1, 1, 1], [1e-9, 0, 1], [2, -3, 0.5]]})
    out.append({"kind": "tnp", "cls": "floor", "dim": 2,
                "normals": [[1, 0], [-1, 0], [0, 1], [0, -1], [1, 2], [1, -2], [-3, 1],
                            [-1, -1e-9]]})
    out.append({"kind": "tnp", "cls": "floor", "dim": 3, "normals": [[1, 2, 3]]})
    return out


def generate(rng, tier, i):
    kind = str(rng.choice(["plane", "line", "rotation", "mapgrid", "tnp"],
                          p=[0.33, 0.2, 0.17, 0.08, 0.22]))
    if kind == "plane":
        n, cls = _direction(rng)
        ref = None
        if rng.random() < 0.15:
            ref = [float(x) for x in np.eye(3)[int(rng.integers(0, 3))] * rng.choice([-1, 1])]
        return {"kind": kind, "cls": cls, "n": n, "ab": _coeffs(rng, int(rng.integers(3, 11))),
                "extent": float(10.0 ** rng.uniform(-2, 2)),
                "origin": [float(x) for x in rng.uniform(-5, 5, size=3)],
                "seed": int(rng.integers(0, 2 ** 31)), "reference": ref}
    if kind == "line":
        t, cls = _direction(rng)
        n = int(rng.integers(2, 9))
        k = rng.uniform(-1, 1, size=n) * float(10.0 ** rng.uniform(-2, 2))
        k[0], k[-1] = -abs(k).max() - 0.1, abs(k).max() + 0.1
        ref = None
        if rng.random() < 0.15:
            ref = [float(x) for x in np.eye(3)[int(rng.integers(0, 3))] * rng.choice([-1, 1])]
        return {"kind": kind, "cls": cls, "t": t, "k": [float(x) for x in rng.permutation(k)],
                "origin": [float(x) for x in rng.uniform(-5, 5, size=3)], "reference": ref}
    if kind == "rotation":
        v, cls = _direction(rng)
        a = float(rng.choice([rng.uniform(-7, 7), 0.0, np.pi, np.pi / 2, 1e-8, -np.pi]))
        return {"kind": kind, "cls": cls, "a": a, "vect": v}
    if kind == "mapgrid":
        r = gg.random_recipe(rng, dims=(1, 2), max_cells=30, rigid="embedded")
        return {"kind": kind, "cls": "grid", "grid": r}
    dim = int(rng.choice([2, 3]))
    nv = int(rng.integers(1, 13))
    normals, classes = [], []
    for _ in range(nv):
        v, c = _direction(rng, dim)
        normals.append(v)
        classes.append(c)
    return {"kind": kind, "cls": classes[0], "dim": dim, "normals": normals}


# ------------------------------------------------------------------------------- check
def _plane_basis(n):
    n = n / np.linalg.norm(n)
    k = int(np.argmin(np.abs(n)))
    u = np.cross(n, np.eye(3)[k])
    u /= np.linalg.norm(u)
    v = np.cross(n, u)
    return u, v


def _is_rotation(mon, R, name, detail):
    ok = mon.close(name + "_orthogonality", R @ R.T, np.eye(3), TOL_ORTH,
                   name + ":not-orthogonal", scale=1.0, detail=detail)
    ok &= mon.close(name + "_determinant", np.linalg.det(R), 1.0, TOL_ORTH,
                    name + ":determinant-not-plus-one", scale=1.0, detail=detail)
    return ok


def check(case, mon):
    kind = case["kind"]
    mon.klass(kind)
    cls = case.get("cls", "?")
    mon.klass("direction:" + cls)
    mon.count("class_" + cls)
    globals()["_check_" + kind](case, mon)


def _check_rotation(case, mon):
    from porepy.geometry import map_geometry as mg
    a = float(case["a"])
    v = np.array(case["vect"], dtype=float)
    R = mg.rotation_matrix(a, v.copy())
    mon.count("rotation_matrices_checked")
    mon.nontrivial(bool(np.any(v)))
    d = {"a": a, "vect": case["vect"]}
    if np.allclose(v, 0):
        # documented: zero vector -> identity
        mon.close("rotation_zero_axis", R, np.eye(3), 0.0, "rotation_matrix:zero-axis-not-identity",
                  scale=1.0, detail=d)
        mon.count("rotation_zero_axis")
        return
    _is_rotation(mon, R, "rotation_matrix", d)
    ax = v / np.linalg.norm(v)
    mon.close("rotation_axis_fixed", R @ ax, ax, TOL_ISO, "rotation_matrix:axis-not-fixed",
              scale=1.0, detail=d)
    mon.close("rotation_angle_trace", np.trace(R), 1 + 2 * np.cos(a), TOL_ISO,
              "rotation_matrix:wrong-angle", scale=1.0, detail=d)
    # right-handed sense: for w orthogonal to the axis, (w x R w) . axis = sin(a)
    u, _ = _plane_basis(ax)
    mon.close("rotation_sense", np.dot(np.cross(u, R @ u), ax), np.sin(a), TOL_ISO,
              "rotation_matrix:wrong-sense", scale=1.0, detail=d)


def _check_plane(case, mon):
    from porepy.geometry import map_geometry as mg
    n = np.array(case["n"], dtype=float)
    nh = n / np.linalg.norm(n)
    u, v = _plane_basis(n)
    ab = np.array(case["ab"], dtype=float) * float(case["extent"])
    o = np.array(case["origin"], dtype=float)
    P = (o[:, None] + np.outer(u, ab[:, 0]) + np.outer(v, ab[:, 1]))
    L = float(case["extent"])
    ref = case.get("reference")
    refv = E3 if ref is None else np.array(ref, dtype=float)
    d = {"n": case["n"], "reference": ref}
    mon.nontrivial(not np.allclose(np.abs(nh), np.abs(refv)))

    # computed normal: unit, orthogonal to every in-plane difference
    cn = mg.compute_normal(P.copy())
    mon.count("normals_checked")
    mon.close("normal_unit_length", np.linalg.norm(cn), 1.0, TOL_ORTH,
              "compute_normal:not-unit", scale=1.0, detail=d)
    diffs = (P[:, :, None] - P[:, None, :]).reshape(3, -1)
    mon.close("normal_orthogonal_to_cloud", cn @ diffs / L, np.zeros(diffs.shape[1]), 1e-9,
              "compute_normal:not-orthogonal-to-cloud", scale=1.0, detail=d)
    mon.close("normal_parallel_to_truth", abs(float(cn @ nh)), 1.0, 1e-9,
              "compute_normal:not-the-plane-normal", scale=1.0, detail=d)

    variants = [("given", dict(normal=n.copy())), ("computed", dict())]
    for tag, kw in variants:
        if ref is not None:
            kw["reference"] = np.array(ref, dtype=float)
        R = mg.project_plane_matrix(P.copy(), **kw)
        mon.count("plane_matrices_checked")
        name = "project_plane_matrix"
        _is_rotation(mon, R, name, d)
        img = R @ nh
        sgn = float(np.sign(img @ refv)) or 1.0
        mon.count("plane_normal_to_plus_axis" if sgn > 0 else "plane_normal_to_minus_axis")
        mon.close("plane_normal_to_axis:" + case.get("cls", "?"), img, sgn * refv, TOL_AXIS,
                  name + ":normal-not-mapped-to-reference-axis", scale=1.0,
                  detail={**d, "variant": tag, "image": img.tolist()})
        if tag == "given":
            anti = float(nh @ refv) < -1 + 1e-12
            if not anti and sgn < 0:
                mon.violation(name + ":given-normal-mapped-to-minus-axis", d)
        Q = R @ P
        k = int(np.argmax(np.abs(refv)))
        if ref is None or True:
            # constant coordinate along the reference axis for the mapped planar cloud
            comp = refv @ Q
            mon.close("plane_constant_last_coordinate", (comp - comp[0]) / max(L, 1e-300),
                      np.zeros(comp.size), TOL_AXIS,
                      name + ":mapped-cloud-not-flat", scale=1.0, detail={**d, "variant": tag})
        D0 = np.linalg.norm(P[:, :, None] - P[:, None, :], axis=0)
        D1 = np.linalg.norm(Q[:, :, None] - Q[:, None, :], axis=0)
        mon.close("plane_distances_preserved", D1, D0, TOL_ISO,
                  name + ":distances-not-preserved", scale=max(D0.max(), 1e-300),
                  detail={**d, "variant": tag})


def _check_line(case, mon):
    from porepy.geometry import map_geometry as mg
    t = np.array(case["t"], dtype=float)
    th = t / np.linalg.norm(t)
    k = np.array(case["k"], dtype=float)
    o = np.array(case["origin"], dtype=float)
    P = o[:, None] + np.outer(th, k)
    L = float(np.ptp(k))
    ref = case.get("reference")
    refv = E3 if ref is None else np.array(ref, dtype=float)
    d = {"t": case["t"], "reference": ref}
    mon.nontrivial(not np.allclose(np.abs(th), np.abs(refv)))
    ct = mg.compute_tangent(P.copy())
    mon.close("tangent_unit_parallel", abs(float(ct @ th)), 1.0, 1e-9,
              "compute_tangent:not-the-line-direction", scale=1.0, detail=d)
    for tag, kw in (("given", dict(tangent=t.copy())), ("computed", dict())):
        if ref is not None:
            kw["reference"] = np.array(ref, dtype=float)
        R = mg.project_line_matrix(P.copy(), **kw)
        mon.count("line_matrices_checked")
        name = "project_line_matrix"
        _is_rotation(mon, R, name, d)
        img = R @ th
        sgn = float(np.sign(img @ refv)) or 1.0
        mon.close("line_tangent_to_axis:" + case.get("cls", "?"), img, sgn * refv, TOL_AXIS,
                  name + ":tangent-not-mapped-to-reference-axis", scale=1.0,
                  detail={**d, "variant": tag, "image": img.tolist()})
        Q = R @ P
        # the two coordinates orthogonal to the reference axis are constant
        perp = Q - np.outer(refv, refv @ Q)
        mon.close("line_constant_other_coordinates", (perp - perp[:, [0]]) / L,
                  np.zeros_like(perp), TOL_AXIS,
                  name + ":mapped-line-not-straight-along-axis", scale=1.0,
                  detail={**d, "variant": tag})
        D0 = np.abs(k[:, None] - k[None, :])
        D1 = np.linalg.norm(Q[:, :, None] - Q[:, None, :], axis=0)
        mon.close("line_distances_preserved", D1, D0, TOL_ISO,
                  name + ":distances-not-preserved", scale=L, detail={**d, "variant": tag})


def _check_mapgrid(case, mon):
    from porepy.geometry import map_geometry as mg
    g = gg.build(case["grid"])
    cc, fn, fc, R, dim, nodes = mg.map_grid(g)
    mon.count("map_grid_checked")
    mon.klass(f"mapgrid:{g.dim}d")
    mon.nontrivial(case["grid"].get("rigid") is not None)
    d = {"grid": case["grid"]}
    _is_rotation(mon, R, "map_grid", d)
    if int(np.sum(dim)) != g.dim or cc.shape != (g.dim, g.num_cells) or \
            fn.shape != (g.dim, g.num_faces) or fc.shape != (g.dim, g.num_faces) or \
            nodes.shape != (g.dim, g.num_nodes):
        mon.violation("map_grid:wrong-shapes", {**d, "dim": np.asarray(dim).tolist()})
        return
    L = float(np.linalg.norm(np.ptp(g.nodes, axis=1)))
    # isometry on the reduced coordinates: all pairwise distances between nodes, face
    # centres and cell centres are preserved after dropping the inactive rows
    X0 = np.hstack([g.nodes, g.face_centers, g.cell_centers])
    X1 = np.hstack([nodes, fc, cc])
    idx = np.arange(X0.shape[1])
    if idx.size > 60:
        idx = idx[:: idx.size // 60 + 1]
    D0 = np.linalg.norm(X0[:, idx, None] - X0[:, None, idx], axis=0)
    D1 = np.linalg.norm(X1[:, idx, None] - X1[:, None, idx], axis=0)
    mon.close("map_grid_distances_preserved", D1, D0, TOL_ISO,
              "map_grid:distances-not-preserved", scale=L, detail=d)
    # normals keep their length (they are tangent to the grid plane / line)
    mon.close("map_grid_normal_lengths", np.linalg.norm(fn, axis=0),
              np.linalg.norm(g.face_normals, axis=0), TOL_ISO,
              "map_grid:normal-length-changed", scale=float(np.max(g.face_areas)), detail=d)
    # mapped normals are the rotated normals: angle to mapped (centre differences) kept
    fi = np.arange(g.num_faces)
    cf = g.cell_faces.tocsr()
    ci = np.array([cf.indices[cf.indptr[f]] for f in fi])
    s0 = np.sum(g.face_normals * (g.face_centers - g.cell_centers[:, ci]), axis=0)
    s1 = np.sum(fn * (fc - cc[:, ci]), axis=0)
    mon.close("map_grid_normal_dot_kept", s1, s0, TOL_ISO, "map_grid:normals-not-rotated-with-grid",
              scale=float(np.max(np.abs(s0))) + 1e-300, detail=d)


def _check_tnp(case, mon):
    import porepy as pp
    dim = int(case["dim"])
    Nrm = np.array(case["normals"], dtype=float).T
    nv = Nrm.shape[1]
    Nh = Nrm / np.linalg.norm(Nrm, axis=0)
    proj = pp.TangentialNormalProjection(Nrm.copy())
    mon.nontrivial(True)
    d = {"normals": case["normals"]}
    M = proj.project_tangential_normal().toarray()
    if M.shape != (dim * nv, dim * nv):
        mon.violation("TangentialNormalProjection:wrong-shape", {**d, "shape": list(M.shape)})
        return
    mask = np.kron(np.eye(nv), np.ones((dim, dim)))
    mon.close("tnp_block_diagonal", M * (1 - mask), np.zeros_like(M), 0.0,
              "TangentialNormalProjection:not-block-diagonal", scale=1.0, detail=d)
    e_last = np.zeros(dim)
    e_last[-1] = 1.0
    for i in range(nv):
        B = M[dim * i:dim * (i + 1), dim * i:dim * (i + 1)]
        di = {"normal": case["normals"][i], "block": B.tolist()}
        if dim == 3:
            # the code treats |n - (n.e_k) e_k| < 1e-8 as axis aligned and then uses e_j as
            # first tangent: inside (0, 1e-7) the basis is orthogonal only to ~1e-8
            k = int(np.argmax(np.abs(Nh[:, i])))
            off = float(np.linalg.norm(np.delete(Nh[:, i], k)))
            if 0.0 < off < 1e-7:
                mon.excluded("TangentialNormalProjection: normal inside the 1e-8 axis-alignment "
                             "band of the code")
                continue
        mon.count(f"tnp_blocks_checked_{dim}d")
        mon.close("tnp_orthogonality", B @ B.T, np.eye(dim), 1e-10,
                  "TangentialNormalProjection:block-not-orthogonal", scale=1.0, detail=di)
        det = float(np.linalg.det(B))
        if dim == 3:
            mon.close("tnp_determinant_3d", det, 1.0, 1e-10,
                      "TangentialNormalProjection:determinant-not-plus-one-3d", scale=1.0,
                      detail=di)
        else:
            mon.close("tnp_abs_determinant_2d", abs(det), 1.0, 1e-10,
                      "TangentialNormalProjection:determinant-not-unit-2d", scale=1.0, detail=di)
            mon.count("tnp_2d_det_plus" if det > 0 else "tnp_2d_det_minus")
            # documented convention: tangent points in the positive x direction
            # (positive y if the normal is along x)
            t = B[0]
            okc = t[0] > 0 or (Nh[1, i] == 0 and t[0] == 0 and t[1] > 0)
            if not okc:
                mon.violation("TangentialNormalProjection:2d-tangent-sign-convention", di)
        # normal component last: B n = e_last, last row = unit normal
        mon.close("tnp_normal_to_last_axis", B @ Nh[:, i], e_last, 1e-10,
                  "TangentialNormalProjection:normal-not-last-component", scale=1.0, detail=di)
        mon.close("tnp_last_row_is_normal", B[-1], Nh[:, i], 1e-10,
                  "TangentialNormalProjection:last-row-not-the-normal", scale=1.0, detail=di)
    mon.close("tnp_normals_attribute", proj.normals, Nh, 1e-14,
              "TangentialNormalProjection:normals-attribute", scale=1.0, detail=d)
    # stacked tangential / normal restrictions are the corresponding rows of the full map
    T = proj.project_tangential().toarray()
    Nn = proj.project_normal().toarray()
    rows_n = np.arange(dim - 1, dim * nv, dim)
    rows_t = np.setdiff1d(np.arange(dim * nv), rows_n)
    mon.close("tnp_tangential_rows", T, M[rows_t], 0.0,
              "TangentialNormalProjection:project_tangential-rows", scale=1.0, detail=d)
    mon.close("tnp_normal_rows", Nn, M[rows_n], 0.0,
              "TangentialNormalProjection:project_normal-rows", scale=1.0, detail=d)
    # repeated first projection
    k = 3
    Mk = proj.project_tangential_normal(k).toarray()
    mon.close("tnp_repeated_first", Mk, np.kron(np.eye(k), M[:dim, :dim]), 0.0,
              "TangentialNormalProjection:num-argument-not-first-block-repeated", scale=1.0,
              detail=d)
    mon.count("tnp_objects_checked")
