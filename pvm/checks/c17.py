"""C17 Upwinding picks the upstream cell and transports conservatively.

Monitor: the matrices ``transport`` (upwind), ``rhs_dir`` and ``rhs_neu`` that
``pp.Upwind.discretize`` leaves in the data dictionary are compared entry by entry with a
reference built from the signs of ``cell_faces`` only: a face with non-zero flux selects the
cell the flux leaves, nothing on Neumann faces and Dirichlet inflow faces; boundary data enter
on exactly those faces.  The multi-component matrices must be the Kronecker expansion.  Then
one explicit step  c+ = c - dt/V div (q o (upwind c))  with a discretely divergence-free q,
no-flow boundary and dt = 0.9 CFL is monitored for conservation and the maximum principle.
"""
from __future__ import annotations

import numpy as np
import scipy.sparse as sps
import scipy.sparse.csgraph  # noqa: F401
import scipy.sparse.linalg  # noqa: F401

import porepy as pp

from pvm.gen import grids as gg
from pvm.gen import mdg as gm

PROP = "C17"
N = {"quick": 240, "thorough": 30000}
WORKERS = {"quick": 4, "thorough": 16}
TIMEOUT = {"quick": 900, "thorough": 3000}
CASE_TIMEOUT = 120.0
RULE = ("grids: seeded recipes 1-D/2-D/3-D (all kinds, perturbed, affine, rigidly embedded) "
        "and subdomains (dim >= 1) of fractured md-grids (split faces along fractures are "
        "one-sided boundary faces); flux fields: random normal, with a random share of exact "
        "zeros, integer-valued, uniform-direction (Upwind.darcy_flux) -> mixed signs on "
        "boundary faces; boundary types: random per-face Dirichlet/Neumann on all one-sided "
        "faces, all-Dirichlet, all-Neumann, or no 'bc' entry (documented default); k = 1..3 "
        "components; transport: random interior flux projected to the kernel of the grid's own "
        "div, zero on the boundary, random and indicator concentrations.  non-trivial = at "
        "least 2 cells and at least one non-zero flux; distinct = case hash")
REACH = [("numerics/fv/upwind.py", "Upwind.discretize")]
REACH_LINES = [
    ("numerics/fv/upwind.py", "upstream_cell_ind[pos_flux] = cf_dense[0, pos_flux]"),
    ("numerics/fv/upwind.py", 'bc = pp.BoundaryCondition(sd, sd.get_boundary_faces(), "dir")'),
]
REQUIRED = {"discretizations": 80, "faces_nonzero_flux_interior": 500,
            "faces_dirichlet_inflow": 100, "faces_dirichlet_outflow": 100,
            "faces_neumann": 200, "faces_zero_flux": 100, "kron_checked": 40,
            "transport_steps": 20, "split_grid_cases": 5, "fracture_faces_seen": 10,
            "grids_1d": 5, "grids_2d": 15, "grids_3d": 8}
ASSUMPTIONS = [
    "Robin faces are not generated (not in the statement)",
    "rows of faces with exactly zero flux are only required to hold at most one unit entry "
    "in an adjacent cell (none on Neumann faces is not demanded there); the Dirichlet "
    "boundary matrix may hold 0 or 1 on such faces",
    "divergence-free means: in the kernel of the grid's own div restricted to interior faces "
    "(residual <= 1e-13 relative, else the case is undecided)",
]
LEVEL_TEXT = ("Exploration: on every generated (grid, flux, boundary assignment, k) each "
              "upwind / boundary matrix entry equals the reference derived from cell_faces "
              "signs, the k-component matrices are the Kronecker expansion, and one explicit "
              "CFL-limited step with a divergence-free flux conserves the total amount and "
              "stays within the initial bounds (1e-12 relative).")
TECHNIQUE = "reference-model monitor (cell_faces sign oracle) + invariant monitor on a transport step"
TOL = 1e-12


# ----------------------------------------------------------------------------- cases
def _case(src, grid, sd_rank, flux_mode, flux_seed, zero_frac, bc_mode, bc_seed, p_dir, k,
          tseed):
    return {"src": src, "grid": grid, "sd_rank": int(sd_rank), "flux_mode": flux_mode,
            "flux_seed": int(flux_seed), "zero_frac": float(zero_frac), "bc_mode": bc_mode,
            "bc_seed": int(bc_seed), "p_dir": float(p_dir), "k": int(k), "tseed": int(tseed)}


FLUX_MODES = ("normal", "zeros", "integer", "uniform")
BC_MODES = ("mixed", "all_dir", "all_neu", "default")


def floor(tier):
    out = []
    i = 0
    for r in gg.floor_recipes():
        out.append(_case("grid", r, 0, FLUX_MODES[i % 4], 10 + i, 0.3, BC_MODES[i % 4],
                         20 + i, 0.5, 1 + i % 3, 30 + i))
        i += 1
    for r in gm.floor_recipes():
        for rank in (0, 1):
            out.append(_case("mdg", r, rank, FLUX_MODES[i % 4], 10 + i, 0.3,
                             BC_MODES[i % 3], 20 + i, 0.5, 1 + i % 3, 30 + i))
            i += 1
    # all-zero flux field; single cell
    out.append(_case("grid", {"kind": "cart", "dim": 2, "n": [2, 2], "phys": [1.0, 1.0]}, 0,
                     "zeros", 1, 1.0, "mixed", 2, 0.5, 2, 3))
    out.append(_case("grid", {"kind": "cart", "dim": 3, "n": [1, 1, 1],
                              "phys": [1.0, 1.0, 1.0]}, 0, "normal", 1, 0.0, "mixed", 2, 0.5,
                     3, 3))
    return out


def generate(rng, tier, i):
    if rng.random() < 0.2:
        src = "mdg"
        grid = gm.random_recipe(rng, dims=(2, 3), max_fracs=3, p3d=0.2)
        rank = int(rng.integers(0, 4))
    else:
        src = "grid"
        grid = gg.random_recipe(rng, rigid="embedded", max_cells=80)
        rank = 0
    return _case(src, grid, rank,
                 str(rng.choice(FLUX_MODES, p=[0.4, 0.3, 0.15, 0.15])),
                 int(rng.integers(0, 2**31)), float(rng.choice([0.1, 0.3, 0.6])),
                 str(rng.choice(BC_MODES, p=[0.6, 0.15, 0.1, 0.15])),
                 int(rng.integers(0, 2**31)), float(rng.choice([0.2, 0.5, 0.8])),
                 int(rng.integers(1, 4)), int(rng.integers(0, 2**31)))


def _build_mdg(recipe):
    """gmsh writes 'gmsh_frac_file.msh' into the working directory: build inside a private
    scratch directory so that concurrent workers cannot clobber each other's mesh file."""
    import os
    import shutil
    import tempfile
    old = os.getcwd()
    tmp = tempfile.mkdtemp(prefix=f"c17_{os.getpid()}_", dir="/tmp")
    try:
        os.chdir(tmp)
        return gm.build(recipe)
    finally:
        os.chdir(old)
        shutil.rmtree(tmp, ignore_errors=True)


def _grid(case):
    if case["src"] == "grid":
        return gg.build(case["grid"]), False
    mdg = _build_mdg(case["grid"])
    sds = [sd for sd in mdg.subdomains() if sd.dim >= 1]
    return sds[case["sd_rank"] % len(sds)], True


def _flux(case, g, discr):
    rng = np.random.default_rng(case["flux_seed"])
    nf = g.num_faces
    mode = case["flux_mode"]
    if mode == "normal":
        q = rng.normal(size=nf)
    elif mode == "zeros":
        q = rng.normal(size=nf)
        q[rng.random(nf) < case["zero_frac"]] = 0.0
    elif mode == "integer":
        q = rng.integers(-2, 3, size=nf).astype(float)
    else:
        beta = rng.normal(size=3)
        if rng.random() < 0.5:      # axis-aligned direction: many exactly-zero fluxes
            beta = np.eye(3)[int(rng.integers(0, 3))] * float(rng.choice([-1.0, 1.0]))
        q = np.asarray(discr.darcy_flux(g, beta), dtype=float)
    return q


def _bc(case, g):
    """Returns (bc object or None, is_dir, is_neu) - the *effective* face types."""
    rng = np.random.default_rng(case["bc_seed"])
    nf = g.num_faces
    bf = g.get_all_boundary_faces()
    mode = case["bc_mode"]
    is_dir = np.zeros(nf, dtype=bool)
    if mode == "default":
        # documented default of Upwind.discretize without a 'bc' entry: Dirichlet on the
        # domain boundary faces, Neumann on the remaining one-sided faces
        is_dir[g.get_boundary_faces()] = True
        is_neu = np.zeros(nf, dtype=bool)
        is_neu[bf] = True
        is_neu[is_dir] = False
        return None, is_dir, is_neu
    if mode == "all_dir":
        d = np.ones(bf.size, dtype=bool)
    elif mode == "all_neu":
        d = np.zeros(bf.size, dtype=bool)
    else:
        d = rng.random(bf.size) < case["p_dir"]
    is_dir[bf[d]] = True
    is_neu = np.zeros(nf, dtype=bool)
    is_neu[bf[~d]] = True
    bc = pp.BoundaryCondition(g, bf, np.where(d, "dir", "neu"))
    return bc, is_dir, is_neu


def _discretize(g, q, bc, k):
    discr = pp.Upwind("transport")
    params = {discr.flux_array_key: q}
    if bc is not None:
        params["bc"] = bc
    if k is not None:
        params["num_components"] = k
    data = pp.initialize_data({}, "transport", params)
    discr.discretize(g, data)
    M = data[pp.DISCRETIZATION_MATRICES]["transport"]
    return (sps.csr_matrix(M[discr.upwind_matrix_key]),
            sps.csr_matrix(M[discr.bound_transport_dir_matrix_key]),
            sps.csr_matrix(M[discr.bound_transport_neu_matrix_key]))


# --------------------------------------------------------------------------- oracle
def _face_oracle(mon, g, q, is_dir, is_neu, U, Bd, Bn):
    nf, nc = g.num_faces, g.num_cells
    fi, ci, sg = sps.find(g.cell_faces)
    nbr = [[] for _ in range(nf)]
    for f, c, s in zip(fi, ci, sg):
        nbr[f].append((int(c), float(s)))
    U = U.tocsr()
    U.eliminate_zeros()
    bad = {}

    def flag(mech, f, extra=None):
        if mech not in bad:
            bad[mech] = {"face": int(f), "flux": float(q[f]), "neighbours": nbr[f],
                         "is_dir": bool(is_dir[f]), "is_neu": bool(is_neu[f]),
                         "row_cols": U.indices[U.indptr[f]:U.indptr[f + 1]].tolist(),
                         "row_vals": U.data[U.indptr[f]:U.indptr[f + 1]].tolist(),
                         "extra": extra}

    # boundary matrices must be diagonal
    for name, B in (("dir", Bd), ("neu", Bn)):
        Bc = B.tocoo()
        off = (Bc.row != Bc.col) & (Bc.data != 0)
        if np.any(off):
            mon.violation(f"upwind-bound-{name}-offdiagonal", {"n": int(off.sum())})
    bd = Bd.diagonal()
    bn = Bn.diagonal()
    sgn_b = np.asarray(g.cell_faces.sum(axis=1)).ravel()

    for f in range(nf):
        cols = U.indices[U.indptr[f]:U.indptr[f + 1]]
        vals = U.data[U.indptr[f]:U.indptr[f + 1]]
        one_sided = len(nbr[f]) == 1
        # --- Neumann matrix: divergence sign exactly on Neumann faces
        want_n = sgn_b[f] if is_neu[f] else 0.0
        if bn[f] != want_n:
            flag("upwind-neumann-matrix-entry", f, {"got": float(bn[f]), "want": float(want_n)})
        if q[f] == 0:
            mon.count("faces_zero_flux")
            if cols.size > 1 or (cols.size == 1 and (vals[0] != 1
                                                    or cols[0] not in [c for c, _ in nbr[f]])):
                flag("upwind-zero-flux-row-malformed", f)
            if bd[f] not in (0.0, 1.0) or (bd[f] == 1.0 and not is_dir[f]):
                flag("upwind-dirichlet-matrix-entry", f, {"got": float(bd[f])})
            continue
        leaving = [c for c, s in nbr[f] if s * q[f] > 0]     # cell the flux leaves
        if is_neu[f]:
            mon.count("faces_neumann")
            want_cols, want_d = [], 0.0
        elif one_sided and not leaving:
            # inflow through a one-sided face
            mon.count("faces_dirichlet_inflow")
            want_cols, want_d = [], 1.0
        else:
            mon.count("faces_dirichlet_outflow" if one_sided else "faces_nonzero_flux_interior")
            want_cols, want_d = leaving, 0.0
        if sorted(cols.tolist()) != sorted(want_cols) or np.any(vals != 1):
            if want_cols and cols.size == 1 and cols[0] != want_cols[0]:
                flag("upwind-picks-downstream-cell", f, {"want": want_cols})
            elif not want_cols and is_neu[f]:
                flag("upwind-entry-on-neumann-face", f)
            elif not want_cols:
                flag("upwind-entry-on-dirichlet-inflow-face", f)
            else:
                flag("upwind-row-malformed", f, {"want": want_cols})
        if bd[f] != want_d:
            flag("upwind-dirichlet-matrix-entry", f, {"got": float(bd[f]), "want": want_d})
    for mech, det in bad.items():
        mon.violation(mech, det)
    return not bad


def _transport(mon, case, g, is_dir, is_neu, bc):
    """One explicit step with a discretely divergence-free, no-flow flux."""
    nf, nc = g.num_faces, g.num_cells
    rng = np.random.default_rng(case["tseed"])
    div = g.cell_faces.T.tocsr().astype(float)
    interior = np.ones(nf, dtype=bool)
    interior[g.get_all_boundary_faces()] = False
    if g.dim == 1 or interior.sum() < nc:
        mon.excluded("transport: face graph has no cycle, divergence-free no-flow flux is 0")
        return
    Di = div[:, interior].tocsr()
    q_i = rng.normal(size=int(interior.sum()))
    # orthogonal projection onto ker(Di): q <- q - Di^T (Di Di^T)^+ Di q.  The Laplacian
    # Di Di^T is singular (constants per connected component): pin one cell per component.
    L = (Di @ Di.T).tocsr()
    ncomp, lab = sps.csgraph.connected_components(L, directed=False)
    keep = np.ones(nc, dtype=bool)
    keep[np.unique(lab, return_index=True)[1]] = False
    mon.measure("transport_components", ncomp)
    if keep.any():
        Lk = L[keep][:, keep].tocsc()
        lu = sps.linalg.splu(Lk)
        for _ in range(3):
            y = np.zeros(nc)
            y[keep] = lu.solve((Di @ q_i)[keep])
            q_i = q_i - Di.T @ y
    qmax = float(np.max(np.abs(q_i)))
    if qmax < 1e-8:
        mon.excluded("transport: projected flux vanishes (tree-like face graph)")
        return
    q_i /= qmax
    q = np.zeros(nf)
    q[interior] = q_i
    resid = float(np.max(np.abs(div @ q)))
    mon.measure("transport_div_residual", resid)
    if resid > 1e-13:
        mon.inconclusive("projection to the kernel of div not accurate enough")
        return
    U, _, _ = _discretize(g, q, bc, None)
    V = g.cell_volumes
    out = np.asarray(div.maximum(0) @ np.maximum(q, 0)
                     + (-div).maximum(0) @ np.maximum(-q, 0)).ravel()
    if not np.any(out > 0):
        mon.excluded("transport: no outflow")
        return
    dt = 0.9 * float(np.min(V[out > 0] / out[out > 0]))
    ind = np.arange(nc) if nc <= 150 else np.sort(rng.choice(nc, size=100, replace=False))
    C = np.hstack([rng.uniform(0, 1, size=(nc, 2)), np.eye(nc)[:, ind]])
    # make some cells sit exactly on the bounds
    C[rng.integers(0, nc), 0] = 0.0
    C[rng.integers(0, nc), 0] = 1.0
    F = (U @ C) * q[:, None]
    Cp = C - dt * (div @ F) / V[:, None]
    mass0 = V @ C
    mass1 = V @ Cp
    mscale = V @ np.abs(C)
    cons = float(np.max(np.abs(mass1 - mass0) / np.maximum(mscale, 1e-300)))
    mon.measure("transport_conservation", cons)
    lo, hi = C.min(axis=0), C.max(axis=0)
    cscale = np.maximum(np.abs(C).max(axis=0), 1e-300)
    under = float(np.max((lo - Cp.min(axis=0)) / cscale))
    over = float(np.max((Cp.max(axis=0) - hi) / cscale))
    mon.measure("transport_bound_excess", max(under, over, 0.0))
    mon.count("transport_steps")
    mon.count("transport_columns", C.shape[1])
    if not cons <= TOL:
        mon.violation("transport-step-not-conservative", {"rel": cons, "dt": dt})
    if not (under <= TOL and over <= TOL):
        mon.violation("transport-step-leaves-initial-bounds",
                      {"under": under, "over": over, "dt": dt})


def check(case, mon):
    g, split = _grid(case)
    dim = g.dim
    nf, nc = g.num_faces, g.num_cells
    k = int(case["k"])
    discr0 = pp.Upwind("transport")
    q = _flux(case, g, discr0)
    bc, is_dir, is_neu = _bc(case, g)

    if case["src"] == "grid":
        r = case["grid"]
        mon.klass(f"{r['kind']}{dim}d" + ("+perturb" if r.get("perturb") else "")
                  + ("+rigid" if r.get("rigid") else ""))
    else:
        r = case["grid"]
        mon.klass(f"mdg{r['dim']}d-{r['mesh']}-sd{dim}d-nfrac{len(r['fractures'])}")
        nfr = int(np.sum(g.tags["fracture_faces"]))
        mon.count("fracture_faces_seen", nfr)
        if nfr:
            mon.count("split_grid_cases")
    mon.klass("flux:" + case["flux_mode"])
    mon.klass("bc:" + case["bc_mode"])
    mon.klass(f"k={k}")
    mon.count(f"grids_{dim}d")
    mon.nontrivial(nc >= 2 and bool(np.any(q != 0)))

    # single component (num_components absent -> default 1)
    U1, Bd1, Bn1 = _discretize(g, q, bc, None)
    mon.count("discretizations")
    if U1.shape != (nf, nc) or Bd1.shape != (nf, nf) or Bn1.shape != (nf, nf):
        mon.violation("upwind-matrix-shape", {"U": U1.shape, "Bd": Bd1.shape, "Bn": Bn1.shape})
        return
    _face_oracle(mon, g, q, is_dir, is_neu, U1, Bd1, Bn1)

    # k components: Kronecker expansion of the single-component matrices
    Uk, Bdk, Bnk = _discretize(g, q, bc, k)
    mon.count("discretizations")
    eye = sps.identity(k, format="csr")
    for name, got, one in (("upwind", Uk, U1), ("dir", Bdk, Bd1), ("neu", Bnk, Bn1)):
        want = sps.kron(one, eye).tocsr()
        if got.shape != want.shape:
            mon.violation("upwind-kron-shape", {"matrix": name, "got": got.shape,
                                                "want": want.shape})
        elif (got - want).count_nonzero() != 0:
            mon.violation("upwind-kron-expansion", {"matrix": name, "k": k})
    mon.count("kron_checked")

    # re-discretization in the SAME data dictionary with the same Upwind object after the
    # boundary conditions were replaced (same fluxes): the matrices must follow the new
    # assignment, nothing of the first discretization may survive
    if case["bc_mode"] != "default":
        case2 = dict(case, bc_seed=int(case["bc_seed"]) + 1,
                     bc_mode=("mixed" if case["bc_mode"] != "mixed" else "all_dir"),
                     p_dir=1.0 - float(case.get("p_dir", 0.5)) * 0.8)
        bc2, is_dir2, is_neu2 = _bc(case2, g)
        if np.any(is_dir2 != is_dir):
            discr = pp.Upwind("transport")
            data = pp.initialize_data({}, "transport", {discr.flux_array_key: q, "bc": bc})
            discr.discretize(g, data)
            data[pp.PARAMETERS]["transport"]["bc"] = bc2
            discr.discretize(g, data)
            M = data[pp.DISCRETIZATION_MATRICES]["transport"]
            mon.count("rediscretizations_with_replaced_bc")
            _face_oracle(mon, g, q, is_dir2, is_neu2,
                         sps.csr_matrix(M[discr.upwind_matrix_key]),
                         sps.csr_matrix(M[discr.bound_transport_dir_matrix_key]),
                         sps.csr_matrix(M[discr.bound_transport_neu_matrix_key]))

    _transport(mon, case, g, is_dir, is_neu, bc)
