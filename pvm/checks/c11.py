"""C11 MPFA reproduces linear pressure fields exactly.

Monitor: the matrices ``flux, bound_flux, bound_pressure_cell, bound_pressure_face`` that
``pp.Mpfa.discretize`` leaves in the data dictionary are read at the public boundary and
applied to a linear field p = a.x + c with its boundary data (Dirichlet: p at the face
centre, Neumann: exact outward flux).  Reference model = closed form: the Darcy flux
through face f along its normal is -(K a).n_f, the trace at a boundary face centre is
p(x_f), a constant field has zero flux.
"""
from __future__ import annotations

import numpy as np

import porepy as pp

from pvm.gen import grids as gg
from pvm.gen import c11_fvsetup as fs

PROP = "C11"
N = {"quick": 40, "thorough": 3000}
WORKERS = {"quick": 4, "thorough": 16}
TIMEOUT = {"quick": 900, "thorough": 3000}
CASE_TIMEOUT = 120.0
RULE = ("seeded grid recipes in 2-D / 3-D (Cartesian, tensor, structured and Delaunay "
        "triangles, tetrahedra, mixed triangle-quadrilateral polygons, prism+hexahedron "
        "extrusions), optionally node-perturbed (non-planar hexahedron faces in 3-D), "
        "affinely mapped, 2-D grids optionally embedded in 3-D by a rigid motion (tensor and "
        "gradient rotated with the grid); constant full SPD tensor with cond <= 50; boundary "
        "types all-Dirichlet / random per-face mix / a single Dirichlet face / one Dirichlet "
        "side; both local inverters (numba, python) on every case; non-trivial = at least 2 "
        "cells and a non-zero gradient; distinct = case hash")
REACH = [
    ("numerics/fv/mpfa.py", "Mpfa.discretize"),
    ("numerics/fv/mpfa.py", "Mpfa._flux_discretization"),
    ("numerics/fv/mpfa.py", "Mpfa._create_bound_rhs"),
    ("numerics/fv/mpfa.py", "reconstruct_presssure"),
    ("numerics/fv/_fvutils.py", "ExcludeBoundaries.__init__"),
    ("numerics/fv/_fvutils.py", "compute_dist_face_cell"),
]
REACH_LINES = [
    # Neumann and Dirichlet branches of the boundary right-hand side
    ("numerics/fv/mpfa.py", "scaled_sgn = -1 / num_face_nodes[fno[neu_rob_ind_all]]"),
    ("numerics/fv/mpfa.py", "data = np.hstack((data, sgn[dir_ind_all]))"),
    # 2-D grids: rotation of the tensor into the grid plane
    ("numerics/fv/mpfa.py",
     "k.values = np.tensordot(R.T, np.tensordot(R, k.values, (1, 0)), (0, 1))"),
]
REQUIRED = {"discretizations": 30, "faces_flux_checked": 800, "faces_interior": 300,
            "faces_dirichlet": 150, "faces_neumann": 150, "faces_trace_checked": 400,
            "inverter_numba": 15, "inverter_python": 15, "grids_3d": 5, "grids_2d": 5}
ASSUMPTIONS = [
    "the exact flux of a linear field through a face is -(K a).n_f with n_f the grid's own "
    "area-weighted face normal (geometry itself is decided by C19)",
    "boundary faces stay planar under the generator's node perturbation, so p(x_f) at the "
    "face centre is the trace of the linear field",
    "default continuity point eta (1/3 on simplex grids, 0 otherwise)",
    "tolerance 1e-9 relative to ||K|| |a| max(face area) (flux) resp. max(|c|, |a| diam) "
    "(trace); observed on the unchanged tree: median 1e-15, max 3e-12 over 3000 cases",
]
LEVEL_TEXT = ("Exploration: on every generated (grid, SPD tensor, boundary mix, inverter) the "
              "MPFA matrices reproduce the flux of a linear pressure on every face, the trace "
              "on every boundary face and zero flux for a constant, to 1e-9 relative.")
TECHNIQUE = "reference-model monitor (closed-form Darcy flux of linear fields) on Mpfa matrices"
TOL = 1e-9


def _case(recipe, K, a, c, bc_mode, bc_seed, p_dir):
    return {"grid": recipe, "K": K, "a": [float(v) for v in a], "c": float(c),
            "bc_mode": bc_mode, "bc_seed": int(bc_seed), "p_dir": float(p_dir)}


def floor(tier):
    out = []
    rng = np.random.default_rng(1234)
    modes = ["all_dir", "mixed", "one_dir", "side"]
    for i, r in enumerate(gg.floor_recipes(dims=(2, 3))):
        dim = r["dim"]
        K = fs.random_spd(rng, dim, 50.0)
        a = rng.normal(size=3)
        if dim == 2:
            a[2] = 0.0
        out.append(_case(r, K, a, 0.3 + i, modes[i % 4], 100 + i, 0.5))
    # axis-aligned gradient, isotropic tensor, Neumann-dominated
    out.append(_case({"kind": "cart", "dim": 2, "n": [3, 3], "phys": [1.0, 1.0]},
                     np.eye(3).tolist(), [1.0, 0.0, 0.0], 0.0, "side", 1, 0.5))
    out.append(_case({"kind": "cart", "dim": 3, "n": [2, 2, 2], "phys": [1.0, 1.0, 1.0],
                      "perturb": 0.2, "pseed": 11},
                     fs.random_spd(rng, 3, 50.0), [0.3, -1.0, 2.0], -1.5, "mixed", 7, 0.3))
    out.append(_case({"kind": "prism", "dim": 3, "n": [2, 2, 2], "phys": [1.0, 2.0, 1.0],
                      "tseed": 3, "perturb": 0.15, "pseed": 4},
                     fs.random_spd(rng, 3, 50.0), [1.0, 1.0, -1.0], 2.0, "mixed", 8, 0.6))
    return out


def generate(rng, tier, i):
    r = gg.random_recipe(rng, dims=(2, 3), rigid="embedded",
                         max_cells=60 if tier == "quick" else 90)
    dim = r["dim"]
    K = fs.random_spd(rng, dim, 50.0, diagonal=bool(rng.random() < 0.1))
    a = rng.normal(size=3) * 10.0 ** rng.uniform(-1, 1)
    if dim == 2:
        a[2] = 0.0
    if rng.random() < 0.1:      # axis-aligned gradient
        k = int(rng.integers(0, dim))
        a = np.eye(3)[k] * float(rng.choice([-1.0, 1.0]))
    c = float(np.round(rng.normal() * 3, 3))
    mode = str(rng.choice(["all_dir", "mixed", "mixed", "mixed", "one_dir", "side"]))
    return _case(r, K, a, c, mode, int(rng.integers(0, 2**31)),
                 float(rng.choice([0.15, 0.5, 0.85])))


def check(case, mon):
    r = case["grid"]
    g = gg.build(r)
    dim = g.dim
    R = fs.world_rotation(r)
    K = R @ np.asarray(case["K"], dtype=float) @ R.T
    a = R @ np.asarray(case["a"], dtype=float)
    c = float(case["c"])
    nc, nf = g.num_cells, g.num_faces
    bf, is_dir = fs.boundary_types(g, case["bc_mode"], case["bc_seed"], case["p_dir"])
    bc = fs.make_bc(g, bf, is_dir)
    k = fs.tensor_from_matrix(K, nc)
    p_c, p_f, q, bcv = fs.linear_field_data(g, K, a, c, bf, is_dir)
    bcv0 = np.zeros(nf)
    bcv0[bf[is_dir]] = c if c != 0.0 else 1.0
    c0 = c if c != 0.0 else 1.0

    mon.klass(f"{r['kind']}{dim}d" + ("+perturb" if r.get("perturb") else "")
              + ("+affine" if r.get("affine") is not None else "")
              + ("+rigid" if r.get("rigid") else ""))
    mon.klass("bc:" + case["bc_mode"])
    mon.count("grids_3d" if dim == 3 else "grids_2d")
    if not gg.planar(r):
        mon.count("grids_nonplanar_faces")
    mon.nontrivial(nc >= 2 and float(np.linalg.norm(a)) > 0)

    flux_scale = (float(np.linalg.norm(K, 2)) * float(np.linalg.norm(a))
                  * float(np.max(g.face_areas)))
    diam = float(np.max(np.ptp(g.nodes, axis=1)))
    p_scale = max(abs(c), float(np.linalg.norm(a)) * diam, 1e-300)

    n_int = nf - bf.size
    for inverter in ("numba", "python"):
        data = fs.flow_data(k, bc, mpfa_inverter=inverter)
        discr = pp.Mpfa("flow")
        discr.discretize(g, data)
        mon.count("discretizations")
        mon.count("inverter_" + inverter)
        M = data[pp.DISCRETIZATION_MATRICES]["flow"]
        flux, bflux = M[discr.flux_matrix_key], M[discr.bound_flux_matrix_key]
        bpc = M[discr.bound_pressure_cell_matrix_key]
        bpf = M[discr.bound_pressure_face_matrix_key]
        if flux.shape != (nf, nc) or bflux.shape != (nf, nf):
            mon.violation("mpfa-matrix-shape", {"flux": flux.shape, "bound_flux": bflux.shape})
            continue

        # (1) exact flux of the linear field on every face
        got = flux @ p_c + bflux @ bcv
        mon.close("flux_linear", got, q, TOL, "mpfa-linear-flux-not-exact",
                  scale=flux_scale, detail={"inverter": inverter, "bc_mode": case["bc_mode"]})
        mon.count("faces_flux_checked", nf)
        mon.count("faces_interior", n_int)
        mon.count("faces_dirichlet", int(is_dir.sum()))
        mon.count("faces_neumann", int((~is_dir).sum()))

        # (2) exact trace at the boundary face centres
        tr = bpc @ p_c + bpf @ bcv
        mon.close("trace_linear", tr[bf], p_f[bf], TOL, "mpfa-boundary-pressure-not-exact",
                  scale=p_scale, detail={"inverter": inverter, "bc_mode": case["bc_mode"]})
        mon.count("faces_trace_checked", bf.size)

        # (3) constant pressure: zero flux, trace = constant
        t_scale = max(fs.dense_max(flux), fs.dense_max(bflux)) * abs(c0)
        got0 = flux @ (c0 * np.ones(nc)) + bflux @ bcv0
        mon.close("flux_constant", got0, np.zeros(nf), TOL, "mpfa-constant-pressure-flux",
                  scale=t_scale, detail={"inverter": inverter})
        tr0 = bpc @ (c0 * np.ones(nc)) + bpf @ bcv0
        mon.close("trace_constant", tr0[bf], c0 * np.ones(bf.size), TOL,
                  "mpfa-constant-pressure-trace", scale=abs(c0),
                  detail={"inverter": inverter})
        mon.count("constant_fields_checked")
