"""C27 Global projection operators are consistent permutations.

Monitor: on a generated (optionally non-matching) md-grid, SubdomainProjections,
MortarProjections and BoundaryProjection are constructed for random sub-lists and
orderings of subdomains / interfaces and vector dimensions 1-3.  Every returned matrix is
compared entry by entry with a dense reference assembled from nothing but the grid sizes,
the list order and the per-interface / per-boundary-grid matrices (reference-model
monitor; all entries of the subdomain operators are 0/1 so the comparison is exact).
"""
from __future__ import annotations

import numpy as np
import scipy.sparse as sps

import porepy as pp

from pvm.gen import mdg as gm
from pvm.gen import c26_nonmatching as nm

PROP = "C27"
N = {"quick": 50, "thorough": 4000}
WORKERS = {"quick": 4, "thorough": 16}
TIMEOUT = {"quick": 300, "thorough": 1800}
CASE_TIMEOUT = 90.0
RULE = ("md-grids from pvm.gen.mdg (2-D Cartesian/simplex with 0-3 fractures incl. X/T/L, "
        "3-D Cartesian; 3-D simplex in the floor), optionally made non-matching by 0-3 "
        "mortar/secondary/primary replacements; per md-grid 2-3 rounds, each with a random "
        "vector dimension 1-3, a random permuted sub-list S of the subdomains, a random "
        "permuted sub-list T of S, a random permuted sub-list of the interfaces (empty "
        "lists included); non-trivial = at least 2 subdomains; distinct = case hash")
REACH = [
    ("numerics/ad/grid_operators.py", "SubdomainProjections.cell_restriction"),
    ("numerics/ad/grid_operators.py", "SubdomainProjections.cell_prolongation"),
    ("numerics/ad/grid_operators.py", "SubdomainProjections.face_restriction"),
    ("numerics/ad/grid_operators.py", "SubdomainProjections.face_prolongation"),
    ("numerics/ad/grid_operators.py", "MortarProjections._construct_projection"),
    ("numerics/ad/grid_operators.py", "BoundaryProjection.__init__"),
    ("numerics/ad/grid_operators.py", "_cell_projections"),
    ("numerics/ad/grid_operators.py", "_face_projections"),
    ("grids/boundary_grid.py", "BoundaryGrid.projection"),
]
REACH_LINES = [
    ("numerics/ad/grid_operators.py", "mat = sps.dia_matrix((intf.num_cells * self.dim, non_mortar_size))"),
    ("numerics/ad/grid_operators.py", "mat_loc = sps.csr_matrix((0, tot_num_faces))"),
]
REQUIRED = {"subdomain_projection_matrices": 400, "mortar_projection_matrices": 400,
            "boundary_projection_matrices": 100, "nonconforming_mortar_objects": 3,
            "rounds_nd2": 10, "rounds_nd3": 10, "permuted_lists": 20,
            "interface_with_unlisted_subdomain": 10}
ASSUMPTIONS = [
    "the per-interface matrices MortarGrid.*_to_*_{int,avg}(1) and BoundaryGrid.projection(1) "
    "are taken as given (C26 / the boundary-face tags decide them); the vector versions are "
    "referenced as kron(M, I_nd) computed by the harness",
    "all listed interfaces have codimension 1 (mixed codimensions are rejected by design)",
    "lists contain subdomains of the md-grid, each at most once",
]
LEVEL_TEXT = ("Every projection matrix returned for a random list/order/dimension is compared "
              "exactly with a dense reference built from grid sizes and list order.")
TECHNIQUE = "runtime monitoring: dense reference matrices from sizes and list order"
TOL = 1e-10


# ----------------------------------------------------------------------- references
# All references are assembled as coordinate lists from sizes, offsets and list order
# (own index arithmetic; no scipy block/kron helpers) and compared sparsely.
def _offsets(sizes):
    return np.concatenate(([0], np.cumsum(sizes))).astype(int)


class _Coo:
    def __init__(self, shape):
        self.shape = (int(shape[0]), int(shape[1]))
        self.r, self.c, self.v = [], [], []

    def add(self, r, c, v):
        self.r.append(np.asarray(r, dtype=int))
        self.c.append(np.asarray(c, dtype=int))
        self.v.append(np.asarray(v, dtype=float))

    def tocsr(self):
        if not self.r:
            return sps.csr_matrix(self.shape)
        return sps.coo_matrix((np.concatenate(self.v),
                               (np.concatenate(self.r), np.concatenate(self.c))),
                              shape=self.shape).tocsr()


def _expand(M, nd):
    """Coordinates of kron(M, I_nd): entry (i, j) -> (i*nd+k, j*nd+k), k < nd."""
    M = sps.coo_matrix(M)
    k = np.arange(nd)
    r = (M.row[:, None] * nd + k[None, :]).ravel()
    c = (M.col[:, None] * nd + k[None, :]).ravel()
    v = np.repeat(M.data.astype(float), nd)
    return r, c, v, (M.shape[0] * nd, M.shape[1] * nd)


def _kron(M, nd):
    r, c, v, shape = _expand(M, nd)
    return sps.coo_matrix((v, (r, c)), shape=shape).tocsr()


def _ref_prolongation(S, T, attr, nd):
    """Prolongation from the grids in T (in T's order) to the global vector of the grids
    in S (in S's order); entity e, component k of grid g sits at (off(g)+e)*nd+k."""
    nS = [int(getattr(g, attr)) for g in S]
    nT = [int(getattr(g, attr)) for g in T]
    oS, oT = _offsets(nS), _offsets(nT)
    P = _Coo((oS[-1] * nd, oT[-1] * nd))
    for j, g in enumerate(T):
        i = [k for k, h in enumerate(S) if h is g][0]
        loc = np.arange(nT[j] * nd)
        P.add(oS[i] * nd + loc, oT[j] * nd + loc, np.ones(loc.size))
    return P.tocsr()


def _ref_mortar(mdg, S, I, name, nd):
    """Global mortar projection ``name`` for listed subdomains S / interfaces I."""
    to_mortar = name.split("_to_")[1].startswith("mortar")
    primary = "primary" in name
    attr = "num_faces" if primary else "num_cells"
    oS = _offsets([int(getattr(g, attr)) for g in S])
    oI = _offsets([int(i.num_cells) for i in I])
    G = _Coo((oI[-1] * nd, oS[-1] * nd) if to_mortar else (oS[-1] * nd, oI[-1] * nd))
    unlisted = 0
    for j, intf in enumerate(I):
        hi, lo = mdg.interface_to_subdomain_pair(intf)
        sd = hi if primary else lo
        pos = [k for k, h in enumerate(S) if h is sd]
        if not pos:
            unlisted += 1
            continue
        s = pos[0]
        r, c, v, _ = _expand(getattr(intf, name)(1), nd)
        if to_mortar:
            G.add(oI[j] * nd + r, oS[s] * nd + c, v)
        else:
            G.add(oS[s] * nd + r, oI[j] * nd + c, v)
    return G.tocsr(), unlisted


def _ref_bg_projection(g):
    """Rows = boundary faces of g in increasing face index."""
    f = np.flatnonzero(g.tags["domain_boundary_faces"])
    return sps.coo_matrix((np.ones(f.size), (np.arange(f.size), f)),
                          shape=(f.size, g.num_faces)).tocsr()


def _ref_boundary(mdg, S, nd):
    oF = _offsets([int(g.num_faces) for g in S])
    nB = [0 if g.dim == 0 else int(np.sum(g.tags["domain_boundary_faces"])) for g in S]
    oB = _offsets(nB)
    if not S:
        return sps.csr_matrix((0, 0))
    G = _Coo((oB[-1] * nd, oF[-1] * nd))
    for s, g in enumerate(S):
        if g.dim == 0:
            continue
        r, c, v, _ = _expand(_ref_bg_projection(g), nd)
        G.add(oB[s] * nd + r, oF[s] * nd + c, v)
    return G.tocsr()


def _eye(n):
    return sps.identity(int(n), format="csr")


# --------------------------------------------------------------------------- check
def _cmp(mon, name, got, want, mech, detail):
    got = sps.csr_matrix(got)
    want = sps.csr_matrix(want)
    if got.shape != want.shape:
        # an empty operator may legitimately be reported with a degenerate shape
        if got.shape[0] * got.shape[1] == 0 and want.shape[0] * want.shape[1] == 0:
            mon.count("empty_operator_shape_differs")
            return True
        mon.violation(mech, {"what": "shape", "got": list(got.shape),
                             "want": list(want.shape), "detail": detail})
        return False
    D = (got - want).tocoo()
    err = float(np.max(np.abs(D.data))) if D.nnz else 0.0
    if not np.all(np.isfinite(got.data)):
        err = float("inf")
    mon.measure(name, err)
    if not err <= TOL:
        k = int(np.argmax(np.abs(D.data)))
        i, j = int(D.row[k]), int(D.col[k])
        mon.violation(mech, {"residual": err, "row": i, "col": j, "got": float(got[i, j]),
                             "want": float(want[i, j]), "detail": detail})
        return False
    return True


def _hstack(blocks):
    """Own horizontal stacking of sparse blocks by column offsets."""
    n = blocks[0].shape[0]
    off = _offsets([b.shape[1] for b in blocks])
    H = _Coo((n, off[-1]))
    for j, b in enumerate(blocks):
        b = sps.coo_matrix(b)
        H.add(b.row, off[j] + b.col, b.data)
    return H.tocsr()


def _sublist(rng, items, allow_empty=True, p_all=0.3):
    n = len(items)
    if n == 0:
        return []
    if rng.random() < p_all:
        k = n
    else:
        k = int(rng.integers(0 if allow_empty else 1, n + 1))
    idx = rng.permutation(n)[:k]
    return [items[i] for i in idx]


def _is_permuted(lst, ref):
    pos = [[k for k, h in enumerate(ref) if h is g][0] for g in lst]
    return pos != sorted(pos)


def check(case, mon):
    recipe = case["recipe"]
    mdg = gm.build(recipe)
    var = nm.Variant(mdg, recipe)
    for u in case.get("updates", []):
        try:
            lab = nm.apply(var, u)
        except nm.Rejected:
            mon.excluded("replacement rejected by porepy's geometric matching (documented "
                         "ValueError)")
            return
        if lab:
            mon.count("update:" + lab)
    sds = mdg.subdomains()
    intfs = mdg.interfaces()
    mon.klass(f"{recipe['dim']}d-{recipe['mesh']}-{len(sds)}sd-{len(intfs)}intf"
              + ("-nonmatching" if case.get("updates") else ""))
    mon.nontrivial(len(sds) >= 2)
    rng = np.random.default_rng(int(case["seed"]))

    for rnd in range(int(case.get("rounds", 3))):
        nd = int(case["nd"][rnd % len(case["nd"])])
        mon.count(f"rounds_nd{nd}")
        if rnd == 0:
            S = list(sds) if rng.random() < 0.5 else [sds[i] for i in rng.permutation(len(sds))]
        else:
            S = _sublist(rng, sds)
        T = _sublist(rng, S, p_all=0.2)
        if _is_permuted(S, sds) or _is_permuted(T, S):
            mon.count("permuted_lists")
        info = {"nd": nd, "S": [int(g.id) for g in S], "T": [int(g.id) for g in T]}

        # ---------------- SubdomainProjections
        proj = pp.ad.SubdomainProjections(S, nd)
        for ent, attr in (("cell", "num_cells"), ("face", "num_faces")):
            for lst, tag in ((T, "T"), (S, "S"), ([], "empty")):
                P = getattr(proj, f"{ent}_prolongation")(lst).parse(mdg)
                R = getattr(proj, f"{ent}_restriction")(lst).parse(mdg)
                Pref = _ref_prolongation(S, lst, attr, nd)
                mon.count("subdomain_projection_matrices", 2)
                ok = _cmp(mon, "prolongation", P, Pref,
                          f"subdomain-projection:{ent}-prolongation-differs-from-reference",
                          {**info, "list": tag})
                ok &= _cmp(mon, "restriction", R, Pref.T,
                           f"subdomain-projection:{ent}-restriction-differs-from-reference",
                           {**info, "list": tag})
                if not ok:
                    return
                # restriction . prolongation == identity on the listed grids
                RP = sps.csr_matrix(R @ P)
                if not _cmp(mon, "restriction_prolongation", RP, _eye(RP.shape[0]),
                            f"subdomain-projection:{ent}-restriction-times-prolongation-"
                            "not-identity", {**info, "list": tag}):
                    return
            # all listed grids together, one by one in list order: a permutation == identity
            if S:
                blocks = [getattr(proj, f"{ent}_prolongation")([g]).parse(mdg) for g in S]
                H = _hstack(blocks)
                mon.count("subdomain_projection_matrices", len(S))
                if not _cmp(mon, "stacked_prolongations", H, _eye(H.shape[0]),
                            f"subdomain-projection:{ent}-stacked-prolongations-not-"
                            "identity-in-list-order", info):
                    return
                if H.shape[0] and not (np.all(H.sum(axis=0) == 1) and np.all(H.sum(axis=1) == 1)
                                       and np.all(H.data == 1)):
                    mon.violation(f"subdomain-projection:{ent}-not-a-permutation", info)
                    return

        # ---------------- MortarProjections
        I = _sublist(rng, intfs)
        if _is_permuted(I, intfs):
            mon.count("permuted_lists")
        mp = pp.ad.MortarProjections(mdg, S, I, nd)
        if I and not (mp._is_conforming_primary and mp._is_conforming_secondary):
            mon.count("nonconforming_mortar_objects")
        minfo = {**info, "I": [int(i.id) for i in I]}
        names = ("mortar_to_primary_int", "mortar_to_primary_avg",
                 "primary_to_mortar_int", "primary_to_mortar_avg",
                 "mortar_to_secondary_int", "mortar_to_secondary_avg",
                 "secondary_to_mortar_int", "secondary_to_mortar_avg")
        wants = {}
        for name in names:
            wants[name], unlisted = _ref_mortar(mdg, S, I, name, nd)
            mon.count("interface_with_unlisted_subdomain", unlisted)
        # every operator is requested three times: fresh, cached, and once more in reverse
        # order after all the others were built (the object caches its matrices)
        for rep, name in [(r, n) for n in names for r in (0, 1)] + \
                [(2, n) for n in reversed(names)]:
            got = getattr(mp, name)().parse(mdg)
            mon.count("mortar_projection_matrices")
            if not _cmp(mon, "mortar_projection", got, wants[name],
                        f"mortar-projection:{name}-differs-from-per-interface-blocks",
                        {**minfo, "call": rep}):
                return
        # sign of mortar sides: block diagonal of the per-interface matrices
        if I:
            got = mp.sign_of_mortar_sides().parse(mdg)
            oI = _offsets([int(i.num_cells) for i in I])
            W = _Coo((oI[-1] * nd, oI[-1] * nd))
            for j, intf in enumerate(I):
                sg = sps.coo_matrix(intf.sign_of_mortar_sides(nd))
                W.add(oI[j] * nd + sg.row, oI[j] * nd + sg.col, sg.data)
            want = W.tocsr()
            mon.count("mortar_projection_matrices")
            if not _cmp(mon, "mortar_sign", got, want,
                        "mortar-projection:sign-of-mortar-sides-misplaced", minfo):
                return

        # ---------------- BoundaryProjection
        # per boundary grid: BoundaryGrid.projection against the boundary-face tags
        for g in S:
            bg = mdg.subdomain_to_boundary_grid(g)
            if bg is None:
                continue
            mon.count("boundary_projection_matrices")
            if not _cmp(mon, "boundary_grid_projection", bg.projection(nd),
                        _kron(_ref_bg_projection(g), nd),
                        "boundary-projection:boundary-grid-projection-differs-from-tags",
                        {**info, "sd": int(g.id)}):
                return
        try:
            bp = pp.ad.BoundaryProjection(mdg, S, nd)
        except ValueError:
            if all(g.dim == 0 for g in S):
                # scipy cannot stack only-empty blocks: a list without any face
                mon.excluded("BoundaryProjection of a list holding only 0-d subdomains")
                continue
            raise
        want = _ref_boundary(mdg, S, nd)
        mon.count("boundary_projection_matrices", 2)
        if not _cmp(mon, "boundary_projection", bp.subdomain_to_boundary.parse(mdg), want,
                    "boundary-projection:subdomain-to-boundary-differs-from-reference", info):
            return
        if not _cmp(mon, "boundary_projection", bp.boundary_to_subdomain.parse(mdg), want.T,
                    "boundary-projection:boundary-to-subdomain-not-transpose", info):
            return


# ----------------------------------------------------------------------- generators
def _case(recipe, updates, seed, nd=(1, 2, 3), rounds=3):
    return {"recipe": recipe, "updates": updates, "seed": int(seed), "nd": list(nd),
            "rounds": rounds}


def generate(rng, tier, i):
    if rng.random() < 0.12:
        recipe = gm.random_3d(rng, "cartesian", max_fracs=3)
    else:
        recipe = gm.random_2d(rng, max_fracs=3)
    updates = []
    if recipe["fractures"] and rng.random() < 0.5:
        updates = nm.random_updates(rng, recipe, 3)
    nd = [int(v) for v in rng.permutation([1, 2, 3])]
    return _case(recipe, updates, int(rng.integers(0, 2 ** 31)), nd,
                 rounds=2 if tier == "quick" else 3)


def floor(tier):
    out = []
    for k, r in enumerate(gm.floor_recipes()):
        out.append(_case(r, [], 1000 + k))
    F2 = gm.FLOOR_2D
    ref = lambda kind, sel, ratio=2, how="refine": {"kind": kind, "sel": sel, "ratio": ratio,
                                                   "how": how}
    out.append(_case(F2[2], [ref("secondary", 0), ref("mortar", 1, 3)], 2001))
    out.append(_case(F2[8], [ref("mortar", 0, 2), ref("secondary", 1, 3)], 2002))
    out.append(_case(F2[1], [ref("primary", 0, 2, "other"), ref("mortar", 0, 3, "remesh")], 2003))
    out.append(_case(F2[7], [ref("secondary", 0, 2, "remesh"), ref("primary", 0, 2, "other")],
                     2004))
    return out


def warmup():
    for _ in range(3):
        try:
            gm.build(gm.FLOOR_2D[7])
            gm.build(gm.FLOOR_2D[2])
            return
        except Exception:  # noqa: BLE001 - the cases themselves report failures
            continue
