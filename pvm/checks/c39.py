"""C39 Boundary condition objects partition the boundary faces.

Invariant monitor at quiescent points: a ``BoundaryCondition`` /
``BoundaryConditionVectorial`` object is built on a generated grid (plain grids of every
kind and subdomains of fractured md-grids, i.e. split grids with fracture and tip faces)
and, for the vectorial class, driven through a sequence of ``set_bc`` calls.  After the
constructor and after every call the full invariant is evaluated against a face-wise
reference model (a plain dict face -> assigned types):

* ``is_dir + is_neu + is_rob == 1`` on every boundary face (faces with exactly one
  neighbouring cell, determined from ``cell_faces`` independently of the tags), per
  component for the vectorial class; ``== 0`` on every other face;
* never-assigned boundary faces are Neumann;
* a face that was only ever assigned one type carries that type.
Which entry wins when one face receives *different* types is recorded, not asserted.
"""
from __future__ import annotations

import numpy as np

from pvm.gen import grids as gg
from pvm.gen import mdg as gm

PROP = "C39"
N = {"quick": 500, "thorough": 30000}
WORKERS = {"quick": 4, "thorough": 16}
TIMEOUT = {"quick": 300, "thorough": 3000}
CASE_TIMEOUT = 120.0
RULE = ("grid: seeded plain recipe (1-3-D, all kinds of pvm.gen.grids) or one subdomain of "
        "a seeded fractured md-grid (Cartesian / simplex, 2-D / 3-D, any dimension >= 1); "
        "class: scalar (constructor only) or vectorial (constructor + 0-5 set_bc calls, "
        "grid dimension >= 2); each call assigns 'dir'/'neu'/'rob' (any letter case, one "
        "string or one per face) to boundary faces given as an index array (repeated "
        "indices allowed) or a boolean mask, or passes faces=None; rejected calls "
        "(interior face, wrong mask size, wrong number of conditions, unknown keyword) "
        "are interleaved; non-trivial = at least two different types assigned; "
        "distinct = case hash")
REACH = [
    ("params/bc.py", "BoundaryCondition.__init__"),
    ("params/bc.py", "BoundaryConditionVectorial.__init__"),
    ("params/bc.py", "BoundaryConditionVectorial.set_bc"),
]
REACH_LINES = [
    ("params/bc.py", "self.is_rob[faces[ind]] = True"),
    ("params/bc.py", "self.is_rob[:, faces[j]] = True"),
    ("params/bc.py", "self.is_dir[:, faces[j]] = True"),
    ("params/bc.py", "faces = np.argwhere(faces)"),
]
REQUIRED = {"objects:scalar": 10, "objects:vectorial": 10, "set_bc_calls": 10,
            "invariant_evaluations": 40, "rejections_observed": 10,
            "faces:fracture_or_tip_assigned": 5, "grids:split_fractured": 5,
            "vectorial:rob_then_dir_faces": 1}
ASSUMPTIONS = [
    "boundary faces = faces with exactly one neighbouring cell (domain boundary, fracture "
    "and tip faces); this set is compared with get_all_boundary_faces()",
    "when one face receives different types, only the partition is asserted (the "
    "constructor documents 'neu' as the default that never overrides)",
]
LEVEL_TEXT = ("After construction and after every set_bc call the condition flags "
              "partitioned the boundary faces (one type per face and component, none on "
              "interior faces, default Neumann) on the generated grids and assignments "
              "(exploration).")
TECHNIQUE = "invariant monitor with face-wise reference model"
TYPES = ("dir", "neu", "rob")


# ------------------------------------------------------------------------- generators
def _spell(rng, t):
    return str(rng.choice([t, t, t.upper(), t.capitalize()]))


def generate(rng, tier, i):
    vect = bool(rng.random() < 0.6)
    if rng.random() < 0.55:
        dims = (2, 3) if vect else (1, 2, 3)
        grid = {"type": "plain", "recipe": gg.random_recipe(rng, dims=dims, max_cells=40)}
    else:
        meshes = ("cartesian", "simplex") if rng.random() < 0.3 else ("cartesian",)
        grid = {"type": "mdg", "recipe": gm.random_recipe(rng, meshes=meshes, p3d=0.2),
                "sd": int(rng.integers(0, 1000))}
    return {"grid": grid, "vectorial": vect, "seed": int(rng.integers(0, 2**31)),
            "n_calls": int(rng.integers(0, 6)) if vect else 0}


def floor(tier):
    out = []
    k = 0
    for r in gg.floor_recipes(rigid=False):
        for vect in (False, True):
            if vect and r["dim"] < 2:
                continue
            k += 1
            out.append({"grid": {"type": "plain", "recipe": r}, "vectorial": vect,
                        "seed": k, "n_calls": 3 if vect else 0})
    for r in gm.floor_recipes():
        if r["mesh"] == "simplex" and r["dim"] == 3:
            continue
        for sd in (0, 1):
            for vect in (False, True):
                k += 1
                out.append({"grid": {"type": "mdg", "recipe": r, "sd": sd},
                            "vectorial": vect, "seed": k, "n_calls": 4 if vect else 0})
    cart = {"kind": "cart", "dim": 2, "n": [2, 2], "phys": [1.0, 1.0]}
    g = {"type": "plain", "recipe": cart}
    # hand-written histories (DESIGN section 3): Cartesian 2x2, face 0 is a west face
    out += [
        {"grid": g, "vectorial": True, "ops": [
            {"faces": {"kind": "index", "val": [0]}, "cond": "rob"},
            {"faces": {"kind": "index", "val": [0]}, "cond": "dir"}]},
        {"grid": g, "vectorial": True, "ops": [
            {"faces": {"kind": "index", "val": [0, 0]}, "cond": ["rob", "dir"]}]},
        {"grid": g, "vectorial": True, "ops": [
            {"faces": {"kind": "index", "val": [0, 3]}, "cond": ["dir", "rob"]},
            {"faces": {"kind": "index", "val": [0, 3]}, "cond": ["rob", "neu"]},
            {"faces": None, "cond": None}]},
        {"grid": g, "vectorial": False, "ops": [
            {"faces": {"kind": "index", "val": [0, 0]}, "cond": ["rob", "dir"]}]},
        {"grid": g, "vectorial": False, "ops": [
            {"faces": {"kind": "index", "val": [0, 3, 0]}, "cond": ["dir", "rob", "rob"]}]},
        {"grid": g, "vectorial": False, "ops": [
            {"faces": {"kind": "mask", "val": [True, False, False, True, False, True,
                                               False, False, False, False, False, False]},
             "cond": "Dir"}]},
        {"grid": g, "vectorial": False, "ops": [{"faces": None, "cond": None}]},
    ]
    return out


# ------------------------------------------------------------------------------ build
def _grid(spec, mon):
    if spec["type"] == "plain":
        g = gg.build(spec["recipe"])
        return g, f"plain:{spec['recipe']['kind']}{g.dim}d"
    mdg = gm.build(spec["recipe"])
    sds = [sd for sd in mdg.subdomains() if sd.dim >= 1 and sd.num_faces > 0]
    sd = sds[int(spec["sd"]) % len(sds)]
    return sd, f"mdg:{spec['recipe']['mesh']}{spec['recipe']['dim']}d:sd{sd.dim}d"


def _derive_ops(case, g, bnd, interior):
    """Constructor arguments + set_bc arguments from the seed (deterministic)."""
    rng = np.random.default_rng([39, int(case["seed"])])
    ops = []
    for k in range(1 + int(case.get("n_calls", 0))):
        u = rng.random()
        if u < 0.1 or bnd.size == 0:
            ops.append({"faces": None, "cond": None})
            continue
        if u < 0.35:
            mask = np.zeros(g.num_faces, dtype=bool)
            mask[bnd[rng.random(bnd.size) < 0.5]] = True
            faces = {"kind": "mask", "val": [bool(b) for b in mask]}
            nsel = int(mask.sum())
        else:
            kk = int(rng.integers(1, min(bnd.size, 8) + 1))
            sel = rng.choice(bnd, size=kk, replace=bool(rng.random() < 0.4))
            faces = {"kind": "index", "val": [int(v) for v in sel]}
            nsel = kk
        if rng.random() < 0.4:
            cond = _spell(rng, str(rng.choice(TYPES)))
        else:
            cond = [_spell(rng, str(rng.choice(TYPES, p=[0.4, 0.2, 0.4])))
                    for _ in range(nsel)]
        ops.append({"faces": faces, "cond": cond})
    return ops


# ---------------------------------------------------------------------------- monitor
def _faces_arg(f):
    if f is None:
        return None, []
    if f["kind"] == "mask":
        m = np.asarray(f["val"], dtype=bool)
        return m, [int(i) for i in np.flatnonzero(m)]
    return np.asarray(f["val"], dtype=int), [int(v) for v in f["val"]]


def _apply_model(model, op):
    _, lst = _faces_arg(op["faces"])
    if op["faces"] is None:
        return
    cond = op["cond"]
    conds = [cond] * len(lst) if isinstance(cond, str) else list(cond)
    for f, c in zip(lst, conds):
        model.setdefault(f, []).append(c.lower())


def _rob_then_dir(hist) -> bool:
    """The face received 'rob' and the last entry that is not 'neu' is 'dir'."""
    eff = [h for h in hist if h != "neu"]
    return bool(eff) and eff[-1] == "dir" and "rob" in eff


def _invariant(mon, bc, g, bnd_mask, model, vect, when):
    mon.count("invariant_evaluations")
    nf = g.num_faces
    shape = (g.dim, nf) if vect else (nf,)
    for name in ("is_dir", "is_neu", "is_rob"):
        a = getattr(bc, name)
        if a.shape != shape or a.dtype != bool:
            mon.violation("flag-array-shape-or-dtype", {"array": name,
                                                        "shape": list(a.shape), "when": when})
            return
    D = np.atleast_2d(bc.is_dir)
    Nn = np.atleast_2d(bc.is_neu)
    R = np.atleast_2d(bc.is_rob)
    tot = D.astype(int) + Nn.astype(int) + R.astype(int)
    # interior faces carry nothing
    bad_int = np.argwhere(tot[:, ~bnd_mask] != 0)
    if bad_int.size:
        mon.violation("interior-face-carries-condition",
                      {"when": when, "faces": np.flatnonzero(~bnd_mask)[bad_int[:5, 1]]})
    # boundary faces carry exactly one type per component
    sub = tot[:, bnd_mask]
    bfaces = np.flatnonzero(bnd_mask)
    bad = np.argwhere(sub != 1)
    if bad.size:
        comp, col = int(bad[0, 0]), int(bad[0, 1])
        f = int(bfaces[col])
        hist = model.get(f, [])
        both_dir_rob = bool(D[comp, f] and R[comp, f])
        rob_then_dir = _rob_then_dir(hist)
        if vect and both_dir_rob and rob_then_dir:
            mech = "vectorial:dir-does-not-clear-rob"
        else:
            mech = "boundary-face-not-exactly-one-type"
        mon.violation(mech, {"when": when, "face": f, "component": comp,
                             "is_dir": bool(D[comp, f]), "is_neu": bool(Nn[comp, f]),
                             "is_rob": bool(R[comp, f]), "assigned": hist,
                             "faces_affected": int(np.unique(bad[:, 1]).size)})
    # defaults and single-type assignments
    for f in bfaces:
        hist = model.get(int(f), [])
        kinds = set(hist)
        if not kinds:
            want = "neu"
        elif len(kinds) == 1:
            want = hist[0]
        else:
            continue
        arr = {"dir": D, "neu": Nn, "rob": R}[want]
        if not np.all(arr[:, f]):
            mon.violation("unassigned-face-not-neumann" if not kinds
                          else "assigned-type-not-carried",
                          {"when": when, "face": int(f), "want": want, "assigned": hist})
            break


def _record_conflicts(mon, bc, model, vect):
    D, Nn, R = (np.atleast_2d(getattr(bc, k)) for k in ("is_dir", "is_neu", "is_rob"))
    for f, hist in model.items():
        if len(set(hist)) < 2:
            continue
        last = hist[-1]
        arr = {"dir": D, "neu": Nn, "rob": R}[last]
        mon.count("conflicting_faces:last_entry_carried" if np.all(arr[:, f])
                  else "conflicting_faces:earlier_entry_carried")
        if vect and _rob_then_dir(hist):
            mon.count("vectorial:rob_then_dir_faces")


def _rejections(mon, make, g, bnd, interior, rng):
    """Documented ValueErrors; ``make(faces, cond)`` performs the call."""
    trials = []
    if interior.size:
        f = int(rng.choice(interior))
        trials.append(("interior-face-index", np.array([f]), "dir"))
        if bnd.size:
            trials.append(("interior-face-among-boundary", np.array([int(bnd[0]), f]), "rob"))
        m = np.zeros(g.num_faces, dtype=bool)
        m[f] = True
        trials.append(("interior-face-mask", m, "dir"))
    trials.append(("wrong-size-mask", np.ones(g.num_faces + 1, dtype=bool), "dir"))
    if bnd.size >= 1:
        trials.append(("wrong-number-of-conditions", np.array([int(bnd[0])]), ["dir", "neu"]))
        trials.append(("unknown-keyword", np.array([int(bnd[0])]), "dirichlet"))
    for what, faces, cond in trials:
        try:
            make(faces, cond)
            mon.violation("invalid-assignment-accepted:" + what, {})
        except ValueError:
            mon.count("rejections_observed")


def check(case, mon):
    import porepy as pp
    spec = case["grid"]
    g, label = _grid(spec, mon)
    vect = bool(case["vectorial"])
    if vect and g.dim < 2:
        mon.excluded("vectorial conditions need grid dimension >= 2")
        vect = False
    mon.klass(("vectorial:" if vect else "scalar:") + label)
    ncell_per_face = np.asarray(abs(g.cell_faces).sum(axis=1)).ravel()
    bnd_mask = ncell_per_face == 1
    bnd = np.flatnonzero(bnd_mask)
    interior = np.flatnonzero(~bnd_mask)
    tagged = np.sort(g.get_all_boundary_faces())
    if not np.array_equal(tagged, bnd):
        mon.inconclusive("get_all_boundary_faces() differs from faces with one cell")
        return
    special = g.tags["fracture_faces"] | g.tags["tip_faces"]
    if np.any(g.tags["fracture_faces"]):
        mon.count("grids:split_fractured")
    ops = case.get("ops") or _derive_ops(case, g, bnd, interior)
    if not vect:
        ops = ops[:1]
    model: dict[int, list[str]] = {}
    rng = np.random.default_rng([3939, int(case.get("seed", 0))])

    # constructor
    first = ops[0]
    arg, lst = _faces_arg(first["faces"])
    cls = pp.BoundaryConditionVectorial if vect else pp.BoundaryCondition
    mon.count("objects:vectorial" if vect else "objects:scalar")
    bc = cls(g) if first["faces"] is None else cls(g, arg, first["cond"])
    _apply_model(model, first)
    mon.count("faces:fracture_or_tip_assigned", int(sum(bool(special[f]) for f in lst)))
    mon.count("assignments:" + ("none" if first["faces"] is None else first["faces"]["kind"]))
    _invariant(mon, bc, g, bnd_mask, model, vect, "after constructor")
    _rejections(mon, lambda f, c: cls(g, f, c), g, bnd, interior, rng)

    # set_bc history
    for k, op in enumerate(ops[1:]):
        arg, lst = _faces_arg(op["faces"])
        bc.set_bc(arg, op["cond"])
        mon.count("set_bc_calls")
        mon.count("assignments:" + ("none" if op["faces"] is None else op["faces"]["kind"]))
        mon.count("faces:fracture_or_tip_assigned", int(sum(bool(special[f]) for f in lst)))
        _apply_model(model, op)
        _invariant(mon, bc, g, bnd_mask, model, vect, f"after set_bc call {k + 1}")
        if k == 0:
            before = (bc.is_dir.copy(), bc.is_neu.copy(), bc.is_rob.copy())
            _rejections(mon, bc.set_bc, g, bnd, interior, rng)
            # a rejected call (validation happens before any flag is touched, an unknown
            # keyword is met before the flags of that face are changed) leaves no trace
            after = (bc.is_dir, bc.is_neu, bc.is_rob)
            if not all(np.array_equal(a, b) for a, b in zip(before, after)):
                mon.violation("rejected-call-changed-flags", {})
    _record_conflicts(mon, bc, model, vect)
    kinds = {t for h in model.values() for t in h}
    mon.nontrivial(len(kinds) >= 2)
    mon.measure("boundary_faces", bnd.size)
