"""C13 MPSA reproduces linear displacement fields exactly.

Monitor: ``Mpsa.discretize`` runs on a generated (grid, Lame parameters, boundary type
assignment); the four matrices are read from the data dictionary and applied to the exact
cell-centre / boundary data of ``u = G x + c``.  Oracle: closed-form isotropic Hooke
traction ``sigma(G) n_f`` per face, zero traction for a translation, ``u(x_f)`` on
Dirichlet faces for the boundary displacement reconstruction.
"""
from __future__ import annotations

import numpy as np

from pvm.gen import grids as gg
from pvm.gen import c13_mech as mech

PROP = "C13"
N = {"quick": 44, "thorough": 1200}
WORKERS = {"quick": 4, "thorough": 16}
TIMEOUT = {"quick": 300, "thorough": 3000}
CASE_TIMEOUT = 180.0
RULE = ("seeded 2-D/3-D grid recipes (Cartesian / tensor / triangles / Delaunay / mixed "
        "polygons / tetrahedra / prism+hexahedron extrusions; node-perturbed incl. non-planar "
        "hexahedron faces, affinely mapped), constant (mu, lambda), displacement gradient by "
        "class (general, symmetric, pure rotation, dilation, uniaxial, simple shear) plus a "
        "translation, boundary assignment all-Dirichlet or an admissible per-face "
        "Dirichlet/Neumann mix (2-D: any subset, 3-D: no two Neumann faces share an edge; "
        ">= 1 Dirichlet face), inverter python|numba, optional 2-way partition; non-trivial "
        "= >= 2 cells and G != 0; distinct = case hash")
REACH = [
    ("numerics/fv/mpsa.py", "Mpsa.discretize"),
    ("numerics/fv/mpsa.py", "Mpsa._stress_discretization"),
    ("numerics/fv/mpsa.py", "Mpsa._create_bound_rhs"),
    ("numerics/fv/mpsa.py", "Mpsa._eliminate_ncasym"),
    ("numerics/fv/mpsa.py", "Mpsa._reconstruct_displacement"),
    ("numerics/fv/_fvutils.py", "ExcludeBoundaries.__init__"),
]
REACH_LINES = [
    ("numerics/fv/mpsa.py", "neu_val = 1 / num_face_nodes[fno_ext[neu_rob_ind_all]]"),
    ("numerics/fv/mpsa.py", "pp.matrix_operations.zero_rows(ncasym, dof_elim)"),
]
REQUIRED = {"discretizations": 20, "faces_traction_asserted": 400,
            "neumann_faces_reported": 20, "dirichlet_faces_reconstruction": 150,
            "cases_mixed_bc": 8, "cases_3d": 5, "translation_evaluations": 20}
ASSUMPTIONS = [
    "Neumann data follow the PorePy convention: traction integrated over the face, sign "
    "as seen from outside (sigma n_f times the outward sign of the stored normal)",
    "2-D grids lie in the xy-plane (MPSA's tacit assumption); isotropic constant stiffness",
    "boundary displacement is asserted on Dirichlet faces only (statement), the residual "
    "on Neumann faces is recorded, not asserted",
]
LEVEL_TEXT = ("MPSA stress / bound_stress / bound_displacement matrices reproduce linear "
              "displacement fields (incl. rotations, translations) to round-off on sampled "
              "2-D/3-D grids under the admissible boundary assignments of the statement.")
TECHNIQUE = "closed-form linear-elasticity oracle on discretization matrices"
TOL = 1e-9
KW = "mechanics"
# mechanism of the defect found on the unchanged tree (see final report): the Neumann
# right-hand side weights 1/num_face_nodes are looked up with a face index array in the
# wrong (tiled instead of interleaved) layout, visible only when faces have different
# node counts (prisms / mixed extrusions)
MECH_NEU_WEIGHT = "neumann-weight:mixed-face-node-counts"


def _case(recipe, mu, lam, klass, G, c, neu, inverter, parts=0):
    return {"grid": recipe, "mu": float(mu), "lam": float(lam), "G_class": klass, "G": G,
            "c": [float(v) for v in c], "neu_faces": [int(f) for f in neu],
            "inverter": inverter, "parts": int(parts)}


def floor(tier):
    out = []
    rng = np.random.default_rng(13)
    recs = gg.floor_recipes(dims=(2, 3), rigid=False)
    classes = list(mech.G_CLASSES)
    for k, r in enumerate(recs):
        nd = r["dim"]
        g = gg.build(r)
        kl, G = mech.random_gradient(rng, nd, classes[k % len(classes)])
        c = np.round(rng.normal(size=3), 4)
        if nd == 2:
            c[2] = 0.0
        # all Dirichlet
        out.append(_case(r, 1.0 + 0.25 * k, 0.5 + 0.5 * (k % 3), kl, G, c, [],
                         "python" if k % 2 else "numba"))
        # admissible mix
        neu = mech.pick_neumann(g, rng, 0.5)
        kl2, G2 = mech.random_gradient(rng, nd, classes[(k + 2) % len(classes)])
        out.append(_case(r, 0.7 + 0.1 * k, 2.0 - 0.1 * k, kl2, G2, c, neu,
                         "numba" if k % 2 else "python"))
    # boundary cases: single Neumann face; two Neumann faces meeting in a 2-D corner;
    # 3-D Neumann faces sharing a node but no edge; 2-way partition
    r = {"kind": "cart", "dim": 2, "n": [3, 3], "phys": [1.0, 1.0]}
    g = gg.build(r)
    fn = g.face_nodes.tocsc()
    origin = int(np.argmin(np.sum(np.abs(g.nodes), axis=0)))
    corner = [int(f) for f in mech.boundary_faces(g)
              if origin in fn.indices[fn.indptr[f]:fn.indptr[f + 1]]]
    kl, G = mech.random_gradient(rng, 2, "general")
    out.append(_case(r, 1.0, 1.0, kl, G, [0.3, -0.2, 0.0], corner, "python"))
    out.append(_case(r, 1.0, 1.0, kl, G, [0.3, -0.2, 0.0],
                     [int(mech.boundary_faces(g)[0])], "numba"))
    bf = mech.boundary_faces(g)
    out.append(_case(r, 2.0, 0.3, kl, G, [0.0, 0.0, 0.0], [int(f) for f in bf[1:]],
                     "python"))
    r3 = {"kind": "cart", "dim": 3, "n": [2, 2, 2], "phys": [1.0, 1.0, 1.0]}
    g3 = gg.build(r3)
    top = [int(f) for f in mech.boundary_faces(g3)
           if abs(g3.face_centers[2, f] - 1.0) < 1e-12]
    # diagonal pair of top faces: share the centre node only
    pair = [f for f in top if (g3.face_centers[0, f] < 0.5) == (g3.face_centers[1, f] < 0.5)]
    kl, G = mech.random_gradient(rng, 3, "general")
    out.append(_case(r3, 1.0, 1.0, kl, G, [0.1, 0.2, 0.3], pair, "numba"))
    out.append(_case(r3, 1.0, 1.0, kl, G, [0.1, 0.2, 0.3], pair[:1], "python", parts=2))
    rt = {"kind": "tri", "dim": 2, "n": [3, 3], "phys": [1.0, 2.0]}
    gt = gg.build(rt)
    out.append(_case(rt, 1.5, 0.8, "rotation",
                     [[0.0, -0.7, 0.0], [0.7, 0.0, 0.0], [0.0, 0.0, 0.0]],
                     [1.0, 1.0, 0.0], mech.pick_neumann(gt, rng, 0.6), "python", parts=2))
    # prisms (triangular and quadrilateral faces in one grid), a single Neumann face:
    # minimal witness of MECH_NEU_WEIGHT on the tree where that defect is present
    rp = {"kind": "prism", "dim": 3, "n": [2, 2, 2], "phys": [1.0, 1.0, 1.0], "tseed": 6}
    out.append(_case(rp, 1.0, 1.0, "general",
                     [[0.1, -0.2, 0.3], [0.4, 0.5, -0.6], [0.7, -0.8, 0.9]],
                     [0.1, 0.2, 0.3], [11], "numba"))
    return out


def generate(rng, tier, i):
    three = rng.random() < 0.4
    r = gg.random_recipe(rng, dims=(3,) if three else (2,),
                         max_cells=(36 if tier == "quick" else 80) if three else 50)
    nd = r["dim"]
    g = gg.build(r)
    kl, G = mech.random_gradient(rng, nd)
    c = np.round(rng.normal(size=3), 4)
    if nd == 2:
        c[2] = 0.0
    mu = float(np.round(rng.uniform(0.3, 3.0), 4))
    lam = float(np.round(rng.uniform(0.1, 4.0), 4))
    neu = []
    if rng.random() < 0.7:
        neu = mech.pick_neumann(g, rng, float(rng.choice([0.15, 0.4, 0.8])))
    inverter = str(rng.choice(["numba", "python"]))
    parts = 2 if (g.num_cells >= 6 and rng.random() < 0.15) else 0
    return _case(r, mu, lam, kl, G, c, neu, inverter, parts)


def warmup():
    import porepy as pp
    g = pp.CartGrid(np.array([2, 2]))
    g.compute_geometry()
    bf = g.get_all_boundary_faces()
    for inv in ("numba", "python"):
        data = pp.initialize_data({}, KW, {
            "fourth_order_tensor": pp.FourthOrderTensor(np.ones(4), np.ones(4)),
            "bc": pp.BoundaryConditionVectorial(g, bf, ["dir"] * bf.size),
            "inverter": inv})
        pp.Mpsa(KW).discretize(g, data)


def check(case, mon):
    import porepy as pp

    r = case["grid"]
    g = gg.build(r)
    nd, nc, nf = g.dim, g.num_cells, g.num_faces
    mu, lam = float(case["mu"]), float(case["lam"])
    G = np.asarray(case["G"], dtype=float)
    c = np.asarray(case["c"], dtype=float)
    neu = np.asarray(case["neu_faces"], dtype=int)
    if not mech.admissible(g, neu):
        mon.excluded("boundary assignment not admissible by the statement")
        return
    bf = mech.boundary_faces(g)
    is_neu = np.zeros(nf, dtype=bool)
    is_neu[neu] = True
    dirf = bf[~is_neu[bf]]
    sgn = mech.boundary_sign(g)

    bc = pp.BoundaryConditionVectorial(g, dirf, ["dir"] * dirf.size)
    params = {"fourth_order_tensor": pp.FourthOrderTensor(mu * np.ones(nc), lam * np.ones(nc)),
              "bc": bc, "inverter": case["inverter"]}
    if case.get("parts"):
        params["partition_arguments"] = {"num_subproblems": int(case["parts"])}
    data = pp.initialize_data({}, KW, params)
    discr = pp.Mpsa(KW)
    discr.discretize(g, data)
    M = data[pp.DISCRETIZATION_MATRICES][KW]
    S, BS = M[discr.stress_matrix_key], M[discr.bound_stress_matrix_key]
    DC = M[discr.bound_displacement_cell_matrix_key]
    DF = M[discr.bound_displacement_face_matrix_key]

    mixed_nodes = mech.mixed_face_node_counts(g)
    bmode = "dir" if neu.size == 0 else "mix"
    mon.count("discretizations")
    mon.count(f"inverter_{case['inverter']}")
    mon.count("cases_3d" if nd == 3 else "cases_2d")
    mon.count("cases_mixed_bc" if neu.size else "cases_all_dirichlet")
    if case.get("parts"):
        mon.count("cases_partitioned")
    if neu.size and nd == 3 and mech.faces_share_node(g, neu):
        mon.count("cases_3d_neumann_faces_sharing_a_node")
    if neu.size and mixed_nodes:
        mon.count("cases_neumann_on_mixed_face_node_counts")
    mon.klass(f"{r['kind']}{nd}d" + ("+perturb" if r.get("perturb") else "")
              + ("+affine" if r.get("affine") is not None else "") + f"/{bmode}")
    mon.klass(f"G:{case['G_class']}")
    mon.nontrivial(nc >= 2 and bool(np.any(G != 0)))

    amax = float(np.max(g.face_areas))
    h = float(np.min(g.cell_volumes)) ** (1.0 / nd)
    xf, xc = g.face_centers, g.cell_centers
    stiff = 2 * mu + lam

    def evaluate(Gm, cv, label):
        u = mech.linear_field(Gm, cv)
        sig = mech.stress(Gm, mu, lam, nd)
        T = (sig @ g.face_normals)[:nd]                    # exact traction, stored normal
        bcv = np.zeros((nd, nf))
        bcv[:, dirf] = u(xf[:, dirf])[:nd]
        bcv[:, neu] = T[:, neu] * sgn[neu]
        uc = u(xc)[:nd].ravel("F")
        b = bcv.ravel("F")
        tr = (S @ uc + BS @ b).reshape((nd, nf), order="F")
        umax = float(max(np.max(np.abs(uc)), np.max(np.abs(b[np.repeat(~is_neu, nd)])
                                                     if np.any(~is_neu) else 0.0), 1e-300))
        scale = stiff * amax * (float(np.max(np.abs(Gm))) + umax / h)
        # (a) traction on non-Neumann faces (asserted)
        keep = ~is_neu
        mechanism = f"traction-{label}"
        if neu.size and mixed_nodes and label == "linear-field":
            mechanism = MECH_NEU_WEIGHT
        mon.close(f"traction_{label}_non_neumann", tr[:, keep], T[:, keep], TOL,
                  mechanism, scale=scale,
                  detail={"bc": bmode, "neumann_faces": neu.tolist()[:12]})
        mon.count("faces_traction_asserted", int(keep.sum()))
        # (b) Neumann faces: reported separately (the statement claims non-Neumann faces)
        if neu.size:
            res = float(np.max(np.abs(tr[:, neu] - T[:, neu]))) / scale
            mon.measure(f"traction_{label}_neumann_faces(reported)", res)
            mon.count("neumann_faces_reported", int(neu.size))
            if res > TOL:
                mon.count("neumann_face_residual_above_tol(reported)")
        # (c) boundary displacement reconstruction on Dirichlet faces
        ub = (DC @ uc + DF @ b).reshape((nd, nf), order="F")
        mon.close(f"bound_displacement_{label}", ub[:, dirf], u(xf[:, dirf])[:nd], TOL,
                  f"boundary-displacement-dirichlet-{label}", scale=max(umax, 1e-300))
        mon.count("dirichlet_faces_reconstruction", int(dirf.size))
        if neu.size:
            mon.measure(f"bound_displacement_{label}_neumann_faces(not claimed)",
                        float(np.max(np.abs(ub[:, neu] - u(xf[:, neu])[:nd]))) / umax)

    evaluate(G, c, "linear-field")
    mon.count("linear_field_evaluations")
    # rigid translation: zero traction on every face (Neumann data are zero as well)
    t = c.copy()
    if not np.any(t[:nd] != 0):
        t[:nd] = 1.0
    evaluate(np.zeros((3, 3)), t, "translation")
    mon.count("translation_evaluations")
    if case["G_class"] == "rotation":
        mon.count("rotation_evaluations")
