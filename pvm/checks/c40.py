"""C40 Material tensors are symmetric and transform as tensors.

Monitor: the real ``pp.SecondOrderTensor`` / ``pp.FourthOrderTensor`` are built from
generated admissible cell-wise parameter arrays, then driven through ``rotate``,
``restrict_to_cells`` and ``copy``; after every operation the public attributes
(``values`` and the constitutive fields) are read and decided by closed forms
(reference = dense ``R K R^T`` per cell, ``numpy`` fancy indexing, the Lame form
``lmbda d_ij d_kl + mu (d_ik d_jl + d_il d_jk)`` plus the user supplied basis matrices,
and a snapshot taken before the mutation of a copy).
"""
from __future__ import annotations

import numpy as np

PROP = "C40"
N = {"quick": 1000, "thorough": 100000}
WORKERS = {"quick": 4, "thorough": 16}
TIMEOUT = {"quick": 600, "thorough": 3000}
RULE = ("seeded cell-wise parameter arrays (1-24 cells): second-order tensors in the "
        "argument classes isotropic / diagonal / 2-D (kxx,kyy,kxy) / full SPD (from a random "
        "factor, condition number <= 1e4) / partial off-diagonals / semi-definite floor "
        "cases; fourth-order tensors from Lame arrays with 0-3 extra fields whose 9x9 basis "
        "matrices carry the major and minor symmetries; rotations from random unit "
        "quaternions, coordinate permutations and axis rotations by multiples of 90 degrees, "
        "optionally composed twice; cell selections unsorted, with repeats, empty, all, or "
        "boolean masks; non-trivial = at least 2 cells and (heterogeneous parameters or an "
        "anisotropic tensor); distinct = case hash")
REACH = [
    ("params/tensor.py", "SecondOrderTensor.__init__"),
    ("params/tensor.py", "SecondOrderTensor.rotate"),
    ("params/tensor.py", "SecondOrderTensor.copy"),
    ("params/tensor.py", "FourthOrderTensor.__init__"),
    ("params/tensor.py", "FourthOrderTensor.copy"),
    ("params/tensor.py", "Tensor.restrict_to_cells"),
]
REACH_LINES = [
    ("params/tensor.py", "c += mat[:, :, np.newaxis] * field"),
    ("params/tensor.py", "setattr(tmp_tensor, field, vals[cells])"),
]
REQUIRED = {"second_built": 20, "fourth_built": 10, "rotations": 20, "restrictions": 20,
            "copies": 20, "copy_mutations": 40, "fourth_other_fields": 5,
            "rejections_checked": 2}
ASSUMPTIONS = [
    "admissible second-order parameters = symmetric positive definite per cell (the "
    "constructor rejects negative leading minors); semi-definite tensors are only built, "
    "copied and restricted, never rotated (round-off could push the determinant test of "
    "copy() below zero)",
    "admissible extra fields of a fourth-order tensor = basis matrices with major and minor "
    "symmetries; the 9x9 layout index of the pair (i, j) is 3*i + j",
    "independence of copies is decided on the public arrays (values, mu, lmbda, extra "
    "fields); the private dictionary of constant basis matrices is shared by design and not "
    "asserted",
]
LEVEL_TEXT = ("Reference-model monitor on the public tensor API: symmetry, component "
              "placement, similarity transform with preserved spectrum, cell restriction "
              "and copy independence are decided exactly / to 1e-12 relative on every "
              "generated parameter set.")
TECHNIQUE = "closed-form tensor algebra oracle on generated parameter arrays"
TOL = 1e-12

# ----------------------------------------------------------------------------- helpers


def _quat_to_rot(q):
    q = np.asarray(q, dtype=float)
    q = q / np.linalg.norm(q)
    w, x, y, z = q
    return np.array([
        [1 - 2 * (y * y + z * z), 2 * (x * y - z * w), 2 * (x * z + y * w)],
        [2 * (x * y + z * w), 1 - 2 * (x * x + z * z), 2 * (y * z - x * w)],
        [2 * (x * z - y * w), 2 * (y * z + x * w), 1 - 2 * (x * x + y * y)],
    ])


def _axis_rot(axis, quarter):
    c, s = [(1, 0), (0, 1), (-1, 0), (0, -1)][quarter % 4]
    R = np.eye(3)
    a, b = [(1, 2), (2, 0), (0, 1)][axis]
    R[a, a] = c
    R[b, b] = c
    R[a, b] = -s
    R[b, a] = s
    return R


def _rotation(spec):
    kind = spec[0]
    if kind == "quat":
        return _quat_to_rot(spec[1])
    if kind == "axis":
        return _axis_rot(int(spec[1]), int(spec[2]))
    if kind == "perm":  # even permutation of the axes = proper rotation
        R = np.zeros((3, 3))
        for i, j in enumerate(spec[1]):
            R[i, int(j)] = 1.0
        return R
    if kind == "eye":
        return np.eye(3)
    raise ValueError(kind)


def _rand_rot_spec(rng):
    u = rng.random()
    if u < 0.7:
        return ["quat", rng.normal(size=4).tolist()]
    if u < 0.85:
        return ["axis", int(rng.integers(3)), int(rng.integers(1, 4))]
    if u < 0.95:
        return ["perm", [[1, 2, 0], [2, 0, 1]][int(rng.integers(2))]]
    return ["eye"]


def _rand_cells(rng, nc):
    u = rng.random()
    if u < 0.45:
        k = int(rng.integers(1, nc + 1))
        return {"kind": "index", "cells": rng.permutation(nc)[:k].tolist()}
    if u < 0.65:
        k = int(rng.integers(1, 2 * nc + 1))
        return {"kind": "index", "cells": rng.integers(0, nc, size=k).tolist()}
    if u < 0.8:
        m = rng.random(nc) < 0.5
        return {"kind": "mask", "cells": [int(b) for b in m]}
    if u < 0.9:
        return {"kind": "index", "cells": list(range(nc))}
    if u < 0.95:
        return {"kind": "index", "cells": []}
    return {"kind": "index", "cells": [int(rng.integers(nc))]}


def _sym_basis(rng, integer=True):
    """Random 9x9 matrix of a fourth-order tensor with major and minor symmetries."""
    T = rng.integers(-2, 4, size=(3, 3, 3, 3)).astype(float) if integer \
        else rng.normal(size=(3, 3, 3, 3))
    T = T + T.transpose(1, 0, 2, 3)
    T = T + T.transpose(0, 1, 3, 2)
    T = T + T.transpose(2, 3, 0, 1)
    return T.reshape(9, 9)


def _spd_components(rng, nc, cond_exp=4.0):
    """Cell-wise SPD matrices Q diag(l) Q^T, returned as the six component arrays."""
    comps = np.zeros((6, nc))
    scale = 10.0 ** rng.uniform(-6, 3)
    for c in range(nc):
        Q = _quat_to_rot(rng.normal(size=4))
        lam = scale * 10.0 ** rng.uniform(0, cond_exp, size=3)
        K = Q @ np.diag(lam) @ Q.T
        K = 0.5 * (K + K.T)
        comps[:, c] = [K[0, 0], K[1, 1], K[2, 2], K[0, 1], K[0, 2], K[1, 2]]
    return comps


NAMES = ["kxx", "kyy", "kzz", "kxy", "kxz", "kyz"]

# ----------------------------------------------------------------------------- cases


def _second_case(rng, klass=None):
    nc = int(rng.integers(1, 25))
    if klass is None:
        klass = ["iso", "diag", "2d", "full", "full", "partial", "homog"][
            int(rng.integers(7))]
    args = {}
    if klass == "iso":
        args["kxx"] = (10.0 ** rng.uniform(-8, 4, size=nc)).tolist()
    elif klass == "homog":
        c = _spd_components(rng, 1)
        for k, n in enumerate(NAMES):
            args[n] = np.repeat(c[k], nc).tolist()
    elif klass == "diag":
        for n in NAMES[:3]:
            args[n] = (10.0 ** rng.uniform(-5, 3, size=nc)).tolist()
        if rng.random() < 0.3:
            del args["kzz"]
    elif klass == "2d":
        kxx = 10.0 ** rng.uniform(-3, 3, size=nc)
        kyy = 10.0 ** rng.uniform(-3, 3, size=nc)
        kxy = rng.uniform(-0.95, 0.95, size=nc) * np.sqrt(kxx * kyy)
        args = {"kxx": kxx.tolist(), "kyy": kyy.tolist(), "kxy": kxy.tolist()}
    elif klass == "full":
        c = _spd_components(rng, nc)
        args = {n: c[k].tolist() for k, n in enumerate(NAMES)}
    elif klass == "partial":
        # diagonally dominant, a random subset of the optional arguments left out
        d = 10.0 ** rng.uniform(0, 2, size=(3, nc))
        o = rng.uniform(-0.3, 0.3, size=(3, nc)) * d.min(axis=0)
        full = dict(zip(NAMES, list(d) + list(o)))
        # kyy/kzz default to kxx: keep dominance by making the diagonal equal if dropped
        keep = {"kxx"}
        for n in NAMES[1:]:
            if rng.random() < 0.55:
                keep.add(n)
        args = {n: full[n].tolist() for n in NAMES if n in keep}
    ops = []
    for _ in range(int(rng.integers(1, 5))):
        u = rng.random()
        if u < 0.4:
            ops.append(["rotate", _rand_rot_spec(rng)])
        elif u < 0.7:
            ops.append(["restrict", _rand_cells(rng, nc)])
        else:
            ops.append(["copy", int(rng.integers(1, 2**31))])
    kinds = {o[0] for o in ops}
    for k, mk in (("rotate", lambda: ["rotate", _rand_rot_spec(rng)]),
                  ("restrict", lambda: ["restrict", _rand_cells(rng, nc)]),
                  ("copy", lambda: ["copy", int(rng.integers(1, 2**31))])):
        if k not in kinds and rng.random() < 0.6:
            ops.append(mk())
    return {"order": 2, "klass": klass, "nc": nc, "args": args, "ops": ops}


def _fourth_case(rng, n_other=None, integer=None):
    nc = int(rng.integers(1, 25))
    mu = 10.0 ** rng.uniform(-2, 10, size=nc)
    lmbda = 10.0 ** rng.uniform(-2, 10, size=nc) * rng.choice([1.0, 1.0, 0.0], size=nc)
    if rng.random() < 0.15:          # auxetic but still positive definite: 3 lmbda + 2 mu > 0
        lmbda = -0.3 * mu
    if n_other is None:
        n_other = int(rng.choice([0, 0, 1, 2, 3]))
    other = []
    for k in range(n_other):
        integer_k = (rng.random() < 0.5) if integer is None else integer
        other.append({"name": f"extra_{k}", "mat": _sym_basis(rng, integer_k).tolist(),
                      "field": (10.0 ** rng.uniform(-2, 6, size=nc)).tolist()})
    ops = []
    for _ in range(int(rng.integers(1, 4))):
        if rng.random() < 0.5:
            ops.append(["restrict", _rand_cells(rng, nc)])
        else:
            ops.append(["copy", int(rng.integers(1, 2**31))])
    if not any(o[0] == "copy" for o in ops):
        ops.append(["copy", int(rng.integers(1, 2**31))])
    return {"order": 4, "nc": nc, "mu": mu.tolist(), "lmbda": lmbda.tolist(),
            "other": other, "ops": ops}


def _reject_case(rng, which):
    nc = int(rng.integers(1, 8))
    c = int(rng.integers(nc))
    kxx = 10.0 ** rng.uniform(-2, 2, size=nc)
    args = {"kxx": kxx.tolist()}
    if which == "x":
        kxx[c] = -kxx[c]
        args["kxx"] = kxx.tolist()
    elif which == "y":
        kyy = kxx.copy()
        kxy = 0.1 * kxx
        kxy[c] = 1.5 * kxx[c]
        args.update(kyy=kyy.tolist(), kxy=kxy.tolist())
    else:
        kxz = 0.1 * kxx
        kxz[c] = 1.5 * kxx[c]
        args.update(kxz=kxz.tolist())
    return {"order": 2, "klass": "reject-" + which, "nc": nc, "args": args, "ops": [],
            "reject": True}


def floor(tier):
    rng = np.random.default_rng(4040)
    out = []
    for klass in ["iso", "diag", "2d", "full", "partial", "homog"]:
        c = _second_case(rng, klass)
        c["ops"] = [["rotate", ["quat", rng.normal(size=4).tolist()]],
                    ["copy", 7],
                    ["restrict", _rand_cells(rng, c["nc"])],
                    ["rotate", ["axis", 2, 1]],
                    ["copy", 11],
                    ["restrict", {"kind": "index", "cells": [0]}]]
        out.append(c)
    # single cell, identity rotation, empty / full / mask restriction
    out.append({"order": 2, "klass": "iso", "nc": 1, "args": {"kxx": [2.5]},
                "ops": [["rotate", ["eye"]], ["restrict", {"kind": "index", "cells": [0]}],
                        ["copy", 3], ["restrict", {"kind": "index", "cells": []}]]})
    out.append({"order": 2, "klass": "full", "nc": 3,
                "args": {"kxx": [2.0, 3.0, 4.0], "kyy": [3.0, 1.0, 5.0], "kzz": [1.0, 2.0, 6.0],
                         "kxy": [0.5, -0.2, 1.0], "kxz": [-0.3, 0.1, 0.5],
                         "kyz": [0.2, 0.4, -1.0]},
                "ops": [["rotate", ["perm", [1, 2, 0]]], ["rotate", ["quat", [1, 2, 3, 4]]],
                        ["restrict", {"kind": "mask", "cells": [1, 0, 1]}], ["copy", 5],
                        ["restrict", {"kind": "index", "cells": [2, 0, 2, 1]}]]})
    # semi-definite admissible parameters (zero permeability in a cell, singular 2x2 block)
    out.append({"order": 2, "klass": "semidefinite", "nc": 3,
                "args": {"kxx": [0.0, 1.0, 4.0], "kyy": [0.0, 1.0, 1.0], "kxy": [0.0, 1.0, 2.0]},
                "ops": [["copy", 9], ["restrict", {"kind": "index", "cells": [2, 1]}]]})
    for w in "xyz":
        out.append(_reject_case(rng, w))
    for n_other, integer in [(0, True), (1, True), (3, False), (5, True)]:
        c = _fourth_case(rng, n_other, integer)
        c["ops"] = [["copy", 13], ["restrict", _rand_cells(rng, c["nc"])], ["copy", 17],
                    ["restrict", {"kind": "index", "cells": [0]}]]
        out.append(c)
    out.append({"order": 4, "nc": 1, "mu": [1.0], "lmbda": [0.0], "other": [],
                "ops": [["copy", 1], ["restrict", {"kind": "index", "cells": [0]}]]})
    return out


def generate(rng, tier, i):
    u = rng.random()
    if u < 0.6:
        return _second_case(rng)
    if u < 0.63:
        return _reject_case(rng, "xyz"[int(rng.integers(3))])
    return _fourth_case(rng)


# ----------------------------------------------------------------------------- oracle

_PAIR = np.array([3 * j + i for i in range(3) for j in range(3)])  # (i,j) -> (j,i)


def _cells_index(spec):
    if spec["kind"] == "mask":
        return np.asarray(spec["cells"], dtype=bool)
    return np.asarray(spec["cells"], dtype=int)


def _expected_second(args, nc):
    """Dense cell-wise 3x3 from the constructor arguments, defaults per docstring."""
    a = {k: np.asarray(v, dtype=float) for k, v in args.items()}
    kxx = a["kxx"]
    kyy = a.get("kyy", kxx)
    kzz = a.get("kzz", kxx)
    z = np.zeros(nc)
    kxy, kxz, kyz = a.get("kxy", z), a.get("kxz", z), a.get("kyz", z)
    K = np.zeros((3, 3, nc))
    K[0, 0], K[1, 1], K[2, 2] = kxx, kyy, kzz
    K[0, 1] = K[1, 0] = kxy
    K[0, 2] = K[2, 0] = kxz
    K[1, 2] = K[2, 1] = kyz
    return K


def _check_second_symmetry(mon, V, exact, where):
    mon.count("symmetry_checks_second", V.shape[2])
    if V.shape[:2] != (3, 3):
        mon.violation("second-order:shape", {"shape": list(V.shape), "where": where})
        return
    if exact:
        if not np.array_equal(V, V.transpose(1, 0, 2)):
            mon.violation("second-order:not-symmetric", {"where": where})
    else:
        sc = max(float(np.max(np.abs(V))), 1e-300) if V.size else 1.0
        mon.close("second_symmetry_after_rotation", V, V.transpose(1, 0, 2), TOL,
                  "second-order:not-symmetric-after-rotate", scale=sc, detail=where)


def _mutate_and_compare(mon, orig, cp, fields, seed, label):
    """Mutate every public array of ``cp`` in place; ``orig`` must not change, and the
    other way round."""
    rng = np.random.default_rng(seed)
    for a, b, direction in ((cp, orig, "copy->orig"), (orig, cp, "orig->copy")):
        snap = {f: np.array(getattr(b, f), copy=True) for f in fields}
        backup = {f: np.array(getattr(a, f), copy=True) for f in fields}
        for f in fields:
            arr = getattr(a, f)
            if np.shares_memory(arr, getattr(b, f)):
                mon.violation(f"{label}:copy-shares-memory", {"field": f})
            arr += 1.0 + rng.random(arr.shape)
            mon.count("copy_mutations")
        for f in fields:
            if not np.array_equal(getattr(b, f), snap[f]):
                mon.violation(f"{label}:copy-not-independent",
                              {"field": f, "direction": direction})
        for f in fields:  # undo, so that later operations see the original state
            getattr(a, f)[...] = backup[f]


def _check_second(case, mon):
    import porepy as pp
    nc = case["nc"]
    args = {k: np.asarray(v, dtype=float) for k, v in case["args"].items()}
    if case.get("reject"):
        mon.klass("second:" + case["klass"])
        mon.count("rejections_checked")
        try:
            pp.SecondOrderTensor(**args)
        except ValueError:
            mon.count("rejections_valueerror")
            return
        mon.violation("second-order:indefinite-accepted", {"klass": case["klass"]})
        return
    t = pp.SecondOrderTensor(**{k: v.copy() for k, v in args.items()})
    mon.count("second_built")
    mon.klass("second:" + case["klass"])
    K = _expected_second(case["args"], nc)
    hetero = nc >= 2 and bool(np.any(K != K[:, :, [0]]))
    aniso = bool(np.any(K[0, 1] != 0) or np.any(K[0, 0] != K[1, 1]))
    mon.nontrivial(nc >= 2 and (hetero or aniso))
    _check_second_symmetry(mon, t.values, True, "constructor")
    if not np.array_equal(t.values, K):
        mon.violation("second-order:component-placement",
                      {"args": sorted(case["args"]), "klass": case["klass"]})
        return
    rotated = False
    for op in case["ops"]:
        kind = op[0]
        if kind == "rotate":
            R = _rotation(op[1])
            mon.count("rotations")
            mon.count("rotation_kind:" + op[1][0])
            before = t.values.copy()
            t.rotate(R)
            want = np.einsum("ij,jkc,lk->ilc", R, before, R)
            sc = max(float(np.max(np.abs(before))), 1e-300)
            mon.close("rotate_similarity", t.values, want, TOL,
                      "second-order:rotate-not-similarity", scale=sc,
                      detail={"rotation": op[1]})
            _check_second_symmetry(mon, t.values, False, "rotate")
            # spectrum preserved, per cell, relative to the largest eigenvalue of the cell
            e0 = np.linalg.eigvalsh(np.moveaxis(0.5 * (before + before.transpose(1, 0, 2)), 2, 0))
            V = t.values
            e1 = np.linalg.eigvalsh(np.moveaxis(0.5 * (V + V.transpose(1, 0, 2)), 2, 0))
            lam = np.maximum(np.max(np.abs(e0), axis=1, keepdims=True), 1e-300)
            mon.close("rotate_eigenvalues", e1 / lam, e0 / lam, 1e-11,
                      "second-order:rotate-changes-eigenvalues", scale=1.0,
                      detail={"rotation": op[1]})
            # trace and determinant are invariants as well (cheap independent look)
            tr0 = np.trace(before, axis1=0, axis2=1)
            tr1 = np.trace(V, axis1=0, axis2=1)
            mon.close("rotate_trace", tr1 / lam[:, 0], tr0 / lam[:, 0], 1e-11,
                      "second-order:rotate-changes-trace", scale=1.0)
            rotated = True
        elif kind == "restrict":
            idx = _cells_index(op[1])
            mon.count("restrictions")
            mon.count("restriction_kind:" + op[1]["kind"])
            before = t.values.copy()
            r = t.restrict_to_cells(idx)
            if not np.array_equal(t.values, before):
                mon.violation("second-order:restrict-mutates-original", {})
            want = before[:, :, idx]
            if r.values.shape != want.shape:
                mon.violation("second-order:restrict-wrong-cells",
                              {"got": list(r.values.shape), "want": list(want.shape)})
            elif rotated:
                # copy() inside restrict rebuilds from the lower triangle: equal up to
                # the round-off asymmetry left by rotate
                sc = max(float(np.max(np.abs(before))), 1e-300)
                mon.close("restrict_after_rotate", r.values, want, TOL,
                          "second-order:restrict-wrong-cells", scale=sc)
            elif not np.array_equal(r.values, want):
                mon.violation("second-order:restrict-wrong-cells", {"cells": op[1]})
            if r.values.size and np.shares_memory(r.values, t.values):
                mon.violation("second-order:restrict-shares-memory", {})
            mon.count("cells_selected", int(want.shape[2]))
        elif kind == "copy":
            mon.count("copies")
            before = t.values.copy()
            c = t.copy()
            if type(c) is not type(t):
                mon.violation("second-order:copy-type", {"type": type(c).__name__})
            if rotated:
                sc = max(float(np.max(np.abs(before))), 1e-300)
                mon.close("copy_after_rotate", c.values, before, TOL,
                          "second-order:copy-differs", scale=sc)
            elif not np.array_equal(c.values, before):
                mon.violation("second-order:copy-differs", {})
            _mutate_and_compare(mon, t, c, ["values"], op[1], "second-order")


def _check_fourth_symmetry(mon, V, where):
    mon.count("symmetry_checks_fourth", V.shape[2])
    if V.shape[:2] != (9, 9):
        mon.violation("fourth-order:shape", {"shape": list(V.shape), "where": where})
        return
    if not np.array_equal(V, V.transpose(1, 0, 2)):
        mon.violation("fourth-order:not-major-symmetric", {"where": where})
    if not (np.array_equal(V, V[_PAIR]) and np.array_equal(V, V[:, _PAIR])):
        mon.violation("fourth-order:not-minor-symmetric", {"where": where})


def _lame_form(mu, lmbda):
    d = np.eye(3)
    iso_l = np.einsum("ij,kl->ijkl", d, d).reshape(9, 9)
    iso_m = (np.einsum("ik,jl->ijkl", d, d) + np.einsum("il,jk->ijkl", d, d)).reshape(9, 9)
    return iso_l[:, :, None] * lmbda + iso_m[:, :, None] * mu


def _check_fourth(case, mon):
    import porepy as pp
    nc = case["nc"]
    mu = np.asarray(case["mu"], dtype=float)
    lmbda = np.asarray(case["lmbda"], dtype=float)
    other = {o["name"]: (np.asarray(o["mat"], dtype=float), np.asarray(o["field"], dtype=float))
             for o in case["other"]}
    t = pp.FourthOrderTensor(mu.copy(), lmbda.copy(),
                             {k: (m.copy(), f.copy()) for k, (m, f) in other.items()}
                             if other else None)
    mon.count("fourth_built")
    if other:
        mon.count("fourth_other_fields", len(other))
    mon.klass(f"fourth:other={len(other)}")
    mon.nontrivial(nc >= 2)
    want = _lame_form(mu, lmbda)
    for k, (m, f) in other.items():
        want = want + m[:, :, None] * f
    sc = max(float(np.max(np.abs(want))), 1e-300)
    # integer basis matrices and the Lame part are summed in a fixed order by the
    # constructor; the reference sums in the same order, so agreement is to round-off
    mon.close("fourth_values", t.values, want, TOL, "fourth-order:lame-form", scale=sc)
    # symmetric partner entries are sums of the same operands in the same order (also with
    # extra fields), so the symmetries hold exactly, not only to round-off
    _check_fourth_symmetry(mon, t.values, "constructor+fields" if other else "constructor")
    fields = ["mu", "lmbda"] + list(other)
    if sorted(t.constitutive_parameters) != sorted(fields):
        mon.violation("fourth-order:constitutive-parameter-list",
                      {"got": list(t.constitutive_parameters), "want": fields})
    for f, w in [("mu", mu), ("lmbda", lmbda)] + [(k, v[1]) for k, v in other.items()]:
        if not np.array_equal(getattr(t, f), w):
            mon.violation("fourth-order:field-not-stored", {"field": f})
    for op in case["ops"]:
        if op[0] == "restrict":
            idx = _cells_index(op[1])
            mon.count("restrictions")
            mon.count("restriction_kind:" + op[1]["kind"])
            before = {f: np.array(getattr(t, f), copy=True) for f in fields + ["values"]}
            r = t.restrict_to_cells(idx)
            for f in fields + ["values"]:
                if not np.array_equal(getattr(t, f), before[f]):
                    mon.violation("fourth-order:restrict-mutates-original", {"field": f})
            if not np.array_equal(r.values, before["values"][:, :, idx]):
                mon.violation("fourth-order:restrict-wrong-cells", {"field": "values"})
            for f in fields:
                got = getattr(r, f, None)
                if got is None or not np.array_equal(got, before[f][idx]):
                    mon.violation("fourth-order:restrict-wrong-cells", {"field": f})
                elif got.size and np.shares_memory(got, getattr(t, f)):
                    mon.violation("fourth-order:restrict-shares-memory", {"field": f})
                mon.count("fields_restricted")
            if r.values.shape[2]:
                _check_fourth_symmetry(mon, r.values, "restrict")
            mon.count("cells_selected", int(r.values.shape[2]))
        else:
            mon.count("copies")
            c = t.copy()
            if type(c) is not type(t):
                mon.violation("fourth-order:copy-type", {"type": type(c).__name__})
            if sorted(c.constitutive_parameters) != sorted(fields):
                mon.violation("fourth-order:copy-loses-fields",
                              {"got": list(c.constitutive_parameters)})
                continue
            for f in fields + ["values"]:
                if not np.array_equal(getattr(c, f), getattr(t, f)):
                    mon.violation("fourth-order:copy-differs", {"field": f})
            _mutate_and_compare(mon, t, c, fields + ["values"], op[1], "fourth-order")
            # a copy of a copy, restricted, still selects the right cells
            cc = c.copy().restrict_to_cells(np.arange(nc)[::-1])
            if not np.array_equal(cc.values, t.values[:, :, ::-1]):
                mon.violation("fourth-order:restrict-wrong-cells", {"field": "values",
                                                                   "via": "copy of copy"})


def check(case, mon):
    if case["order"] == 2:
        _check_second(case, mon)
    else:
        _check_fourth(case, mon)
