"""C15 Biot coupling terms are consistent.

Monitor: ``Biot.discretize`` runs on a generated (grid, Lame parameters, coupling
coefficients) with Dirichlet mechanical boundary conditions on every boundary face; the
coupling matrices (dictionaries keyed by coupling keyword) are read from the data
dictionary.  Oracle (closed form): for ``u = G x + c``

    displacement_divergence[k] u_c + boundary_displacement_divergence[k] u_b
        == (alpha_k : G) |cell|            (= alpha tr(G) |cell| for scalar alpha)
    scalar_gradient[k] (p0 1) == - p0 alpha_k n_f        (nd rows per face)
"""
from __future__ import annotations

import numpy as np

from pvm.gen import grids as gg
from pvm.gen import c13_mech as mech

PROP = "C15"
N = {"quick": 36, "thorough": 900}
WORKERS = {"quick": 4, "thorough": 16}
TIMEOUT = {"quick": 300, "thorough": 3000}
CASE_TIMEOUT = 180.0
RULE = ("seeded 2-D/3-D grid recipes (Cartesian / tensor / triangles / Delaunay / mixed "
        "polygons / tetrahedra / prisms; perturbed, affine), constant (mu, lambda), "
        "Dirichlet mechanical condition on all boundary faces, two or three coupling keywords "
        "at once (float alpha, integer alpha, constant symmetric tensor alpha), displacement "
        "gradient by class + translation, constant pressure p0 (either sign), inverter "
        "python|numba, optional 2-way partition; non-trivial = >= 2 cells and tr(G) != 0 or "
        "tensor alpha; distinct = case hash")
REACH = [
    ("numerics/fv/biot.py", "Biot.discretize"),
    ("numerics/fv/biot.py", "Biot._local_discretization"),
    ("numerics/fv/biot.py", "Biot._create_rhs_scalar_gradient"),
    ("numerics/fv/biot.py", "Biot._subcell_gradient_to_cell_scalar"),
]
REACH_LINES = [
    ("numerics/fv/biot.py", "alphas[key] = pp.SecondOrderTensor(alpha_input * np.ones(sd.num_cells))"),
    ("numerics/fv/biot.py", "alphas[key] = alpha_input"),
]
REQUIRED = {"discretizations": 15, "cells_divergence_checked": 300,
            "faces_scalar_gradient_checked": 800, "keys_scalar_alpha": 15,
            "keys_tensor_alpha": 15, "cases_3d": 5}
ASSUMPTIONS = [
    "mechanical boundary condition is Dirichlet on every boundary face (premise of the "
    "statement; with Neumann faces the pressure-gradient identity is not claimed)",
    "coupling coefficients are constant in space; tensor coefficients are symmetric "
    "(SecondOrderTensor) and the divergence term is the double contraction alpha : grad u",
    "2-D grids lie in the xy-plane",
]
LEVEL_TEXT = ("Biot displacement-divergence and scalar-gradient matrices reproduce "
              "alpha:grad(u)|cell| for linear displacements and -p0 alpha n_f for constant "
              "pressure to round-off on sampled 2-D/3-D grids with all-Dirichlet mechanics, "
              "scalar and tensor coupling coefficients, several keywords at once.")
TECHNIQUE = "closed-form oracle on Biot coupling matrices"
TOL = 1e-9
KW = "mechanics"


def _case(recipe, mu, lam, klass, G, c, a_float, a_int, a_tensor, p0, inverter, parts=0):
    return {"grid": recipe, "mu": float(mu), "lam": float(lam), "G_class": klass, "G": G,
            "c": [float(v) for v in c], "alpha_float": float(a_float),
            "alpha_int": int(a_int),
            "alpha_tensor": [[float(v) for v in row] for row in a_tensor],
            "p0": float(p0), "inverter": inverter, "parts": int(parts)}


def _rand_tensor(rng, nd):
    B = rng.normal(size=(nd, nd))
    A = np.eye(3)
    A[:nd, :nd] = 0.4 * (B @ B.T) + 0.3 * np.eye(nd)
    return np.round(A, 5)


def floor(tier):
    out = []
    rng = np.random.default_rng(15)
    classes = list(mech.G_CLASSES)
    for k, r in enumerate(gg.floor_recipes(dims=(2, 3), rigid=False)):
        nd = r["dim"]
        kl, G = mech.random_gradient(rng, nd, classes[k % len(classes)])
        c = np.round(rng.normal(size=3), 4)
        if nd == 2:
            c[2] = 0.0
        out.append(_case(r, 0.8 + 0.2 * k, 0.4 + 0.3 * (k % 4), kl, G, c,
                         0.5 + 0.1 * k, 0 if k % 5 == 4 else 1 + k % 2, _rand_tensor(rng, nd),
                         (-1.0) ** k * (1.0 + 0.5 * k), "python" if k % 2 else "numba"))
    r3 = {"kind": "cart", "dim": 3, "n": [3, 2, 2], "phys": [1.0, 1.0, 1.0]}
    kl, G = mech.random_gradient(rng, 3, "general")
    out.append(_case(r3, 1.0, 1.0, kl, G, [0.1, 0.2, 0.3], 1.0, 1, _rand_tensor(rng, 3),
                     2.0, "numba", parts=2))
    r2 = {"kind": "tri", "dim": 2, "n": [3, 3], "phys": [1.0, 2.0]}
    kl, G = mech.random_gradient(rng, 2, "dilation")
    out.append(_case(r2, 1.0, 1.0, kl, G, [0.1, 0.2, 0.0], 0.7, 2, _rand_tensor(rng, 2),
                     -3.0, "python", parts=2))
    return out


def generate(rng, tier, i):
    three = rng.random() < 0.4
    r = gg.random_recipe(rng, dims=(3,) if three else (2,),
                         max_cells=(30 if tier == "quick" else 60) if three else 50)
    nd = r["dim"]
    kl, G = mech.random_gradient(rng, nd)
    c = np.round(rng.normal(size=3), 4)
    if nd == 2:
        c[2] = 0.0
    g = gg.build(r)
    parts = 2 if (g.num_cells >= 6 and rng.random() < 0.15) else 0
    return _case(r, np.round(rng.uniform(0.3, 3.0), 4), np.round(rng.uniform(0.1, 4.0), 4),
                 kl, G, c, np.round(rng.uniform(0.1, 1.5), 4), int(rng.integers(0, 4)),
                 _rand_tensor(rng, nd), np.round(rng.choice([-1, 1]) * rng.uniform(0.2, 5), 4),
                 str(rng.choice(["numba", "python"])), parts)


def warmup():
    import porepy as pp
    g = pp.CartGrid(np.array([2, 2]))
    g.compute_geometry()
    bf = g.get_all_boundary_faces()
    for inv in ("numba", "python"):
        data = pp.initialize_data({}, KW, {
            "fourth_order_tensor": pp.FourthOrderTensor(np.ones(4), np.ones(4)),
            "bc": pp.BoundaryConditionVectorial(g, bf, ["dir"] * bf.size),
            "scalar_vector_mappings": {"a": 1.0}, "inverter": inv})
        pp.Biot(KW).discretize(g, data)


def check(case, mon):
    import porepy as pp

    r = case["grid"]
    g = gg.build(r)
    nd, nc, nf = g.dim, g.num_cells, g.num_faces
    mu, lam = float(case["mu"]), float(case["lam"])
    G = np.asarray(case["G"], dtype=float)
    c = np.asarray(case["c"], dtype=float)
    A = np.asarray(case["alpha_tensor"], dtype=float)
    p0 = float(case["p0"])
    one = np.ones(nc)
    if nd == 3:
        ten = pp.SecondOrderTensor(kxx=A[0, 0] * one, kyy=A[1, 1] * one, kzz=A[2, 2] * one,
                                   kxy=A[0, 1] * one, kxz=A[0, 2] * one, kyz=A[1, 2] * one)
    else:
        ten = pp.SecondOrderTensor(kxx=A[0, 0] * one, kyy=A[1, 1] * one, kxy=A[0, 1] * one)
    # dictionary order matters for nothing; three keywords of three input kinds
    alphas = {"t_tensor": (ten, A[:nd, :nd], "tensor"),
              "f_float": (float(case["alpha_float"]),
                          float(case["alpha_float"]) * np.eye(nd), "scalar")}
    if case["alpha_int"] > 0:
        alphas["i_int"] = (int(case["alpha_int"]), int(case["alpha_int"]) * np.eye(nd),
                           "scalar")
    bf = mech.boundary_faces(g)
    bc = pp.BoundaryConditionVectorial(g, bf, ["dir"] * bf.size)
    params = {"fourth_order_tensor": pp.FourthOrderTensor(mu * one, lam * one), "bc": bc,
              "scalar_vector_mappings": {k: v[0] for k, v in alphas.items()},
              "inverter": case["inverter"]}
    if case.get("parts"):
        params["partition_arguments"] = {"num_subproblems": int(case["parts"])}
    data = pp.initialize_data({}, KW, params)
    discr = pp.Biot(KW)
    if case.get("decoy", (nc * 7 + nf) % 3 == 0):
        # the same Biot object first discretizes a stretched copy of the grid (same entity
        # counts, other cell volumes): nothing geometric may be remembered by the object
        g0 = gg.build(r)
        g0.nodes = g0.nodes * np.array([[1.7], [0.6], [1.3]])
        g0.compute_geometry()
        bf0 = mech.boundary_faces(g0)
        p0_ = dict(params, bc=pp.BoundaryConditionVectorial(g0, bf0, ["dir"] * bf0.size))
        discr.discretize(g0, pp.initialize_data({}, KW, p0_))
        mon.count("discretization_object_reused_after_a_stretched_copy")
    discr.discretize(g, data)
    M = data[pp.DISCRETIZATION_MATRICES][KW]
    DD = M[discr.displacement_divergence_matrix_key]
    BDD = M[discr.bound_displacement_divergence_matrix_key]
    SG = M[discr.scalar_gradient_matrix_key]

    mon.count("discretizations")
    mon.count(f"inverter_{case['inverter']}")
    mon.count("cases_3d" if nd == 3 else "cases_2d")
    if case.get("parts"):
        mon.count("cases_partitioned")
    mon.klass(f"{r['kind']}{nd}d" + ("+perturb" if r.get("perturb") else "")
              + ("+affine" if r.get("affine") is not None else ""))
    mon.klass(f"G:{case['G_class']}")
    mon.klass(f"keywords:{len(alphas)}")
    mon.nontrivial(nc >= 2)

    for name in (discr.displacement_divergence_matrix_key,
                 discr.bound_displacement_divergence_matrix_key,
                 discr.scalar_gradient_matrix_key):
        if not isinstance(M[name], dict) or set(M[name].keys()) != set(alphas.keys()):
            mon.violation("coupling-matrices-not-keyed-by-keyword",
                          {"matrix": name, "keys": repr(getattr(M[name], "keys", lambda: M[name])())})
            return

    V = g.cell_volumes
    amax = float(np.max(g.face_areas))
    h = float(np.min(V)) ** (1.0 / nd)
    xf, xc = g.face_centers, g.cell_centers

    def displacement(Gm, cv, label):
        u = mech.linear_field(Gm, cv)
        bcv = np.zeros((nd, nf))
        bcv[:, bf] = u(xf[:, bf])[:nd]
        uc = u(xc)[:nd].ravel("F")
        b = bcv.ravel("F")
        umax = float(max(np.max(np.abs(uc)), np.max(np.abs(b)), 1e-300))
        for key, (_, Am, kind) in alphas.items():
            got = DD[key] @ uc + BDD[key] @ b
            want = float(np.sum(Am * Gm[:nd, :nd])) * V
            amag = float(np.max(np.abs(Am)))
            scale = amag * float(np.max(V)) * (float(np.max(np.abs(Gm))) + umax / h)
            mon.close(f"divergence_{label}_{kind}_alpha", got, want, TOL,
                      f"displacement-divergence-{label}-{kind}-alpha", scale=scale,
                      detail={"key": key})
            mon.count("cells_divergence_checked", nc)

    displacement(G, c, "linear-field")
    t = c.copy()
    if not np.any(t[:nd] != 0):
        t[:nd] = 1.0
    displacement(np.zeros((3, 3)), t, "translation")

    for key, (_, Am, kind) in alphas.items():
        got = (SG[key] @ (p0 * one)).reshape((nd, nf), order="F")
        want = -p0 * (Am @ g.face_normals[:nd])
        scale = abs(p0) * float(np.max(np.abs(Am))) * amax
        mon.close(f"scalar_gradient_{kind}_alpha", got, want, TOL,
                  f"scalar-gradient-constant-pressure-{kind}-alpha", scale=scale,
                  detail={"key": key})
        mon.count("faces_scalar_gradient_checked", nf)
        mon.count(f"keys_{kind}_alpha")
