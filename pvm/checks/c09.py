"""C09 Adaptive time stepping hits every scheduled time.

Monitor: an online trace checker over the *real* ``pp.TimeManager``.  A driver replays the
protocol of ``run_time_dependent_model`` / ``SolutionStrategy`` (``increase_time``,
``increase_time_index``, then ``compute_time_step(iterations=k)`` after a scripted
convergence or ``compute_time_step(recompute_solution=True)`` after a scripted failure) and
after every step the checker decides the clauses of the property statement on the public
state (``time``, ``dt``, ``time_index``, ``dt_min_max``, ``schedule``,
``final_time_reached()``):

* accepted times strictly increase,
* every scheduled time is hit within the manager's ``rtol/atol`` (a scheduled time that is
  passed without being hit - the final time included - is the violation),
* every used dt lies in ``[dt_min, dt_max]`` unless it is a shortened step that lands on a
  scheduled time,
* a failed step returns the clock (and ``time_index``) to the last accepted time, or
  ``ValueError`` is raised exactly when ``dt == dt_min`` or the recomputation budget is
  exhausted,
* the run terminates within a step bound derived from ``dt_min``.

The checker is a bad-prefix monitor: the first violated clause ends the trace (what
follows a violated prefix is not a specified state).  A recording wrapper around
``TimeManager._correction_based_on_schedule`` (entry/exit ``time, dt, cursor``) is used only
to name the mechanism of a skipped scheduled time and to count branch reach; no verdict
depends on private state.
"""
from __future__ import annotations

import copy
import math

import numpy as np

PROP = "C09"
N = {"quick": 3000, "thorough": 200000}
WORKERS = {"quick": 4, "thorough": 16}
TIMEOUT = {"quick": 240, "thorough": 1500}
CASE_TIMEOUT = 120.0
RULE = ("random traces: schedules of 2-6 points (start 0 / lattice / irrational / large, "
        "lattice, irrational and mixed long/short intervals), dt_init <= first interval "
        "(equality, exact divisors, 0.1-lattice, random fraction), admissible dt_min_max "
        "(explicit or default), relaxation / recomputation parameters, rtol/atol, scripts of "
        "length 0-12 over iteration counts {<=lower, inside, >=upper, >iter_max} and failures, "
        "failure bursts injected at steps that are about to land on / start from a scheduled "
        "time, convergent cyclic tail; plus an exhaustive enumeration (prefix tree) of all "
        "scripts of length <= 6 (thorough: 8) over {fast, optimal, slow, fail} followed by an "
        "alternating optimal/fast tail "
        "for 8 fixed configurations; plus constant-dt traces on compatible schedules. "
        "non-trivial = trace has >= 3 steps and (>= 1 failure or >= 1 dt change or >= 3 "
        "scheduled points); distinct = case hash")
# Function reach is counted by PY_START only for functions without wanted lines; for the
# functions whose branches are wanted the first body line stands for the function (a
# PY_START target that also carries LINE targets costs a re-instrumentation per call).
_F = "numerics/time_step_control.py"
REACH = [
    (_F, "TimeManager.compute_time_step"),
    (_F, "TimeManager.final_time_reached"),
    (_F, "TimeManager.increase_time"),
]
REACH_LINES = [
    # _adaptation_based_on_iterations: entry, (C1), (C2), (C3)
    (_F, "if iterations is None:"),
    (_F, "self.dt = self.dt * self.iter_relax_factors[1]"),
    (_F, "self.dt = self.dt * self.iter_relax_factors[0]"),
    (_F, "pass  # (C3)"),
    # _adaptation_based_on_recomputation: entry, (S1) rewind, (S5) schedule step-back
    (_F, "if self._recomp_num < self.recomp_max:"),
    (_F, "self.time -= self.dt  # (S1)"),
    (_F, "self._scheduled_idx -= 1"),
    # corrections: entry and branch of each
    (_F, "if self.dt < self.dt_min_max[0]:"),
    (_F, "self.dt = self.dt_min_max[0]"),
    (_F, "if self.dt > self.dt_min_max[1]:"),
    (_F, "self.dt = self.dt_min_max[1]"),
    (_F, "schedule_time = self.schedule[self._scheduled_idx]"),
    (_F, "if np.isclose(self.time, schedule_time"),
    (_F, "self.dt = schedule_time - self.time"),
]
REQUIRED = {
    "traces": 100, "steps_accepted": 1000, "steps_failed": 200,
    "iter_branch_relax": 100, "iter_branch_restrict": 100, "iter_branch_keep": 100,
    "failure_clock_restored": 100, "failure_raised_budget_exhausted": 5,
    "failure_raised_dt_at_dt_min": 5, "failure_after_about_to_hit_schedule": 20,
    "scheduled_times_hit": 500, "landed_by_shortened_dt": 100,
    "correction_clock_on_scheduled_time": 50, "dt_below_dt_min_lands_on_schedule": 5,
    "enum_traces": 1000,
}
ASSUMPTIONS = [
    "the driver reproduces the call protocol of run_time_dependent_model + "
    "SolutionStrategy.after_nonlinear_convergence/after_nonlinear_failure",
    "'hit' means np.isclose(accepted_time, scheduled_time, rtol, atol) with the manager's "
    "own tolerances; scheduled intervals are >= 1e4 x that tolerance",
    "the clock after a failed step may differ from the last accepted time by round-off of "
    "(t + dt) - dt: compared with 1e-12 * max(|t|, dt)",
    "the initial step fits in the first scheduled interval (precondition of the statement)",
]
LEVEL_TEXT = ("Online trace checker over the real TimeManager driven through the time "
              "loop's call protocol by scripted convergence/failure sequences; each clause "
              "of the statement is decided after every step on the public clock state. "
              "All scripts of length <= 6 (thorough: 8) over {fast, optimal, slow, fail} are enumerated "
              "for 8 fixed configurations; the rest is a seeded sample.")
TECHNIQUE = "runtime monitoring: online bad-prefix trace checker with fault-injected failure scripts"

FAIL = -1
CLOCK_TOL = 1e-12
KNOWN_OVERSHOOT = "overshoot-after-landing-on-scheduled-time"

SQ2 = math.sqrt(2.0)

# ------------------------------------------------------------------ fixed configurations
# (exhaustively enumerated scripts); "sym" maps fast/optimal/slow to iteration counts
ENUM_CONFIGS = [
    dict(schedule=[0, 1, 1.5], dt_init=1, dt_min_max=[0.1, 1], iter_max=10,
         iter_optimal_range=[4, 7], iter_relax_factors=[0.7, 1.3], recomp_factor=0.5,
         recomp_max=3),
    dict(schedule=[0, 1, 1.05], dt_init=0.5, dt_min_max=[0.05, 0.5], iter_max=10,
         iter_optimal_range=[4, 7], iter_relax_factors=[0.7, 1.3], recomp_factor=0.5,
         recomp_max=2),
    dict(schedule=[0, 1, 2, 3], dt_init=1, dt_min_max=[0.1, 1], iter_max=10,
         iter_optimal_range=[4, 7], iter_relax_factors=[0.7, 1.3], recomp_factor=0.5,
         recomp_max=10),
    dict(schedule=[10, 11, 15, 16, 19, 20], dt_init=1, dt_min_max=[0.25, 4], iter_max=15,
         iter_optimal_range=[4, 7], iter_relax_factors=[0.5, 2.0], recomp_factor=0.5,
         recomp_max=3),
    dict(schedule=[0, 0.3, 1.0], dt_init=0.3, dt_min_max=[0.05, 0.6], iter_max=12,
         iter_optimal_range=[3, 6], iter_relax_factors=[0.7, 1.3], recomp_factor=0.5,
         recomp_max=2),
    dict(schedule=[2.5, 3.5, 3.75, 6.0], dt_init=0.5, dt_min_max=[0.125, 2], iter_max=10,
         iter_optimal_range=[4, 7], iter_relax_factors=[0.5, 2.0], recomp_factor=0.5,
         recomp_max=3),
    dict(schedule=[0, SQ2, math.pi], dt_init=SQ2 / 3, dt_min_max=[0.1, 1.5], iter_max=10,
         iter_optimal_range=[2, 5], iter_relax_factors=[0.8, 1.25], recomp_factor=0.3,
         recomp_max=2),
    dict(schedule=[9, 9.5, 10], dt_init=0.25, dt_min_max=None, iter_max=15,
         iter_optimal_range=[4, 7], iter_relax_factors=[0.7, 1.3], recomp_factor=0.5,
         recomp_max=4),
]
ENUM_DEPTH = {"quick": 6, "thorough": 8}


def _symbols(cfg):
    lo, up = cfg["iter_optimal_range"]
    mid = (lo + up) // 2
    assert lo < mid < up
    return [lo, mid, up, FAIL]          # fast, optimal, slow, fail


# ------------------------------------------------------------------ recording wrapper
_INSTALLED = False


def _install():
    """Recording wrapper on the real schedule correction (class attribute and alias scan:
    the method is only reachable through the class)."""
    global _INSTALLED
    if _INSTALLED:
        return
    import porepy as pp
    TM = pp.TimeManager
    orig = getattr(TM, "_correction_based_on_schedule", None)
    if orig is not None and not getattr(orig, "_pvm_wrapped", False):
        def recording(self, *a, **k):
            entry = (self.time, self.dt, getattr(self, "_scheduled_idx", None))
            res = orig(self, *a, **k)
            lst = self.__dict__.get("_pvm_rec")
            if lst is not None:
                lst.append((entry, (self.time, self.dt,
                                    getattr(self, "_scheduled_idx", None),
                                    getattr(self, "_is_about_to_hit_schedule", None))))
            return res
        recording._pvm_wrapped = True
        TM._correction_based_on_schedule = recording
    _INSTALLED = True


def warmup():
    _install()


# ------------------------------------------------------------------ helpers
def _close(a, b, rtol, atol):
    """np.isclose(a, b, rtol, atol) for finite scalars."""
    return abs(a - b) <= atol + rtol * abs(b)


def _make_manager(p):
    import porepy as pp
    kw = dict(schedule=list(p["schedule"]),
              dt_init=p["dt_init"], constant_dt=bool(p.get("constant_dt", False)),
              dt_min_max=None if p.get("dt_min_max") is None else tuple(p["dt_min_max"]),
              iter_max=int(p["iter_max"]),
              iter_optimal_range=tuple(int(v) for v in p["iter_optimal_range"]),
              iter_relax_factors=tuple(float(v) for v in p["iter_relax_factors"]),
              recomp_factor=float(p["recomp_factor"]), recomp_max=int(p["recomp_max"]))
    if p.get("rtol") is not None:
        kw["rtol"] = float(p["rtol"])
    if p.get("atol") is not None:
        kw["atol"] = float(p["atol"])
    return pp.TimeManager(**kw)


class Run:
    """One trace: the real manager + the state of the online checker."""

    __slots__ = ("tm", "sched", "rtol", "atol", "dt_min", "dt_max", "recomp_max",
                 "last", "n_acc", "next_k", "consec_fail", "steps", "fails", "bound",
                 "status", "last_call", "dt_changes", "constant", "opt")

    def __init__(self, tm, budget_extra):
        self.tm = tm
        self.sched = [float(s) for s in np.asarray(tm.schedule).ravel()]
        self.rtol, self.atol = float(tm.rtol), float(tm.atol)
        self.dt_min, self.dt_max = (float(tm.dt_min_max[0]), float(tm.dt_min_max[1]))
        self.recomp_max = int(tm.recomp_max)
        self.constant = bool(tm.is_constant)
        self.opt = (int(tm.iter_optimal_range[0]), int(tm.iter_optimal_range[1]))
        self.last = float(tm.time)        # last accepted time (start counts as accepted)
        self.n_acc = 0
        self.next_k = 1                   # next scheduled time to be hit
        self.consec_fail = 0
        self.steps = 0
        self.fails = 0
        self.dt_changes = 0
        span = self.sched[-1] - self.sched[0]
        dmin = min(self.dt_min, float(tm.dt_init))
        self.bound = int(math.ceil(span / dmin)) + 2 * len(self.sched) + 10 + budget_extra
        self.status = "running"           # running | final | raised | violated
        self.last_call = None             # record of the call that produced current dt

    def fork(self):
        r = copy.copy(self)
        r.tm = copy.copy(self.tm)
        return r

    def hit_any(self, t):
        return any(_close(t, s, self.rtol, self.atol) for s in self.sched[1:])


def _skip_mechanism(run):
    """Name the mechanism of a skipped scheduled time from the recorded correction call
    that produced the step's dt."""
    rec = run.last_call
    if rec is None:
        return "scheduled-time-skipped"
    (t_in, dt_in, idx_in), (t_out, dt_out, idx_out, flag) = rec
    try:
        on_sched = idx_in is not None and 0 <= idx_in < len(run.sched) and _close(
            t_in, run.sched[idx_in], run.rtol, run.atol)
    except Exception:
        on_sched = False
    if on_sched and dt_out == dt_in:
        # the clock sat on the scheduled time the cursor pointed at and the correction
        # returned dt unchanged: dt was never compared with the *next* scheduled time
        return KNOWN_OVERSHOOT
    return "scheduled-time-skipped"


def _violate(run, mon, mech, detail, ctx):
    d = dict(detail)
    d.update(ctx)
    mon.violation(mech, d)
    run.status = "violated"


def step(run, sym, mon, ctx):
    """Advance the real manager by one step of the time loop; sym >= 0: converged with
    that many iterations, FAIL: the nonlinear solver failed.  Returns nothing; updates
    run.status."""
    tm = run.tm
    t0 = float(tm.time)
    dt = float(tm.dt)
    idx0 = int(tm.time_index)
    run.steps += 1
    c = {"step": run.steps, "t_before": t0, "dt_used": dt, "symbol": sym,
         "last_accepted": run.last}
    c.update(ctx)

    # ---- every step size within [dt_min, dt_max] unless shortened to land on schedule
    if not (dt > 0):
        return _violate(run, mon, "nonpositive-dt", {}, c)
    if not run.constant:
        if dt > run.dt_max:
            return _violate(run, mon, "dt-above-dt-max", {"dt_max": run.dt_max}, c)
        if dt < run.dt_min:
            if run.hit_any(t0 + dt):
                mon.count("dt_below_dt_min_lands_on_schedule")
            else:
                return _violate(run, mon, "dt-below-dt-min-without-landing-on-schedule",
                                {"dt_min": run.dt_min}, c)
    lands = run.hit_any(t0 + dt)

    about_before = bool(getattr(tm, "_is_about_to_hit_schedule", False))
    tm.increase_time()
    tm.increase_time_index()
    t1 = float(tm.time)

    if sym != FAIL:
        # ------------------------------------------------------------ converged step
        if not run.constant:
            tm.__dict__["_pvm_rec"] = []
            try:
                ret = tm.compute_time_step(iterations=int(sym))
            except Exception as e:  # noqa: BLE001
                return _violate(run, mon, f"unexpected-exception:{type(e).__name__}"
                                "@compute_time_step(iterations)", {"msg": str(e)[:200]}, c)
            recs = tm.__dict__.pop("_pvm_rec", [])
        else:
            ret, recs = None, []
        mon.count("steps_accepted")
        if lands:
            rec = run.last_call
            mon.count("landed_by_shortened_dt" if rec is not None and rec[1][1] != rec[0][1]
                      else "landed_without_shortening")
        if not (t1 > run.last):
            return _violate(run, mon, "accepted-times-not-increasing", {"t_new": t1}, c)
        if idx0 + 1 != int(tm.time_index):
            return _violate(run, mon, "time-index-not-advanced", {}, c)
        # scheduled times: hit or skipped
        while run.next_k < len(run.sched):
            s = run.sched[run.next_k]
            if _close(t1, s, run.rtol, run.atol):
                mon.count("scheduled_times_hit")
                mon.measure("hit_error_rel", abs(t1 - s) / max(abs(s), 1e-300))
                run.next_k += 1
                break
            if t1 > s:
                mech = _skip_mechanism(run)
                is_final = run.next_k == len(run.sched) - 1
                return _violate(run, mon, mech, {
                    "skipped_scheduled_time": s, "accepted_time": t1,
                    "is_final_time": is_final, "schedule": run.sched}, c)
            break
        run.last = t1
        run.n_acc += 1
        run.consec_fail = 0
        if not run.constant:
            lo, up = run.opt
            mon.count("iter_branch_relax" if sym <= lo else
                      "iter_branch_restrict" if sym >= up else "iter_branch_keep")
            if sym > int(tm.iter_max):
                mon.count("iterations_above_iter_max")
        done = bool(tm.final_time_reached())
        at_final = run.next_k >= len(run.sched)
        if done != at_final:
            return _violate(run, mon, "final-time-reached-disagrees-with-clock",
                            {"final_time_reached": done, "t": t1,
                             "final": run.sched[-1]}, c)
        if done:
            run.status = "final"
            if not run.constant and ret is not None:
                mon.count("compute_time_step_returned_dt_at_final")
        else:
            if recs:
                run.last_call = recs[-1]
                _count_correction(run, recs[-1], mon)
            if float(tm.dt) != dt:
                run.dt_changes += 1
        return None

    # ---------------------------------------------------------------- failed step
    mon.count("steps_failed")
    run.fails += 1
    if about_before:
        mon.count("failure_after_about_to_hit_schedule")
    expected_raise_budget = run.consec_fail >= run.recomp_max
    expected_raise_dtmin = dt == run.dt_min
    tm.__dict__["_pvm_rec"] = []
    raised = None
    try:
        tm.compute_time_step(recompute_solution=True)
    except ValueError as e:
        raised = str(e)
    except Exception as e:  # noqa: BLE001
        return _violate(run, mon, f"unexpected-exception:{type(e).__name__}"
                        "@compute_time_step(recompute)", {"msg": str(e)[:200]}, c)
    recs = tm.__dict__.pop("_pvm_rec", [])
    if raised is not None:
        if expected_raise_budget:
            mon.count("failure_raised_budget_exhausted")
        elif expected_raise_dtmin:
            mon.count("failure_raised_dt_at_dt_min")
        else:
            return _violate(run, mon, "failure-raised-before-recomputation-exhausted",
                            {"msg": raised[:200], "consecutive_failures": run.consec_fail,
                             "recomp_max": run.recomp_max, "dt_min": run.dt_min}, c)
        run.status = "raised"
        return None
    if expected_raise_budget:
        return _violate(run, mon, "failure-not-raised-after-recomputation-budget",
                        {"consecutive_failures": run.consec_fail,
                         "recomp_max": run.recomp_max}, c)
    if expected_raise_dtmin:
        return _violate(run, mon, "failure-not-raised-with-dt-at-dt-min",
                        {"dt_min": run.dt_min}, c)
    run.consec_fail += 1
    t2 = float(tm.time)
    err = abs(t2 - run.last) / max(abs(run.last), dt)
    mon.measure("clock_restore_error_rel", err)
    if err > CLOCK_TOL:
        return _violate(run, mon, "clock-not-restored-after-failure",
                        {"clock": t2, "rel_error": err}, c)
    if int(tm.time_index) != idx0:
        return _violate(run, mon, "time-index-not-restored-after-failure",
                        {"time_index": int(tm.time_index), "expected": idx0}, c)
    mon.count("failure_clock_restored")
    if recs:
        run.last_call = recs[-1]
        _count_correction(run, recs[-1], mon)
    if float(tm.dt) != dt:
        run.dt_changes += 1
    return None


def _count_correction(run, rec, mon):
    (t_in, dt_in, idx_in), (t_out, dt_out, idx_out, flag) = rec
    if idx_in is None or not (0 <= idx_in < len(run.sched)):
        return
    if _close(t_in, run.sched[idx_in], run.rtol, run.atol):
        mon.count("correction_clock_on_scheduled_time")
    elif dt_out != dt_in:
        mon.count("correction_shortened_dt")
    else:
        mon.count("correction_no_change")


def finish(run, tail, mon, ctx, pos=0):
    """Run the convergent tail until the final time is reached."""
    k = pos
    while run.status == "running":
        if run.steps >= run.bound:
            mon.violation("no-termination-within-step-bound",
                          dict(ctx, steps=run.steps, bound=run.bound,
                               t=float(run.tm.time), dt=float(run.tm.dt)))
            run.status = "violated"
            break
        step(run, tail[k % len(tail)], mon, ctx)
        k += 1
    _close_trace(run, mon)


def _close_trace(run, mon):
    mon.count("traces")
    mon.count({"final": "traces_ended_at_final_time", "raised": "traces_ended_by_ValueError",
               "violated": "traces_violated"}.get(run.status, "traces_other"))
    mon.measure("steps_per_trace", run.steps)


# ------------------------------------------------------------------ cases
def floor(tier):
    out = []
    base = dict(iter_max=10, iter_optimal_range=[4, 7], iter_relax_factors=[0.7, 1.3],
                recomp_factor=0.5, recomp_max=10, land_fail=0, start_fail=0, tail=[5])
    # DESIGN section 3 witnesses
    out.append(dict(base, kind="trace", schedule=[0, 1, 1.5], dt_init=1,
                    dt_min_max=[0.1, 1], script=[5, 5]))
    out.append(dict(base, kind="trace", schedule=[0, 1, 1.05], dt_init=0.1,
                    dt_min_max=[0.01, 0.1], script=[]))
    # the repository's own scenarios (tests/numerics/test_time_step_control.py)
    out.append(dict(base, kind="trace", schedule=[0, 1, 2], dt_init=1, dt_min_max=[0.1, 1],
                    script=[5, 5]))
    for scr in ([FAIL, 3, FAIL, 1, 6, 9, 1, 1], [FAIL, FAIL, FAIL], [1, FAIL, 1, 1, 1]):
        out.append(dict(base, kind="trace", schedule=[0, 1.35], dt_init=1,
                        dt_min_max=[0.1, 5], iter_relax_factors=[0.4, 2.0],
                        recomp_factor=0.3, script=scr, tail=[1]))
    out.append(dict(base, kind="trace", schedule=[0, 100], dt_init=2, dt_min_max=None,
                    script=[1, 1, 1, 9, 9, FAIL, FAIL, 5], tail=[5, 1, 9]))
    # budget exhaustion / dt_min, failures around scheduled times
    out.append(dict(base, kind="trace", schedule=[0, 1, 2], dt_init=0.5,
                    dt_min_max=[0.001, 1], recomp_max=3, script=[5, FAIL, FAIL, FAIL, FAIL]))
    out.append(dict(base, kind="trace", schedule=[0, 1, 2], dt_init=0.5,
                    dt_min_max=[0.25, 1], recomp_max=5, script=[5, FAIL, FAIL]))
    out.append(dict(base, kind="trace", schedule=[0, 1, 3, 3.5], dt_init=0.4,
                    dt_min_max=[0.05, 1.5], script=[1, 1], land_fail=4, start_fail=3,
                    tail=[1, 5, 9]))
    out.append(dict(base, kind="trace", schedule=[10, 11, 15, 16, 19, 20], dt_init=1,
                    dt_min_max=[0.3, 3], script=[1, 1, FAIL, 1, 9, FAIL, FAIL, 1],
                    land_fail=2, start_fail=1, tail=[1, 1, 9]))
    out.append(dict(base, kind="trace", schedule=[0, 0.01, 3600, 7200, 360000, 363600],
                    dt_init=0.01, dt_min_max=[0.01, 7200.0], iter_relax_factors=[0.3, 4.0],
                    script=[1] * 6 + [FAIL], tail=[1, 1, 1, 9], land_fail=1))
    # dt shortened below dt_min to land on a scheduled time, then failures
    out.append(dict(base, kind="trace", schedule=[0, 1.05, 2], dt_init=0.5,
                    dt_min_max=[0.4, 0.6], iter_relax_factors=[0.9, 1.1], recomp_max=2,
                    script=[5, 5, FAIL, FAIL, FAIL]))
    out.append(dict(base, kind="trace", schedule=[0, 1.05, 2], dt_init=0.5,
                    dt_min_max=[0.4, 0.6], iter_relax_factors=[0.9, 1.1],
                    script=[5, 5, 5, 5]))
    # constant dt on compatible schedules
    out.append(dict(base, kind="trace", schedule=[0, 1], dt_init=0.1, constant_dt=True,
                    dt_min_max=None, script=[]))
    out.append(dict(base, kind="trace", schedule=[0, 4, 6, 10], dt_init=2, constant_dt=True,
                    dt_min_max=None, script=[]))
    # exhaustive sub-space: one case per (configuration, first two symbols); fixed
    # pseudo-random order so that the expensive sub-trees spread over the workers
    depth = ENUM_DEPTH[tier]
    enum = [{"kind": "enum", "config": ci, "prefix": [a, b], "depth": depth}
            for ci in range(len(ENUM_CONFIGS)) for a in range(4) for b in range(4)]
    perm = np.random.default_rng(909).permutation(len(enum))
    out += [enum[int(j)] for j in perm]
    return out


def _gen_schedule(rng):
    n = int(rng.integers(2, 7))
    start = [0.0, 0.0, float(rng.integers(1, 30)), float(rng.uniform(0.01, 100.0)),
             float(10 ** rng.uniform(3, 6))][int(rng.integers(0, 5))]
    unit = [1.0, 0.25, 0.1, 3600.0, float(10 ** rng.uniform(-2, 3))][int(rng.integers(0, 5))]
    mode = ["lattice", "irrational", "mixed"][int(rng.integers(0, 3))]
    iv = []
    for k in range(n - 1):
        if mode == "lattice":
            v = unit * float(rng.integers(1, 9))
        elif mode == "irrational":
            v = unit * float(rng.uniform(0.2, 8.0))
        else:
            r = rng.random()
            if r < 0.4:
                v = unit * float(rng.uniform(0.02, 0.5))      # short interval
            elif r < 0.7:
                v = unit * float(rng.integers(1, 9))
            else:
                v = unit * float(rng.uniform(0.5, 8.0))
        iv.append(v)
    span = sum(iv)
    # the first interval bounds dt_init and thereby dt_min: keep the trace length bounded
    if iv[0] < span / 60.0:
        iv[0] = span / 60.0
    sched = [start]
    for v in iv:
        sched.append(sched[-1] + v)
    # start large: intervals must stay far above the hit tolerance rtol*|s|
    if min(np.diff(sched)) < 1e-5 * sched[-1]:
        return _gen_schedule(rng)
    return sched


def generate(rng, tier, i):
    if rng.random() < 0.04:
        return _generate_constant(rng)
    sched = _gen_schedule(rng)
    i1 = sched[1] - sched[0]
    span = sched[-1] - sched[0]
    r = rng.random()
    if r < 0.3:
        dt_init = i1
    elif r < 0.55:
        dt_init = i1 / float(rng.integers(2, 11))
    elif r < 0.7:
        dt_init = min(i1, 0.1 * max(1.0, round(i1))) if i1 >= 0.1 else i1
    else:
        dt_init = i1 * float(rng.uniform(0.05, 1.0))
    lo = int(rng.integers(0, 5))
    up = lo + int(rng.integers(0, 5))
    iter_max = up + int(rng.integers(0, 6))
    if iter_max < 1:
        iter_max = 1
    under = float([0.5, 0.7, rng.uniform(0.1, 0.99)][int(rng.integers(0, 3))])
    over = float([2.0, 1.3, rng.uniform(1.01, 5.0)][int(rng.integers(0, 3))])
    recomp_factor = float([0.5, 0.3, rng.uniform(0.05, 0.95)][int(rng.integers(0, 3))])
    recomp_max = int(rng.integers(1, 11)) if rng.random() < 0.5 else int(rng.integers(1, 4))
    dmm = None
    if rng.random() < 0.15:
        # default dt_min_max = (min(dt_init, 0.001 final), 0.1 final)
        final = sched[-1]
        dmin, dmax = min(dt_init, 0.001 * final), 0.1 * final
        ok = (dmin <= dt_init <= dmax and dmin * over <= dmax and dmax * under >= dmin
              and span / dmin <= 2500)
        if not ok:
            dmm = "explicit"
    else:
        dmm = "explicit"
    if dmm == "explicit":
        r = rng.random()
        dmin = dt_init if r < 0.25 else dt_init * float(rng.uniform(0.02, 1.0))
        dmin = max(dmin, span / 600.0)
        if dmin > dt_init:
            dmin = dt_init
        r = rng.random()
        dmax = dt_init if r < 0.25 else dt_init * float(rng.uniform(1.0, 30.0))
        # admissibility of the constructor
        if dmin * over > dmax:
            dmax = dmin * over * float(rng.uniform(1.0, 3.0))
        if dmax * under < dmin:
            dmin = dmax * under * float(rng.uniform(0.3, 1.0))
        if dmax < dt_init:
            dmax = dt_init
        dmm = [dmin, dmax]
    # script
    length = int(rng.integers(0, 13))
    pfail = float(rng.choice([0.1, 0.3, 0.6]))
    script = []
    for k in range(length):
        if rng.random() < pfail:
            script.append(FAIL)
        else:
            script.append(_iter_count(rng, lo, up, iter_max))
    tail_len = int(rng.integers(1, 5))
    tail = [_iter_count(rng, lo, up, iter_max) for _ in range(tail_len)]
    case = {
        "kind": "trace", "schedule": sched, "dt_init": dt_init, "dt_min_max": dmm,
        "iter_max": iter_max, "iter_optimal_range": [lo, up],
        "iter_relax_factors": [under, over], "recomp_factor": recomp_factor,
        "recomp_max": recomp_max, "script": script, "tail": tail,
        "land_fail": int(rng.integers(0, 5)) if rng.random() < 0.5 else 0,
        "start_fail": int(rng.integers(0, 5)) if rng.random() < 0.4 else 0,
    }
    r = rng.random()
    if r < 0.15:
        case["rtol"], case["atol"] = 1e-8, 1e-12
    elif r < 0.25:
        case["rtol"], case["atol"] = 1e-12, 1e-16
    return case


def _iter_count(rng, lo, up, iter_max):
    r = rng.random()
    if r < 0.33:
        return int(rng.integers(0, lo + 1))
    if r < 0.63 and up - lo >= 2:
        return int(rng.integers(lo + 1, up))
    if r < 0.95:
        return int(rng.integers(up, iter_max + 1))
    return iter_max + int(rng.integers(1, 4))


def _generate_constant(rng):
    dt = float([1.0, 0.1, 0.25, 2.0, rng.uniform(0.05, 3.0)][int(rng.integers(0, 5))])
    start = float([0.0, 0.0, 3.0, 7.5][int(rng.integers(0, 4))])
    start = dt * round(start / dt)
    n = int(rng.integers(2, 7))
    ks = np.cumsum(rng.integers(1, 12, size=n - 1))
    sched = [start] + [start + dt * float(k) for k in ks]
    return {"kind": "trace", "schedule": sched, "dt_init": dt, "constant_dt": True,
            "dt_min_max": None, "iter_max": 10, "iter_optimal_range": [4, 7],
            "iter_relax_factors": [0.7, 1.3], "recomp_factor": 0.5, "recomp_max": 10,
            "script": [], "tail": [5], "land_fail": 0, "start_fail": 0}


# ------------------------------------------------------------------ check
def check(case, mon):
    _install()
    if case["kind"] == "enum":
        return _check_enum(case, mon)
    return _check_trace(case, mon)


def _check_trace(case, mon):
    try:
        tm = _make_manager(case)
    except ValueError as e:
        mon.excluded("constructor rejected the parameters: " + str(e)[:60])
        mon.klass("rejected-by-constructor")
        return
    sched = [float(s) for s in case["schedule"]]
    if float(case["dt_init"]) > (sched[1] - sched[0]) * (1 + 1e-12):
        mon.excluded("dt_init does not fit in the first scheduled interval")
        return
    script = [int(s) for s in case.get("script", [])]
    tail = [int(s) for s in case.get("tail", [5])] or [5]
    land_fail = int(case.get("land_fail", 0))
    start_fail = int(case.get("start_fail", 0))
    run = Run(tm, len(script) + land_fail + start_fail)
    ctx = {}
    if run.constant:
        script = [s for s in script if s != FAIL]
        land_fail = start_fail = 0
        mon.klass("constant-dt")
    k = 0
    while run.status == "running":
        if run.steps >= run.bound:
            mon.violation("no-termination-within-step-bound",
                          {"steps": run.steps, "bound": run.bound, "t": float(tm.time),
                           "dt": float(tm.dt)})
            run.status = "violated"
            break
        t, dt = float(tm.time), float(tm.dt)
        if land_fail > 0 and run.hit_any(t + dt):
            land_fail -= 1
            sym = FAIL
            mon.count("injected_failure_on_landing_step")
        elif start_fail > 0 and any(_close(t, s, run.rtol, run.atol) for s in sched[:-1]):
            start_fail -= 1
            sym = FAIL
            mon.count("injected_failure_on_step_starting_at_scheduled_time")
        elif k < len(script):
            sym = script[k]
            k += 1
        else:
            sym = tail[(k - len(script)) % len(tail)]
            k += 1
        step(run, sym, mon, ctx)
    _close_trace(run, mon)
    mon.klass(f"n_sched={len(sched)}")
    mon.klass("ended:" + run.status)
    if case.get("dt_min_max") is None and not run.constant:
        mon.klass("default-dt_min_max")
    mon.nontrivial(run.steps >= 3 and (run.fails >= 1 or run.dt_changes >= 1
                                       or len(sched) >= 3))


def _check_enum(case, mon):
    cfg = dict(ENUM_CONFIGS[int(case["config"])])
    syms = _symbols(cfg)
    depth = int(case["depth"])
    first = [int(j) for j in case["prefix"]]
    tm = _make_manager(cfg)
    root = Run(tm, depth)
    tail = [syms[1], syms[0]]
    mon.klass(f"enum-config-{case['config']}")
    n_traces = 0
    n_nodes = 0
    # prefix tree, depth-first; entries: (run before the step, script prefix INCLUDING the
    # symbol to apply).  The first symbols are fixed by the case.
    stack = [(root, first[:1])]
    while stack:
        run, prefix = stack.pop()
        ctx = {"config": int(case["config"]), "script": [syms[j] for j in prefix]}
        step(run, syms[prefix[-1]], mon, ctx)
        n_nodes += 1
        if run.status != "running":
            # a trace that ends inside the fixed prefix is counted by the case whose
            # prefix continues with symbol 0 only (no duplicates across cases)
            if len(prefix) >= len(first) or all(j == 0 for j in first[len(prefix):]):
                _close_trace(run, mon)
                n_traces += 1
            continue
        if len(prefix) >= depth:
            finish(run, tail, mon, ctx)
            n_traces += 1
            continue
        if len(prefix) < len(first):
            stack.append((run, first[:len(prefix) + 1]))
            continue
        for j in (3, 2, 1):
            stack.append((run.fork(), prefix + [j]))
        stack.append((run, prefix + [0]))
    mon.count("enum_traces", n_traces)
    mon.count("enum_tree_nodes", n_nodes)
    mon.nontrivial(True)
