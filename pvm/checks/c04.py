"""C04 Flow and energy models conserve mass and energy discretely.

Monitor: a shipped flow / energy model (unmodified physics; the harness only supplies the
geometry and Neumann-zero boundary-condition *types* through the documented override
points, no sources) is put into an arbitrary, unconverged state including random
interface fluxes.  The residual vector of ``mass_balance_equation`` (and
``energy_balance_equation``) and the accumulated quantity ``fluid_mass`` (resp.
``volume_integral(total_internal_energy)``) now and at ``previous_timestep()`` are read
through ``EquationSystem.evaluate``.  Oracle (closed form):

    sum_cells residual == (sum acc(x) - sum acc(prev)) / dt                    (global)
    sum_{cells of sd} residual - d/dt acc_sd == sum_{intf below sd} F_intf
                                               - sum_{intf above sd} F_intf    (per sd)

with F_intf the total interface flux through the mortar cells.  Both are evaluated (a)
with the stored upwind directions (from a different, earlier state) and (b) after
``set_variable_values`` + ``update_derived_quantities()`` (re-upwinding at the state).
"""
from __future__ import annotations

import numpy as np

import porepy as pp

from pvm.gen import c03_models as cm
from pvm.gen import mdg as gm

PROP = "C04"
N = {"quick": 14, "thorough": 400}
WORKERS = {"quick": 4, "thorough": 16}
TIMEOUT = {"quick": 400, "thorough": 3000}
CASE_TIMEOUT = 300.0
RULE = ("case = flow model {SinglePhaseFlow, MassAndEnergyBalance; Poromechanics and "
        "Thermoporomechanics as coupled variants} with Neumann-zero conditions on every "
        "external boundary and no sources x geometry {library 2-D/3-D geometries with "
        "0-3 (intersecting) fractures, generated md-grid recipes incl. X/T/L "
        "intersections with 0-d subdomains and boundary-touching fractures} x "
        "{Cartesian, simplex} x {incompressible defaults, random O(1) constants with "
        "compressible fluid, thermal expansion, random porosity / residual aperture} x "
        "random dt, 2 (quick) / 3 (thorough) states; a state = random stored previous "
        "time step, random stored iterate (defines the stored upwind directions), and a "
        "different random current state of ALL variables including the interface fluxes, "
        "amplitude 0.05..1; non-trivial = at least one interface or at least 4 cells, "
        "with sum|residual| > 0; distinct = config + seeds hash")
REACH = [
    ("models/abstract_equations.py", "BalanceEquation.balance_equation"),
    ("models/fluid_mass_balance.py", "FluidMassBalanceEquations.fluid_source"),
    ("models/fluid_mass_balance.py", "FluidMassBalanceEquations.fluid_mass"),
    ("models/fluid_mass_balance.py", "FluidMassBalanceEquations.interface_fluid_flux"),
    ("models/energy_balance.py", "TotalEnergyBalanceEquations.energy_source"),
    ("models/energy_balance.py", "TotalEnergyBalanceEquations.total_internal_energy"),
    ("models/constitutive_laws.py", "AdvectiveFlux.advective_flux"),
    ("models/constitutive_laws.py", "AdvectiveFlux.interface_advective_flux"),
    ("numerics/ad/grid_operators.py", "MortarProjections.mortar_to_secondary_int"),
    ("numerics/ad/grid_operators.py", "MortarProjections.mortar_to_primary_int"),
]
REQUIRED = {
    "states_checked": 30, "mass_global_identities": 60, "energy_global_identities": 20,
    "subdomain_balances": 200, "interfaces_with_flux": 40,
    "configs_with_interfaces": 8, "configs_with_0d_subdomain": 2,
    "reupwind_evaluations": 30, "upwind_direction_changes_seen": 1,
    "closed_boundary_faces_verified": 100,
}
ASSUMPTIONS = [
    "closed system: the harness overrides only bc_type_darcy_flux / bc_type_fluid_flux / "
    "bc_type_fourier_flux / bc_type_enthalpy_flux (all Neumann, default zero values); "
    "the stored BC objects are read back and verified before any identity is asserted",
    "no wells (codimension-2 interfaces are outside the statement)",
    "matching mortar grids (integrated projections conserve sums exactly)",
]
LEVEL_TEXT = ("On every sampled fractured geometry and arbitrary state (random interface "
              "fluxes, stale and fresh upwind directions) the cell sum of the mass / "
              "energy balance residuals equalled the rate of change of the accumulated "
              "quantity, globally and per subdomain against the mortar fluxes, to 1e-10.")
TECHNIQUE = "evaluated residual sums vs accumulation difference; per-subdomain mortar flux balance"

TOL = 1e-10
MODELS = ("spf", "meb", "poro", "thm")


def warmup():
    cfg = {"model": "meb", "geom": {"kind": "lib2d", "fracs": [0], "cartesian": True},
           "consts": None, "dt": 1.0, "closed": True}
    m = cm.build(cfg)
    m.before_nonlinear_loop()
    m.equation_system.assemble(evaluate_jacobian=False)


def _states(seed0, n):
    return [int(seed0 + 104729 * k) for k in range(n)]


def floor(tier):
    ns = 2 if tier == "quick" else 3
    out = []
    k = 0

    def add(model, geom, consts_seed, dt):
        nonlocal k
        consts = None
        if consts_seed is not None:
            consts = cm.random_constants(np.random.default_rng(consts_seed), model)
        out.append({"cfg": {"model": model, "geom": geom, "consts": consts, "dt": dt,
                            "closed": True}, "states": _states(5000 + k, ns)})
        k += 1

    for model in ("spf", "meb"):
        add(model, {"kind": "recipe", "recipe": gm.FLOOR_2D[0]}, None, 1.0)   # no fracture
        add(model, {"kind": "recipe", "recipe": gm.FLOOR_2D[2]}, 11, 0.5)     # X, 0-d
        add(model, {"kind": "recipe", "recipe": gm.FLOOR_2D[3]}, None, 2.0)   # T
        add(model, {"kind": "recipe", "recipe": gm.FLOOR_2D[5]}, 12, 0.3)     # boundary
        add(model, {"kind": "recipe", "recipe": gm.FLOOR_2D[8]}, 13, 1.5)     # simplex X
        add(model, {"kind": "lib2d", "fracs": [0, 1, 2], "cartesian": False}, None, 1.0)
        add(model, {"kind": "lib3d", "fracs": [0, 1, 2] if model == "spf" else [0, 1],
                    "cartesian": True}, 14, 0.7)
        # non-matching interfaces: fracture and mortar grids refined independently
        add(model, {"kind": "nonmatching2d", "fracs": [0], "frac_ratio": 2, "intf_ratio": 3},
            18, 1.0)
        add(model, {"kind": "nonmatching2d", "fracs": [0, 1], "frac_ratio": 3, "intf_ratio": 2,
                    "h": 0.5}, None, 0.8)
    add("spf", {"kind": "lib3d", "fracs": [0], "cartesian": False, "h": 1.0}, 15, 1.0)
    add("poro", {"kind": "lib2d", "fracs": [0, 1], "cartesian": True}, 16, 1.0)
    add("thm", {"kind": "lib2d", "fracs": [0, 1], "cartesian": True}, 17, 0.5)
    return out


def _random_geometry(rng, name, tier):
    u = rng.random()
    mech = name in cm.HAS_MECH
    if u < 0.08 and not mech:
        fr = [[0], [1], [0, 1]][int(rng.integers(3))]
        return {"kind": "nonmatching2d", "fracs": fr, "frac_ratio": int(rng.integers(1, 4)),
                "intf_ratio": int(rng.integers(1, 4)), "h": float(rng.choice([0.25, 0.5]))}
    if u < 0.2:
        cart = bool(rng.random() < 0.5)
        pool = [0, 1] if cart else [0, 1, 2]
        nf = min(int(rng.integers(0, 4)), len(pool))
        fr = sorted(int(i) for i in rng.choice(pool, size=nf, replace=False))
        return {"kind": "lib2d", "fracs": fr, "cartesian": cart}
    if u < 0.4:
        # 3-D: building many subdomains dominates the cost -> fewer fractures in quick
        cap = 3 if tier == "thorough" else (1 if mech else 2)
        if rng.random() < 0.7 or mech:
            nf = min(int(rng.integers(0, 4)), cap)
            fr = sorted(int(i) for i in rng.choice([0, 1, 2], size=nf, replace=False))
            return {"kind": "lib3d", "fracs": fr, "cartesian": True}
        nf = int(rng.integers(0, 3 if tier == "thorough" else 2))
        fr = sorted(int(i) for i in rng.choice([0, 1, 2], size=nf, replace=False))
        return {"kind": "lib3d", "fracs": fr, "cartesian": False, "h": 1.0}
    if u < 0.88:
        for _ in range(50):
            r = gm.random_2d(rng, max_fracs=3)
            if r["mesh"] == "cartesian":
                ncell = r["n"][0] * r["n"][1]
            else:
                ncell = 2.6 * r["domain"][0] * r["domain"][1] / r["h"] ** 2
            if ncell <= (60 if tier == "quick" else 120):
                return {"kind": "recipe", "recipe": r}
        return {"kind": "recipe", "recipe": gm.FLOOR_2D[2]}
    cap = 3 if tier == "thorough" else (1 if mech else 2)
    return {"kind": "recipe", "recipe": gm.random_3d(rng, mesh="cartesian", max_fracs=cap)}


def generate(rng, tier, i):
    u = rng.random()
    name = "spf" if u < 0.4 else "meb" if u < 0.8 else "poro" if u < 0.9 else "thm"
    geom = _random_geometry(rng, name, tier)
    consts = cm.random_constants(rng, name) if rng.random() < 0.7 else None
    dt = float(np.exp(rng.uniform(np.log(0.05), np.log(20.0))))
    ns = 2 if tier == "quick" else 3
    return {"cfg": {"model": name, "geom": geom, "consts": consts, "dt": dt,
                    "closed": True},
            "states": _states(int(rng.integers(1, 2**31 - 10**6)), ns)}


# ------------------------------------------------------------------------- helpers
def _verify_closed(model, mon, name) -> bool:
    """Read back the stored BC objects: every external boundary face must be Neumann."""
    kws = [model.darcy_keyword, model.mobility_keyword]
    if name in cm.HAS_ENERGY:
        kws += [model.fourier_keyword, model.enthalpy_keyword]
    ok = True
    for sd, data in model.mdg.subdomains(return_data=True):
        if sd.dim == 0:
            continue
        bf = sd.get_all_boundary_faces()
        for kw in kws:
            bc = data[pp.PARAMETERS][kw]["bc"]
            if np.any(bc.is_dir[bf]) or np.any(bc.is_rob[bf]):
                ok = False
            mon.count("closed_boundary_faces_verified", bf.size)
    # boundary values (Neumann data) must be zero
    keys = [model.bc_data_darcy_flux_key, model.bc_data_fluid_flux_key]
    if name in cm.HAS_ENERGY:
        keys += [model.bc_data_fourier_flux_key, model.bc_data_enthalpy_flux_key]
    for bg, data in model.mdg.boundaries(return_data=True):
        for store in (pp.ITERATE_SOLUTIONS, pp.TIME_STEP_SOLUTIONS):
            for key, vals in data.get(store, {}).items():
                if key in keys:
                    mon.count("neumann_value_arrays_verified_zero")
                    for v in vals.values():
                        if np.any(np.asarray(v) != 0):
                            ok = False
    return ok


def _admissible(e: Exception) -> bool:
    return isinstance(e, ValueError) and "positive definite" in str(e)


class _Balance:
    """Operators of one balance law of a model."""

    def __init__(self, model, kind):
        self.kind = kind
        sds = model.mdg.subdomains()
        es = model.equation_system
        if kind == "mass":
            self.eq = es.equations["mass_balance_equation"]
            self.acc = model.fluid_mass(sds)
            self.intf_flux = lambda intfs: model.interface_fluid_flux(intfs)
        else:
            self.eq = es.equations["energy_balance_equation"]
            self.acc = model.volume_integral(model.total_internal_energy(sds), sds, dim=1)
            self.intf_flux = lambda intfs: (model.interface_enthalpy_flux(intfs)
                                            + model.interface_fourier_flux(intfs))
        self.acc_prev = self.acc.previous_timestep()
        intfs = model.mdg.interfaces(codim=1)
        self.intfs = intfs
        self.flux_op = self.intf_flux(intfs) if intfs else None


def _evaluate_balance(model, mon, bal, state, tag):
    """Record the events and decide the identities for one balance law."""
    es = model.equation_system
    mdg = model.mdg
    sds = mdg.subdomains()
    dt = float(model.time_manager.dt)
    R = np.asarray(es.evaluate(bal.eq, state=state), dtype=float)
    A = np.asarray(es.evaluate(bal.acc, state=state), dtype=float)
    A0 = np.asarray(es.evaluate(bal.acc_prev, state=state), dtype=float)
    ncell = sum(sd.num_cells for sd in sds)
    if R.shape != (ncell,) or A.shape != (ncell,) or A0.shape != (ncell,):
        mon.violation(f"{bal.kind}-balance-shape", {"R": list(R.shape), "A": list(A.shape),
                                                   "cells": ncell})
        return False
    if not (np.all(np.isfinite(R)) and np.all(np.isfinite(A))):
        mon.excluded("non-finite residual / accumulation at drawn state")
        return False
    scale = float(np.sum(np.abs(R))) + float(np.sum(np.abs(A - A0))) / dt
    if scale == 0.0:
        mon.excluded("all-zero residual (trivial state)")
        return False
    lhs = float(np.sum(R))
    rhs = float(np.sum(A) - np.sum(A0)) / dt
    ok = mon.close(f"{bal.kind}_global_defect", lhs, rhs, TOL,
                   f"{bal.kind}-not-conserved-globally", scale=scale,
                   detail={"tag": tag, "sum_residual": lhs, "rate_of_change": rhs,
                           "model": model._pvm_name})
    mon.count(f"{bal.kind}_global_identities")
    mon.measure(f"{bal.kind}_sum_abs_residual", float(np.sum(np.abs(R))))

    # per subdomain: net outflow == signed sum of mortar fluxes of its interfaces
    F_intf = {}
    if bal.flux_op is not None:
        F = np.asarray(es.evaluate(bal.flux_op, state=state), dtype=float)
        off = 0
        for intf in bal.intfs:
            F_intf[intf] = float(np.sum(F[off:off + intf.num_cells]))
            off += intf.num_cells
            mon.count("interfaces_with_flux")
    off = 0
    for sd in sds:
        sl = slice(off, off + sd.num_cells)
        off += sd.num_cells
        net = float(np.sum(R[sl])) - float(np.sum(A[sl]) - np.sum(A0[sl])) / dt
        want = 0.0
        for intf in mdg.subdomain_to_interfaces(sd):
            if intf.codim != 1:
                continue
            sd_primary, sd_secondary = mdg.interface_to_subdomain_pair(intf)
            if sd_primary is sd:
                want += F_intf[intf]
            if sd_secondary is sd:
                want -= F_intf[intf]
        ok &= mon.close(f"{bal.kind}_subdomain_defect", net, want, TOL,
                        f"{bal.kind}-subdomain-outflow-differs-from-mortar-flux",
                        scale=scale,
                        detail={"tag": tag, "sd_dim": sd.dim, "net_outflow": net,
                                "mortar_flux_sum": want, "model": model._pvm_name})
        mon.count("subdomain_balances")
        mon.count(f"subdomain_balances_dim{sd.dim}")
    return ok


def _stored_upwind_signature(model):
    """Signs of the stored Darcy fluxes that define the upwind directions."""
    sig = []
    for _, d in list(model.mdg.subdomains(return_data=True)) + \
            list(model.mdg.interfaces(return_data=True)):
        par = d.get(pp.PARAMETERS, {})
        kw = model.mobility_keyword
        if kw in par and "darcy_flux" in par[kw]:
            sig.append(np.sign(np.asarray(par[kw]["darcy_flux"], dtype=float)))
    return np.concatenate(sig) if sig else np.empty(0)


def _one_state(model, mon, seed, balances):
    es = model.equation_system
    rng = np.random.default_rng(seed)
    x_init = model._pvm_x_init
    amp = float(np.exp(rng.uniform(np.log(0.05), np.log(1.0))))
    if model._pvm_name in cm.HAS_MECH:
        amp = min(amp, 0.3)
    # stored history: previous time step and (different) previous iterate
    for attempt in range(6):
        x_prev = cm.random_state(model, rng, amp, base=x_init)
        x_iter = cm.random_state(model, rng, amp, base=x_prev)
        es.set_variable_values(x_prev, time_step_index=0)
        es.set_variable_values(x_iter, iterate_index=0)
        try:
            model.before_nonlinear_loop()     # BCs, dt, upwinding at x_iter
            break
        except Exception as e:  # noqa: BLE001
            if _admissible(e):
                mon.excluded("inadmissible stored state (tensor not positive definite): "
                             "amplitude reduced")
                amp *= 0.3
                continue
            raise
    else:
        mon.excluded("no admissible stored state found")
        return False
    if not _verify_closed(model, mon, model._pvm_name):
        mon.inconclusive("harness: external boundary is not closed (BC override "
                         "ineffective)")
        return False
    x = cm.random_state(model, rng, amp, base=x_iter)
    sig_a = _stored_upwind_signature(model)
    ok = True
    # (a) stale upwind directions (discretized at x_iter, evaluated at x)
    for bal in balances:
        ok &= _evaluate_balance(model, mon, bal, x, "stale-upwind")
    # (b) re-upwinding at x
    es.set_variable_values(x, iterate_index=0)
    try:
        model.update_derived_quantities()
    except Exception as e:  # noqa: BLE001
        if _admissible(e):
            mon.excluded("inadmissible state for re-discretization: (b) skipped")
            mon.count("states_checked")
            return ok
        raise
    sig_b = _stored_upwind_signature(model)
    if sig_a.shape == sig_b.shape and np.any(sig_a != sig_b):
        mon.count("upwind_direction_changes_seen")
        mon.count("upwind_faces_changed", int(np.sum(sig_a != sig_b)))
    for bal in balances:
        ok &= _evaluate_balance(model, mon, bal, None, "fresh-upwind")
        mon.count("reupwind_evaluations")
    mon.count("states_checked")
    return ok


def check(case, mon):
    cfg = dict(case["cfg"])
    cfg["closed"] = True
    name = cfg["model"]
    g = cfg["geom"]
    model = cm.build(cfg)
    model._pvm_name = name
    es = model.equation_system
    model._pvm_x_init = es.get_variable_values(iterate_index=0).copy()
    mdg = model.mdg
    if mdg.interfaces(codim=2):
        mon.excluded("wells (codim-2) outside the statement")
        return
    nintf = len(mdg.interfaces(codim=1))
    mesh = ("cartesian" if g.get("cartesian") else "simplex") if g["kind"] != "recipe" \
        else g["recipe"]["mesh"]
    c = cfg.get("consts")
    compressible = bool(c and c.get("fluid", {}).get("compressibility", 0) > 0)
    mon.count("model:" + name)
    mon.count("configs_with_interfaces", int(nintf > 0))
    mon.count("configs_with_0d_subdomain", int(mdg.dim_min() == 0))
    mon.count("configs_compressible", int(compressible))
    mon.count("configs_incompressible", int(not compressible))
    mon.count("cells_total", mdg.num_subdomain_cells())
    mon.count(f"geom:{g['kind']}")
    mon.klass(f"{name}|{mdg.dim_max()}d|{mesh}|intf{min(nintf, 9)}"
              f"|{'compressible' if compressible else 'incompressible'}")
    mon.klass(f"subdomain_dims:{sorted({sd.dim for sd in mdg.subdomains()})}")
    balances = [_Balance(model, "mass")]
    if name in cm.HAS_ENERGY:
        balances.append(_Balance(model, "energy"))
    good = 0
    for seed in case["states"]:
        if _one_state(model, mon, int(seed), balances):
            good += 1
    mon.nontrivial((nintf > 0 or mdg.num_subdomain_cells() >= 4) and good >= 1)
