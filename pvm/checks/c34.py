"""C34 Point-set uniquification and set membership are correct.

Reference-model monitor: ``uniquify_point_set`` (and its wrapper ``fracs.utils.
uniquify_points``) run on generated clustered point sets whose cluster labels are known;
the oracle is the label structure itself (one representative per cluster, the first
occurring member, in order of first occurrence, index maps consistent).
``ismember_columns`` and ``intersect_sets`` are compared with brute-force comparison.
"""
from __future__ import annotations

import numpy as np

PROP = "C34"
N = {"quick": 2500, "thorough": 150000}
WORKERS = {"quick": 4, "thorough": 16}
TIMEOUT = {"quick": 600, "thorough": 3000}
RULE = ("clustered point sets in 1-3 dimensions: 1-8 clusters of 1-5 members, cluster diameter "
        "<= 0.01 tol, separation >= 50 tol, tol in {1e-10 .. 0.1}; cluster norms either random "
        "or spread over a few tol around a common radius (the regime where the norm based "
        "pre-clustering of the implementation has bucket boundaries inside a cluster), members "
        "interleaved in random order; empty, single point, all-equal and integer inputs; "
        "integer column sets with small value range (duplicates, permuted columns, 1-D arrays, "
        "empty sets); float sets whose cross distances are <= 0.01 tol or >= 50 tol; "
        "non-trivial = at least two clusters with one of at least two members / at least one "
        "member and one non-member; distinct = case hash")
REACH = [
    ("utils/array_operations.py", "ismember_columns"),
    ("utils/array_operations.py", "intersect_sets"),
    ("fracs/utils.py", "uniquify_points"),
]
# uniquify_point_set / _unique_points_in_cluster are numba-compiled: no Python frames to
# count, their executions are counted by the monitor (REQUIRED) instead.
REQUIRED = {
    "uniquify_point_set_calls": 100, "uniquify_straddling_regime": 30,
    "uniquify_clusters_with_bucket_boundary_inside": 3,
    "uniquify_points_calls": 20, "ismember_columns_calls": 100, "ismember_sorted": 30,
    "ismember_unsorted": 30, "ismember_1d": 5, "intersect_sets_calls": 50,
    "intersect_pairs_matched": 50,
}
ASSUMPTIONS = [
    "cluster diameter <= 0.01 tol and separation >= 50 tol are verified on the case data by "
    "brute force before the oracle is applied (otherwise the case is inconclusive)",
    "ismember_columns: any index of a matching column of b is accepted (the docstring does "
    "not fix which duplicate is reported)",
    "intersect_sets: no generated cross distance lies in (0.01 tol, 50 tol)",
]
LEVEL_TEXT = ("Representatives, order and index maps of uniquify_point_set agreed with the "
              "generated cluster labels, membership and tolerance intersection agreed with "
              "brute force on all explored sets; exploration only.")
TECHNIQUE = "reference-model monitor (known cluster labels, brute-force set comparison)"


# ------------------------------------------------------------------------- generators
def _unit(rng, nd):
    while True:
        v = rng.normal(size=nd)
        n = np.linalg.norm(v)
        if n > 1e-3:
            return v / n


def _clustered(rng, nd=None, straddle=None):
    nd = nd or int(rng.integers(1, 4))
    tol = float(rng.choice([1e-10, 1e-8, 1e-6, 1e-4, 1e-3, 0.1]))
    K = int(rng.integers(1, 9))
    straddle = bool(rng.random() < 0.6) if straddle is None else straddle
    centres = []
    r0 = tol * float(10.0 ** rng.uniform(3, 6))
    for _ in range(2000):
        if len(centres) == K:
            break
        if straddle:
            r = r0 + tol * float(rng.uniform(-2.5, 2.5))
            # put some radii right at distance ~tol from an existing one
            if centres and rng.random() < 0.5:
                rr = np.linalg.norm(centres[int(rng.integers(0, len(centres)))])
                r = rr + tol * float(rng.choice([-1, 1])) * (1 + float(rng.uniform(-0.004, 0.004)))
            c = r * _unit(rng, nd)
        else:
            c = rng.uniform(-1, 1, size=nd) * r0
        if all(np.linalg.norm(c - o) >= 60 * tol for o in centres):
            centres.append(c)
    pts, labels = [], []
    for k, c in enumerate(centres):
        m = int(rng.integers(1, 6))
        for _ in range(m):
            off = _unit(rng, nd) * float(rng.uniform(0, 0.004)) * tol
            if straddle and rng.random() < 0.7:
                # offsets along the radius move the norm, which is what matters
                off = c / np.linalg.norm(c) * float(rng.uniform(-0.004, 0.004)) * tol
            pts.append(c + off)
            labels.append(k)
    perm = rng.permutation(len(pts))
    P = np.array([pts[int(i)] for i in perm]).T
    L = [labels[int(i)] for i in perm]
    ne = int(rng.integers(0, 7))
    edges = [[int(v) for v in rng.integers(0, len(L), size=ne)],
             [int(v) for v in rng.integers(0, len(L), size=ne)],
             [int(v) for v in rng.integers(0, 9, size=ne)]]
    return {"kind": "uniquify", "tol": tol, "pts": P.tolist(), "labels": L,
            "regime": "straddle" if straddle else "random", "edges": edges}


def floor(tier):
    out = []
    tol = 1e-3
    # witness of DESIGN section 3: third point's cluster straddles first_norm + tol
    out.append({"kind": "uniquify", "tol": tol, "regime": "straddle",
                "pts": [[1.0, 0.0, 0.0], [0.0, 1.0 + 0.999 * tol, 1.0 + 1.001 * tol]],
                "labels": [0, 1, 1], "edges": [[0, 1], [1, 2], [4, 5]]})
    out.append({"kind": "uniquify", "tol": tol, "regime": "straddle",
                "pts": [[1.0, -(1.0 + 1.0005 * tol), -(1.0 + 0.9995 * tol), 1.0 + 2e-6]],
                "labels": [0, 1, 1, 0], "edges": [[0, 0], [3, 1], [1, 2]]})
    out.append({"kind": "uniquify", "tol": 0.1, "regime": "integer",
                "pts": [[5, 1, 5, 1], [1, 5, 1, 5]], "labels": [0, 1, 0, 1],
                "edges": [[0, 1], [2, 3], [0, 0]], "integer": True})
    out.append({"kind": "uniquify", "tol": 1e-8, "regime": "empty", "pts": [[], [], []],
                "labels": [], "edges": [[], [], []]})
    out.append({"kind": "uniquify", "tol": 1e-8, "regime": "single", "pts": [[1.0], [2.0]],
                "labels": [0], "edges": [[0], [0], [1]]})
    out.append({"kind": "uniquify", "tol": 1e-8, "regime": "all-equal",
                "pts": [[0.5] * 5, [-2.0] * 5, [3.0] * 5], "labels": [0] * 5,
                "edges": [[0, 1], [2, 3], [1, 1]]})
    out.append({"kind": "uniquify", "tol": 1e-8, "regime": "all-equal",
                "pts": [[0.0] * 3, [0.0] * 3], "labels": [0] * 3, "edges": [[], [], []]})
    out.append({"kind": "ismember", "a": [[1, 3, 3, 1, 7], [3, 3, 2, 3, 0]],
                "b": [[3, 1, 3, 5, 3], [3, 3, 2, 1, 2]], "sort": True})
    out.append({"kind": "ismember", "a": [[1, 3, 3, 1, 7], [3, 3, 2, 3, 0]],
                "b": [[3, 1, 2, 5, 1], [3, 3, 3, 1, 2]], "sort": False})
    out.append({"kind": "ismember", "a": [[1, 3, 3, 1, 7], [3, 3, 2, 3, 0]],
                "b": [[3, 1, 2, 5, 1], [3, 3, 3, 1, 2]], "sort": True})
    out.append({"kind": "ismember", "a": [1, 2, 3], "b": [3, 3, 1], "sort": True})
    # negative entries: columns that collide under a naive positional encoding
    out.append({"kind": "ismember", "a": [[-1, 3, 0, 2], [1, 0, -2, -1]],
                "b": [[3, -1, 1, 0], [0, 1, -1, -2]], "sort": False})
    out.append({"kind": "ismember", "a": [[-1, 3, -3, 2], [1, 0, 2, -1]],
                "b": [[3, 2, 0, -3], [0, -1, 1, 2]], "sort": True})
    out.append({"kind": "ismember", "a": [[], []], "b": [[1, 2], [3, 4]], "sort": True})
    out.append({"kind": "ismember", "a": [[1, 2], [3, 4]], "b": [[], []], "sort": False})
    out.append({"kind": "intersect", "tol": 1e-10,
                "a": [[1.0, 2.0], [3.0, 4.0]], "b": [[7.0, 8.0, 2.0], [3.0, 4.0, 4.0]]})
    out.append({"kind": "intersect", "tol": 1e-3, "a": [1.0, 2.0, 3.0], "b": [3.0, 3.000001, 1.0]})
    out.append({"kind": "intersect", "tol": 1e-10, "a": [[1.0, 2.0], [3.0, 4.0]],
                "b": [[7.0, 8.0], [3.0, 4.0]]})
    out.append({"kind": "intersect", "tol": 1e-10, "a": [[], []], "b": [[7.0, 8.0], [3.0, 4.0]]})
    return out


def generate(rng, tier, i):
    kind = str(rng.choice(["uniquify", "ismember", "intersect"], p=[0.55, 0.25, 0.2]))
    if kind == "uniquify":
        if rng.random() < 0.08:
            nd = int(rng.integers(1, 4))
            n = int(rng.integers(1, 12))
            P = rng.integers(-2, 3, size=(nd, n))
            cols = {}
            L = []
            for c in P.T:
                L.append(cols.setdefault(tuple(int(x) for x in c), len(cols)))
            return {"kind": kind, "tol": float(rng.choice([0.1, 0.4, 1e-6])), "pts": P.tolist(),
                    "labels": L, "regime": "integer", "integer": bool(rng.random() < 0.5),
                    "edges": [[int(v) for v in rng.integers(0, n, size=3)],
                              [int(v) for v in rng.integers(0, n, size=3)], [1, 2, 3]]}
        return _clustered(rng)
    if kind == "ismember":
        one_d = bool(rng.random() < 0.12)
        hi = int(rng.choice([2, 3, 6, 50]))
        # value range: non-negative, symmetric about zero, or far from zero (positional
        # encodings of integer columns break on negative / large entries)
        lo = int(rng.choice([0, 0, -hi, -hi, 10**6, -10**6 - hi]))
        hi = lo + hi if lo > 0 or lo < -hi else hi
        na, nb = int(rng.integers(0, 10)), int(rng.integers(0, 10))
        if one_d:
            return {"kind": kind, "a": [int(v) for v in rng.integers(lo, hi, size=max(na, 1))],
                    "b": [int(v) for v in rng.integers(lo, hi, size=max(nb, 1))],
                    "sort": bool(rng.random() < 0.5)}
        nd = int(rng.integers(1, 4))
        a = rng.integers(lo, hi, size=(nd, na))
        b = rng.integers(lo, hi, size=(nd, nb))
        # plant permuted and identical copies
        for _ in range(int(rng.integers(0, 4))):
            if na and nb:
                col = a[:, int(rng.integers(0, na))].copy()
                if rng.random() < 0.5:
                    col = rng.permutation(col)
                b[:, int(rng.integers(0, nb))] = col
        return {"kind": kind, "a": a.tolist(), "b": b.tolist(), "sort": bool(rng.random() < 0.5)}
    # intersect
    nd = int(rng.integers(1, 4))
    tol = float(rng.choice([1e-10, 1e-8, 1e-5, 1e-2]))
    scale = tol * float(10.0 ** rng.uniform(3, 6))
    na, nb = int(rng.integers(1, 9)), int(rng.integers(0, 9))
    cand = []
    for _ in range(2000):
        if len(cand) == na + nb:
            break
        c = rng.uniform(-1, 1, size=nd) * scale
        if all(np.linalg.norm(c - o) >= 60 * tol for o in cand):
            cand.append(c)
    a = cand[:na]
    b = cand[na:]
    extra = []
    for _ in range(int(rng.integers(0, 6))):
        src = a[int(rng.integers(0, len(a)))]
        extra.append(src + _unit(rng, nd) * float(rng.uniform(0, 0.004)) * tol)
    b = b + extra
    if b:
        b = [b[int(i)] for i in rng.permutation(len(b))]
    A = np.array(a).T.reshape(nd, len(a))
    B = np.array(b).T.reshape(nd, len(b)) if b else np.zeros((nd, 0))
    if nd == 1 and rng.random() < 0.5:
        return {"kind": kind, "tol": tol, "a": A[0].tolist(), "b": B[0].tolist()}
    return {"kind": kind, "tol": tol, "a": A.tolist(), "b": B.tolist()}


def warmup():
    """numba compilation of uniquify_point_set (float and int signatures) outside case timing."""
    import porepy as pp
    pp.array_operations.uniquify_point_set(np.array([[0.0, 1.0], [0.0, 1.0]]), 1e-8)
    pp.array_operations.uniquify_point_set(np.array([[0, 1], [0, 1]]), 0.1)


# ------------------------------------------------------------------------------- check
def check(case, mon):
    kind = case["kind"]
    mon.klass(kind)
    globals()["_check_" + kind](case, mon)


def _expected(labels):
    first = {}
    for i, l in enumerate(labels):
        first.setdefault(l, i)
    order = sorted(first, key=lambda l: first[l])
    rank = {l: r for r, l in enumerate(order)}
    new_2_old = [first[l] for l in order]
    old_2_new = [rank[l] for l in labels]
    return new_2_old, old_2_new


def _check_uniquify(case, mon):
    import porepy as pp
    tol = float(case["tol"])
    labels = [int(x) for x in case["labels"]]
    n = len(labels)
    P = np.array(case["pts"], dtype=int if case.get("integer") else float)
    if P.ndim != 2:
        P = P.reshape(len(case["pts"]), n)
    nd = P.shape[0]
    regime = case.get("regime", "?")
    mon.klass("uniquify:" + regime)
    Pf = P.astype(float)
    # verify the generator's promise on the data of the case
    if n:
        D = np.linalg.norm(Pf[:, :, None] - Pf[:, None, :], axis=0)
        same = np.equal.outer(labels, labels)
        if regime == "integer":
            okgen = np.all(D[same] == 0) and (np.all(D[~same] >= 1) if (~same).any() else True) \
                and tol < 0.5
        else:
            okgen = np.all(D[same] <= 0.0101 * tol) and \
                (np.all(D[~same] >= 50 * tol) if (~same).any() else True)
        if not okgen:
            mon.inconclusive("generated set violates diameter / separation promise")
            return
    K = len(set(labels))
    sizes = np.bincount(labels) if n else np.array([])
    mon.nontrivial(K >= 2 and sizes.max() >= 2)
    want_n2o, want_o2n = _expected(labels)
    straddlers = set()
    # does the (first-norm anchored) bucket boundary of the implementation fall inside a
    # generated cluster?  Pure observation of the regime, computed from the norms only.
    if n and regime != "integer":
        norms = np.sqrt(np.sum(Pf ** 2, axis=0))
        srt = np.argsort(norms)
        bucket = np.zeros(n, dtype=int)
        anchor = norms[srt[0]]
        bidx = 0
        for j in srt:
            if abs(anchor - norms[j]) > tol:
                bidx += 1
                anchor = norms[j]
            bucket[j] = bidx
        straddlers = {l for l in set(labels)
                      if len({int(bucket[i]) for i in range(n) if labels[i] == l}) > 1}
        split = len(straddlers)
        if split:
            mon.count("uniquify_clusters_with_bucket_boundary_inside", split)
        spread = (norms.max() - norms.min()) / tol
        mon.measure("uniquify_norm_spread_in_tol", spread)
        if spread < 12 and K >= 2:
            mon.count("uniquify_straddling_regime")
    inp = P.copy()
    U, n2o, o2n = pp.array_operations.uniquify_point_set(inp, tol)
    mon.count("uniquify_point_set_calls")
    mon.count("uniquify_points_in", n)
    U, n2o, o2n = np.asarray(U), np.asarray(n2o), np.asarray(o2n)
    d = {"tol": tol, "pts": case["pts"], "labels": labels, "new_2_old": n2o.tolist(),
         "old_2_new": o2n.tolist()}
    if not np.array_equal(inp, P):
        mon.violation("uniquify_point_set:input-mutated", d)
    ok = True
    if U.shape != (nd, len(n2o)) or o2n.shape != (n,):
        mon.violation("uniquify_point_set:inconsistent-shapes", {**d, "U": list(U.shape)})
        return
    # internal consistency of the maps (independent of the expected clustering)
    if n and (not np.array_equal(U, P[:, n2o]) or (o2n.min() < 0) or (o2n.max() >= len(n2o))):
        mon.violation("uniquify_point_set:maps-inconsistent-with-returned-points", d)
        ok = False
    if len(n2o) != K:
        by_label = {}
        for i, l in enumerate(labels):
            by_label.setdefault(l, set()).add(int(o2n[i]))
        broken = {l for l, v in by_label.items() if len(v) > 1}
        if len(n2o) > K and broken and broken <= straddlers:
            # exactly the clusters whose members' norms lie on both sides of
            # (smallest norm of the norm-cluster) + tol got more than one representative
            mon.violation("uniquify_point_set:cluster-split-by-norm-bucket-boundary",
                          {**d, "expected_unique": K, "got_unique": int(len(n2o))})
        elif len(n2o) > K and broken:
            mon.violation("uniquify_point_set:cluster-members-not-merged",
                          {**d, "expected_unique": K, "got_unique": int(len(n2o))})
        else:
            mon.violation("uniquify_point_set:wrong-number-of-representatives",
                          {**d, "expected_unique": K, "got_unique": int(len(n2o))})
        return
    if n2o.tolist() != want_n2o:
        mon.violation("uniquify_point_set:representative-not-first-member-in-first-occurrence-order",
                      {**d, "want_new_2_old": want_n2o})
        ok = False
    if o2n.tolist() != want_o2n:
        mon.violation("uniquify_point_set:old_2_new-does-not-link-points-to-their-cluster",
                      {**d, "want_old_2_new": want_o2n})
        ok = False
    if not ok:
        return
    # wrapper used by the fracture code
    E = np.array(case.get("edges", [[], [], []]), dtype=int)
    if E.ndim == 2 and E.shape[1] > 0 and n > 0 and not case.get("integer"):
        from porepy.fracs import utils as fu
        pu, eu, deleted = fu.uniquify_points(P.copy(), E.copy(), tol)
        mon.count("uniquify_points_calls")
        lab_e = np.array(want_o2n)[E[:2]]
        point_edge = np.flatnonzero(lab_e[0] == lab_e[1])
        keep = np.setdiff1d(np.arange(E.shape[1]), point_edge)
        want_e = np.vstack([lab_e[:, keep], E[2:, keep]])
        if not (np.array_equal(pu, U) and np.array_equal(np.asarray(eu), want_e)
                and np.array_equal(np.asarray(deleted).ravel(), point_edge)):
            mon.violation("uniquify_points:edges-not-updated-consistently",
                          {**d, "edges": case["edges"], "got_edges": np.asarray(eu).tolist(),
                           "deleted": np.asarray(deleted).tolist()})


def _check_ismember(case, mon):
    import porepy as pp
    a = np.array(case["a"], dtype=int)
    b = np.array(case["b"], dtype=int)
    sort = bool(case["sort"])
    one_d = a.ndim == 1
    if not one_d:
        nd = len(case["a"])
        a = a.reshape(nd, -1)
        b = b.reshape(nd, -1)
    a0, b0 = a.copy(), b.copy()
    ismem, ia = pp.array_operations.ismember_columns(a, b, sort)
    mon.count("ismember_columns_calls")
    mon.count("ismember_1d" if one_d else ("ismember_sorted" if sort else "ismember_unsorted"))
    ismem, ia = np.asarray(ismem), np.asarray(ia)
    d = {"a": case["a"], "b": case["b"], "sort": sort, "ismem": ismem.tolist(),
         "ia": ia.tolist()}
    if not (np.array_equal(a, a0) and np.array_equal(b, b0)):
        mon.violation("ismember_columns:input-mutated", d)
    A = a.reshape(1, -1) if one_d else a
    B = b.reshape(1, -1) if one_d else b
    if sort and not one_d:
        A, B = np.sort(A, axis=0), np.sort(B, axis=0)
    na, nb = A.shape[1], B.shape[1]
    want = np.array([any(np.array_equal(A[:, i], B[:, j]) for j in range(nb))
                     for i in range(na)], dtype=bool)
    mon.count("ismember_columns_compared", na)
    mon.nontrivial(bool(want.any() and (~want).any()))
    if ismem.shape != (na,) or not np.array_equal(ismem.astype(bool), want):
        mon.violation("ismember_columns:membership-differs-from-brute-force",
                      {**d, "want": want.tolist()})
        return
    if ia.shape != (int(want.sum()),):
        mon.violation("ismember_columns:index-array-length", d)
        return
    mem = np.flatnonzero(want)
    for k, i in enumerate(mem):
        j = int(ia[k])
        if not (0 <= j < nb) or not np.array_equal(A[:, i], B[:, j]):
            mon.violation("ismember_columns:index-points-to-a-different-column",
                          {**d, "a_col": int(i), "b_col": j})
            return


def _check_intersect(case, mon):
    import porepy as pp
    tol = float(case["tol"])
    a = np.array(case["a"], dtype=float)
    b = np.array(case["b"], dtype=float)
    if a.ndim == 2 or (a.ndim == 1 and len(case["a"]) and isinstance(case["a"][0], list)):
        nd = len(case["a"])
        a = a.reshape(nd, -1)
        b = b.reshape(nd, -1)
    A = np.atleast_2d(a)
    B = np.atleast_2d(b)
    na, nb = A.shape[1], B.shape[1]
    D = np.linalg.norm(A[:, :, None] - B[:, None, :], axis=0) if na and nb else np.zeros((na, nb))
    if np.any((D > 0.0101 * tol) & (D < 50 * tol)):
        mon.inconclusive("generated sets have a cross distance inside the excluded band")
        return
    M = D <= tol if na and nb else np.zeros((na, nb), dtype=bool)
    ia, ib, a_in_b, inter = pp.array_operations.intersect_sets(a.copy(), b.copy(), tol)
    mon.count("intersect_sets_calls")
    mon.count("intersect_pairs_matched", int(M.sum()))
    mon.nontrivial(bool(M.any(axis=1).any() and (~M.any(axis=1)).any()))
    d = {"a": case["a"], "b": case["b"], "tol": tol, "ia": np.asarray(ia).tolist(),
         "ib": np.asarray(ib).tolist(), "a_in_b": np.asarray(a_in_b).tolist(),
         "intersection": [list(map(int, x)) for x in inter]}
    want_ia = np.flatnonzero(M.any(axis=1))
    want_ib = np.flatnonzero(M.any(axis=0))
    if not np.array_equal(np.asarray(ia), want_ia):
        mon.violation("intersect_sets:ia-differs-from-brute-force", {**d, "want": want_ia.tolist()})
    if not np.array_equal(np.asarray(ib), want_ib):
        mon.violation("intersect_sets:ib-differs-from-brute-force", {**d, "want": want_ib.tolist()})
    if not np.array_equal(np.asarray(a_in_b, dtype=bool), M.any(axis=1)):
        mon.violation("intersect_sets:a_in_b-differs-from-brute-force", d)
    if len(inter) != na or any(sorted(int(x) for x in inter[i]) != np.flatnonzero(M[i]).tolist()
                               for i in range(min(na, len(inter)))):
        mon.violation("intersect_sets:intersection-lists-differ-from-brute-force", d)
