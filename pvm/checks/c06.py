"""C06 Restricted assembly is a slice of the full system.

Reference-model monitor: ``A_full, b_full = assemble()`` once per state; every generated
restriction (``equations=`` as names / operators / dict name->grids / lists mixing the three,
``variables=`` as names / md-variables / atomic variables, optional ``state=``) is then
assembled by the real code with and without Jacobian and compared with a dense slice of the
full system.  Rows: equations in the order they were *set*, each restricted to the requested
grids in md-grid order (row ranges computed from grid entity counts only); columns: sorted
union of the selected variables' blocks (``pvm.ref.c05_layout``).  Synthetic equations are
``SparseArray(J_e) @ u + 0.05 sin(.) - c_e`` with distinct random rows, so a row can only
match its own equation and grid; in addition the real mass-and-energy model is sliced.
"""
from __future__ import annotations

import inspect
import os
import shutil
import tempfile

import numpy as np

from pvm.gen import c06_systems as cs
from pvm.gen import mdg as gm
from pvm.ref.c05_layout import RefLayout, express, warm_grids

PROP = "C06"
N = {"quick": 45, "thorough": 2500}
WORKERS = {"quick": 4, "thorough": 16}
TIMEOUT = {"quick": 240, "thorough": 1000}
CASE_TIMEOUT = 300.0
RULE = ("seeded synthetic systems (2-4 md-variables with random dof types on subdomain or "
        "interface subsets, 2-5 equations with cell/face/node images on subdomain or interface "
        "subsets, set in random order) on md-grids with 0-3 fractures, 6 restrictions per "
        "system (5 per thorough-tier system): equation subsets in random list order given as "
        "names, operators, dict name->grid subset (also empty), lists mixing the three, a name "
        "first unrestricted then restricted; variable subsets as names / md-variables / atomic "
        "variables / None / []; optional explicit state; per synthetic system one re-definition "
        "history (restrictions assembled, the equation re-defined under its name on other "
        "grids / with other equations per entity through update_equation or remove + set, "
        "the same restrictions assembled again); plus the mass-and-energy model on a "
        "fractured square; non-trivial = the restriction drops at least one row and one "
        "column block and keeps at least one row; distinct = case hash")
REACH = [
    ("numerics/ad/equation_system.py", "EquationSystem._parse_equations"),
    ("numerics/ad/equation_system.py", "EquationSystem._parse_single_equation"),
    ("numerics/ad/equation_system.py", "EquationSystem.assemble"),
    ("numerics/ad/equation_system.py", "EquationSystem.projection_to"),
]
REACH_LINES = [
    ("numerics/ad/equation_system.py", "values = self.evaluate(eqs, derivative=False, state=state)"),
    ("numerics/ad/equation_system.py", "ad_list: list[pp.ad.AdArray] = self.evaluate(eqs, True, state)"),
    ("numerics/ad/equation_system.py", "return {equation: None}"),
    ("numerics/ad/equation_system.py", "return {equation.name: None}"),
    ("numerics/ad/equation_system.py", "block.update({name: np.concatenate(block_idx, dtype=int)})"),
    ("numerics/ad/equation_system.py", "block.update({name: np.array([], dtype=int)})"),
    ("numerics/ad/equation_system.py", "mat.append(ad.jac.tocsr()[row])"),
    ("numerics/ad/equation_system.py", "rhs.append(val[row])"),
    ("numerics/ad/equation_system.py", "A = sps.csr_matrix((0, self.num_dofs()))"),
]
REQUIRED = {"restrictions_checked": 40, "jacobian_slices_compared": 40,
            "residual_only_compared": 40, "equation_index_sets_compared": 40,
            "restriction_form_names": 3, "restriction_form_operators": 3,
            "restriction_form_dict": 5, "restriction_form_list_with_dict": 3,
            "restriction_form_unrestricted_then_restricted": 2, "restriction_form_none": 2,
            "restriction_empty_grid_list": 1, "variables_form_none": 2, "variables_form_subset": 10,
            "explicit_state": 3, "model_systems": 1, "interface_equations_restricted": 2,
            "grid_restricted_rows_dropped": 10,
            "redefinition:restrictions_compared_after": 20,
            "redefinition:rows_of_a_kept_grid_moved": 3}
ASSUMPTIONS = [
    "a variable selection names every atomic variable at most once (documented: the list is "
    "not uniquified; duplicates would duplicate columns)",
    "when a name is given both unrestricted and restricted in one list, the restricted item "
    "comes last (the only order in which 'restriction wins' and 'last item wins' agree)",
    "row ranges of an equation per grid follow from the entity counts declared in "
    "set_equation and the md-grid order",
]
LEVEL_TEXT = ("For generated synthetic systems and the mass-and-energy model every restricted "
              "assembly (rows by equation/grid subsets, columns by variable subsets, with and "
              "without Jacobian, optional state) equals the dense slice of the fully assembled "
              "system and reports consecutive per-equation row indices in set order.")
TECHNIQUE = "dense slicing of the full system as reference; identifiable random rows"
TOL = 1e-12


# ------------------------------------------------------------------------------ generator
def _rand_dof(rng, kind, allow_zero=True):
    if kind == "intf":
        return {"cells": int(rng.integers(1, 3))}
    r = rng.random()
    if r < 0.35:
        return {"cells": int(rng.integers(1, 3))}
    if r < 0.5:
        return {"faces": 1}
    if r < 0.6:
        return {"nodes": 1}
    d = {"cells": int(rng.integers(0, 3)), "faces": int(rng.integers(0, 2)),
         "nodes": int(rng.integers(0, 2))}
    return d


def random_spec(rng, nv=None, ne=None):
    nv = nv or int(rng.integers(2, 5))
    ne = ne or int(rng.integers(2, 6))
    spec = {"vars": [], "eqs": []}
    for k in range(nv):
        kind = "intf" if (rng.random() < 0.3 and k > 0) else "sd"
        spec["vars"].append({"name": f"u{k}", "kind": kind, "sel": int(rng.integers(1, 2**31)),
                             "p": float(rng.choice([0.5, 0.8, 1.0])), "dof": _rand_dof(rng, kind)})
    for k in range(ne):
        kind = "intf" if rng.random() < 0.3 else "sd"
        spec["eqs"].append({"name": f"e{k}", "kind": kind, "sel": int(rng.integers(1, 2**31)),
                            "p": float(rng.choice([0.5, 0.8, 1.0])), "per": _rand_dof(rng, kind)})
    return spec


def _small_mdg(rng):
    for _ in range(4):
        r = rng.random()
        if r < 0.75:
            rec = gm.random_2d(rng, "cartesian", max_fracs=3)
            if rec["domain"][0] * rec["domain"][1] > 9:
                rec["n"] = list(rec["domain"])
        elif r < 0.9:
            rec = gm.random_2d(rng, "simplex", max_fracs=2)
            rec["h"] = 1.0
        else:
            rec = gm.random_3d(rng, "cartesian", max_fracs=1)
        if rec["fractures"] or rng.random() < 0.2:
            break
    return rec


def generate(rng, tier, i):
    if tier == "thorough" and rng.random() < 0.004:
        return {"layer": "model", "fracs": [[0], [0, 1]][int(rng.integers(0, 2))],
                "seed": int(rng.integers(1, 2**31)), "nres": 4}
    return {"layer": "synthetic", "mdg": _small_mdg(rng), "spec": random_spec(rng),
            "seed": int(rng.integers(1, 2**31)), "nres": 6 if tier == "quick" else 5}


def floor(tier):
    X = gm.floor_recipes(dims=(2,), meshes=("cartesian",))
    S = gm.floor_recipes(dims=(2,), meshes=("simplex",))
    out = []
    spec = {"vars": [{"name": "u0", "kind": "sd", "sel": 1, "p": 1.0, "dof": {"cells": 1}},
                     {"name": "u1", "kind": "intf", "sel": 2, "p": 1.0, "dof": {"cells": 2}},
                     {"name": "u2", "kind": "sd", "sel": 3, "p": 0.5, "dof": {"faces": 1, "nodes": 1}}],
            "eqs": [{"name": "e0", "kind": "sd", "sel": 4, "p": 1.0, "per": {"cells": 1}},
                    {"name": "e1", "kind": "intf", "sel": 5, "p": 1.0, "per": {"cells": 1}},
                    {"name": "e2", "kind": "sd", "sel": 6, "p": 1.0, "per": {"faces": 1}},
                    {"name": "e3", "kind": "sd", "sel": 7, "p": 0.5, "per": {"cells": 2, "nodes": 1}},
                    {"name": "e4", "kind": "intf", "sel": 8, "p": 0.5, "per": {"cells": 2}}]}
    for k, rec in enumerate([X[2], X[3], X[1], S[1]]):
        out.append({"layer": "synthetic", "mdg": rec, "spec": spec, "seed": 31 + k, "nres": 8})
    out.append({"layer": "model", "fracs": [0, 1], "seed": 41, "nres": 5})
    return out


# -------------------------------------------------------------------------- system set-up
class _Sys:
    """What the slicing oracle needs: es, ops, equation row blocks, variable layout."""


def _synthetic(case):
    mdg = gm.build(case["mdg"])
    res = cs.resolve(mdg, case["spec"])
    rng = np.random.default_rng([case["seed"], 7])
    order = rng.permutation(len(res["eqs"]))          # equations are SET in random order
    res["eqs"] = [res["eqs"][int(k)] for k in order]
    m, n = cs.sizes(mdg, res)
    J = cs.random_J(rng, m, n)
    c = rng.uniform(-1, 1, m)
    x0 = rng.uniform(-1, 1, n)
    S = cs.realize(mdg, res, J, c, x0)
    T = _Sys()
    T.es, T.ref, T.blocks, T.ops, T.n, T.m = S.es, S.ref, S.blocks, S.ops, S.n, S.m
    T.mdg = mdg
    T.S, T.res, T.J, T.c = S, res, J, c
    return T


def _redefine(T, case, mon):
    """History on ONE equation system: restrictions of an equation are assembled, the
    equation is re-defined under its name (other grids and / or other equations per
    entity; it moves to the end of the set order), and the same restrictions are assembled
    again: they are the rows of the *new* full system."""
    import porepy as pp
    from pvm.ref.c05_layout import block_size
    es, S, res = T.es, T.S, T.res
    rng = np.random.default_rng([case["seed"], 777])
    j = int(rng.integers(0, len(res["eqs"])))
    e = res["eqs"][j]
    name = e["name"]
    old = T.blocks[j]
    assert old.name == name
    # prime: every single-grid restriction and the full grid list, by name and by operator
    primed = [[g] for g in old.grids] + [list(old.grids)]
    for gs in primed:
        es.assemble(equations={name: list(gs)})
        es.assemble(evaluate_jacobian=False, equations={T.ops[name]: list(gs)})
        mon.count("redefinition:restrictions_assembled_before")
    pool = list(T.mdg.interfaces()) if e["kind"] == "intf" else list(T.mdg.subdomains())
    keep = old.grids[int(rng.integers(0, len(old.grids)))]
    grids = cs.pick_grids(pool, int(rng.integers(1, 2**31)), float(rng.choice([0.5, 0.8, 1.0])))
    if not any(g is keep for g in grids):
        grids.append(keep)
    per = dict(e["per"])
    if rng.random() < 0.5:
        per = _rand_dof(rng, e["kind"])
        if e["kind"] == "intf":
            per = {"cells": max(1, per.get("cells", 1))}
    if sum(block_size(g, per, e["kind"] == "intf") for g in grids) == 0:
        per["cells"] = 1
    new_e = {"name": name, "kind": e["kind"], "grids": grids, "per": per}
    eqs2 = [x for k, x in enumerate(res["eqs"]) if k != j] + [new_e]
    blocks2, m2 = cs.eq_layout(T.mdg, eqs2)
    nb = blocks2[-1]
    Jn = cs.random_J(rng, nb.total, T.n)
    cn = rng.uniform(-1, 1, nb.total)
    op = cs.make_operator(S, Jn, cn, name)
    via_update = rng.random() < 0.6
    if via_update:
        same_g = [id(g) for g in grids] == [id(g) for g in e["grids"]]
        es.update_equation(name, op, None if same_g else list(grids),
                           None if per == e["per"] else dict(per))
        mon.count("redefinition:update_equation")
    else:
        es.remove_equation(name)
        es.set_equation(op, list(grids), dict(per))
        mon.count("redefinition:remove_then_set")
    moved = any(not np.array_equal(old.local[id(g)], nb.local[id(g)])
                for g in nb.grids if id(g) in old.local)
    if moved:
        mon.count("redefinition:rows_of_a_kept_grid_moved")
    mon.klass("redefined:" + ("moved" if moved else "same-local-rows"))
    A_full, b_full = es.assemble()
    A_full = A_full.toarray()
    if A_full.shape != (m2, T.n):
        mon.violation("redefinition:full-system-shape", {"got": list(A_full.shape),
                                                         "want": [m2, T.n]})
        return
    idx = es.assembled_equation_indices
    want = {b_.name: b_.rows() for b_ in blocks2}
    if list(idx) != list(want) or any(not np.array_equal(idx[k], want[k]) for k in want):
        mon.violation("redefinition:full-assembly-row-indices",
                      {"got_order": list(idx), "want_order": list(want)})
        return
    sc = max(1.0, float(np.max(np.abs(A_full))) if A_full.size else 1.0)
    scb = max(1.0, float(np.max(np.abs(b_full))) if b_full.size else 1.0)
    new_ids = {id(g) for g in nb.grids}
    again = [gs for gs in primed if all(id(g) in new_ids for g in gs)] + [list(nb.grids)]
    for gs in again:
        rows = nb.rows(gs)
        detail = {"equation": name, "grids": [T.ref.pos(g) for g in gs],
                  "redefined_by": "update_equation" if via_update else "remove+set",
                  "old_grids": [T.ref.pos(g) for g in old.grids],
                  "new_grids": [T.ref.pos(g) for g in nb.grids],
                  "old_per": e["per"], "new_per": per}
        A_r, b_r = es.assemble(equations={name: list(gs)})
        mon.count("redefinition:restrictions_compared_after")
        if A_r.shape[0] != rows.size:
            mon.violation("redefinition:restricted-rows-stale-after-redefinition",
                          dict(detail, got_rows=int(A_r.shape[0]), want_rows=int(rows.size)))
            continue
        mon.close("redef_jacobian_slice", A_r.toarray(), A_full[rows], TOL,
                  "redefinition:restricted-rows-stale-after-redefinition", scale=sc,
                  detail=detail)
        mon.close("redef_residual_slice", b_r, b_full[rows], TOL,
                  "redefinition:restricted-rows-stale-after-redefinition", scale=scb,
                  detail=detail)
        b_o = es.assemble(evaluate_jacobian=False, equations={op: list(gs)})
        mon.close("redef_residual_only", b_o, b_full[rows], TOL,
                  "redefinition:restricted-rows-stale-after-redefinition", scale=scb,
                  detail=detail)


def _model(case):
    """The mass-and-energy model; what was handed to create_variables / set_equation is
    recorded at the public boundary while the model sets itself up."""
    import porepy as pp
    from porepy.applications.md_grids.model_geometries import SquareDomainOrthogonalFractures
    from porepy.models.mass_and_energy_balance import MassAndEnergyBalance
    ES = pp.ad.EquationSystem

    class M(SquareDomainOrthogonalFractures, MassAndEnergyBalance):
        pass

    rec = {"vars": [], "eqs": []}
    o_cv, o_se = ES.create_variables, ES.set_equation
    s_cv, s_se = inspect.signature(o_cv), inspect.signature(o_se)

    def cv(self, *a, **kw):
        md = o_cv(self, *a, **kw)
        b = s_cv.bind(self, *a, **kw)
        b.apply_defaults()
        g = b.arguments["subdomains"] if b.arguments["subdomains"] is not None \
            else b.arguments["interfaces"]
        rec["vars"].append((b.arguments["name"], dict(b.arguments["dof_info"] or {"cells": 1}),
                            list(g), md))
        return md

    def se(self, *a, **kw):
        b = s_se.bind(self, *a, **kw)
        b.apply_defaults()
        grids = list(b.arguments["grids"])
        o_se(self, *a, **kw)
        rec["eqs"].append((b.arguments["equation"].name, grids,
                           dict(b.arguments["equations_per_grid_entity"]),
                           b.arguments["equation"]))

    ES.create_variables, ES.set_equation = cv, se
    try:
        model = M({"fracture_indices": list(case["fracs"]),
                   "meshing_arguments": {"cell_size": 0.5}, "times_to_export": []})
        model.prepare_simulation()
    finally:
        ES.create_variables, ES.set_equation = o_cv, o_se
    es = model.equation_system
    mdg = model.mdg
    ref = RefLayout(mdg)
    for k, (name, dof, grids, md) in enumerate(rec["vars"]):
        for sv, g in zip(md.sub_vars, grids):
            ref.add(sv, name, g, dof, call=k)
    eqs = []
    for name, grids, per, op in rec["eqs"]:
        kind = "intf" if (grids and isinstance(grids[0], pp.MortarGrid)) else "sd"
        eqs.append({"name": name, "kind": kind, "grids": grids, "per": per})
    blocks, m = cs.eq_layout(mdg, eqs)
    T = _Sys()
    T.es, T.ref, T.blocks, T.n, T.m, T.mdg = es, ref, blocks, ref.num_dofs(), m, mdg
    T.ops = {name: op for name, _, _, op in rec["eqs"]}
    # a non-trivial state (the initial one is constant)
    rng = np.random.default_rng([case["seed"], 9])
    x = es.get_variable_values(iterate_index=0)
    es.set_variable_values(x * (1 + 0.01 * rng.uniform(-1, 1, x.size)) + 1e-3 * rng.uniform(-1, 1, x.size),
                           iterate_index=0)
    return T


# ------------------------------------------------------------------------- restrictions
def _draw_restriction(T, rng, mon):
    """Returns (equations argument, {name: grids or None} expected, form label)."""
    blocks = T.blocks
    names = [b.name for b in blocks]
    by = {b.name: b for b in blocks}

    def ident(nm):
        return T.ops[nm] if rng.random() < 0.5 else nm

    def sub_grids(b, allow_empty=True):
        gs = list(b.grids)
        if not gs:
            return []
        r = rng.random()
        if r < 0.1 and allow_empty:
            return []
        if r < 0.25:
            pick = list(gs)
        else:
            k = int(rng.integers(1, len(gs) + 1))
            pick = [gs[int(j)] for j in rng.choice(len(gs), size=k, replace=False)]
        rng.shuffle(pick)
        return pick

    r = rng.random()
    k = int(rng.integers(1, len(names) + 1))
    chosen = [names[int(j)] for j in rng.choice(len(names), size=k, replace=False)]
    if r < 0.08:
        return None, {nm: None for nm in names}, "none"
    if r < 0.12:
        return [], {}, "empty_list"
    if r < 0.27:
        form = "names" if rng.random() < 0.5 else "operators"
        arg = [nm if form == "names" else T.ops[nm] for nm in chosen]
        if rng.random() < 0.3:
            form = "names_and_operators"
            arg = [ident(nm) for nm in chosen]
        return arg, {nm: None for nm in chosen}, form
    if r < 0.62:
        exp = {nm: sub_grids(by[nm]) for nm in chosen}
        arg = {ident(nm): list(g) for nm, g in exp.items()}
        return arg, exp, "dict"
    if r < 0.87:
        arg, exp = [], {}
        for nm in chosen:
            q = rng.random()
            if q < 0.35:
                arg.append(ident(nm))
                exp[nm] = None
            else:
                g = sub_grids(by[nm])
                arg.append({ident(nm): list(g)})
                exp[nm] = g
        return arg, exp, "list_with_dict"
    # a name first unrestricted, later restricted: the restriction holds
    arg, exp = [], {}
    for nm in chosen:
        arg.append(ident(nm))
        exp[nm] = None
    dup = chosen[int(rng.integers(0, len(chosen)))]
    g = sub_grids(by[dup])
    arg.append({ident(dup): list(g)})
    exp[dup] = g
    return arg, exp, "unrestricted_then_restricted"


def _draw_variables(T, rng, mon):
    live = T.ref.ordered()
    r = rng.random()
    if r < 0.2:
        return None, list(live), "none"
    if r < 0.25:
        return [], [], "empty_list"
    k = int(rng.integers(1, len(live) + 1))
    sub = [live[int(j)] for j in rng.choice(len(live), size=k, replace=False)]
    sel, grp = express(T.es, T.ref, sub, rng, mon.count)
    return sel, grp, "subset"


# ---------------------------------------------------------------------------------- check
def _check_system(T, case, mon):
    es = T.es
    full = {}

    def full_system(state_key, state):
        if state_key not in full:
            A, b = es.assemble(state=state)
            mon.count("full_assemblies")
            A = A.toarray()
            if A.shape != (T.m, T.n) or b.shape != (T.m,):
                mon.violation("full-system-shape-differs-from-declared-sizes",
                              {"got": list(A.shape), "want": [T.m, T.n]})
                return None
            idx = es.assembled_equation_indices
            want = {b_.name: b_.rows() for b_ in T.blocks}
            if list(idx) != list(want) or any(not np.array_equal(idx[k], want[k]) for k in want):
                mon.violation("full-assembly-row-indices-not-consecutive-in-set-order",
                              {"got": {k: [int(v[0]), int(v[-1])] if len(v) else [] for k, v in idx.items()}})
                return None
            full[state_key] = (A, b)
        return full[state_key]

    for k in range(case["nres"]):
        rng = np.random.default_rng([case["seed"], 100 + k])
        if rng.random() < 0.2:
            state = np.random.default_rng([case["seed"], 55]).uniform(-1, 1, T.n)
            if case["layer"] == "model":
                state = es.get_variable_values(iterate_index=0) * 1.02 + 1e-3
            skey = "explicit"
            mon.count("explicit_state")
        else:
            state, skey = None, "stored"
        fs = full_system(skey, state)
        if fs is None:
            return
        A_full, b_full = fs
        eq_arg, exp, form = _draw_restriction(T, rng, mon)
        v_arg, v_grp, vform = _draw_variables(T, rng, mon)
        mon.count("restriction_form_" + form)
        if form == "names_and_operators":
            mon.count("restriction_form_names")
            mon.count("restriction_form_operators")
        mon.count("variables_form_" + vform)
        mon.klass(f"eq:{form}/var:{vform}")
        # expected rows: equations in SET order, each restricted to its grids in md order
        row_parts, idx_want, a0 = [], {}, 0
        dropped_by_grid = False
        for b in T.blocks:
            if b.name not in exp:
                continue
            g = exp[b.name]
            r = b.rows(g)
            if g is not None:
                if len(g) == 0:
                    mon.count("restriction_empty_grid_list")
                if r.size < b.total:
                    dropped_by_grid = True
                    mon.count("grid_restricted_rows_dropped", b.total - r.size)
                    if b.kind == "intf":
                        mon.count("interface_equations_restricted")
            row_parts.append(r)
            idx_want[b.name] = a0 + np.arange(r.size)
            a0 += r.size
        rows = np.concatenate(row_parts).astype(int) if row_parts else np.zeros(0, dtype=int)
        cols = T.ref.indices(v_grp)
        A_want = A_full[rows][:, cols]
        b_want = b_full[rows]
        mon.count("restrictions_checked")
        mon.measure("rows_kept_fraction", rows.size / max(1, T.m))
        mon.measure("cols_kept_fraction", cols.size / max(1, T.n))
        mon.nontrivial(0 < rows.size < T.m and cols.size < T.n)
        detail = {"form": form, "vform": vform, "restriction": k,
                  "equations": {nm: (None if g is None else [T.ref.pos(x) for x in g])
                                for nm, g in exp.items()},
                  "set_order": [b.name for b in T.blocks]}
        # -- Jacobian + residual
        kw = {} if state is None else {"state": state}
        A_r, b_r = es.assemble(equations=eq_arg, variables=v_arg, **kw)
        sc = max(1.0, float(np.max(np.abs(A_full))) if A_full.size else 1.0)
        ok = mon.close("jacobian_slice", A_r.toarray(), A_want, TOL,
                       "restricted-jacobian-is-not-the-slice-of-the-full-jacobian", scale=sc,
                       detail=detail)
        mon.count("jacobian_slices_compared")
        scb = max(1.0, float(np.max(np.abs(b_full))) if b_full.size else 1.0)
        ok = mon.close("residual_slice", b_r, b_want, TOL,
                       "restricted-residual-is-not-the-slice-of-the-full-residual", scale=scb,
                       detail=detail) and ok
        idx = es.assembled_equation_indices
        mon.count("equation_index_sets_compared")
        if list(idx) != list(idx_want) or any(
                not np.array_equal(np.asarray(idx[n_]), idx_want[n_]) for n_ in idx_want):
            mon.violation("reported-row-indices-not-consecutive-per-equation-in-set-order",
                          dict(detail, got={n_: np.asarray(v).tolist()[:6] for n_, v in idx.items()},
                               want={n_: v.tolist()[:6] for n_, v in idx_want.items()}))
            ok = False
        # -- residual only
        b_o = es.assemble(evaluate_jacobian=False, equations=eq_arg, variables=v_arg, **kw)
        mon.count("residual_only_compared")
        mon.close("residual_only", b_o, b_want, TOL,
                  "residual-only-assembly-differs-from-the-full-residual-slice", scale=scb,
                  detail=detail)
        if dropped_by_grid and ok:
            mon.count("grid_restricted_slices_held")


def check(case, mon):
    if case["layer"] == "model":
        cwd = os.getcwd()
        tmp = tempfile.mkdtemp(prefix="c06_model_", dir="/tmp")
        os.chdir(tmp)
        try:
            T = _model(case)
            mon.count("model_systems")
            mon.klass("layer:model")
            _check_system(T, case, mon)
        finally:
            os.chdir(cwd)
            shutil.rmtree(tmp, ignore_errors=True)
    else:
        T = _synthetic(case)
        mon.count("synthetic_systems")
        mon.klass("layer:synthetic")
        mon.measure("system_rows", T.m)
        mon.measure("system_dofs", T.n)
        _check_system(T, case, mon)
        _redefine(T, case, mon)


def warmup():
    """Meshing / geometry / discretization numba kernels compile once, outside case timing
    and before reach counting (one throw-away model set-up)."""
    warm_grids()
    cwd = os.getcwd()
    tmp = tempfile.mkdtemp(prefix="c06_warm_", dir="/tmp")
    os.chdir(tmp)
    try:
        _model({"fracs": [0], "seed": 1})
    except Exception:          # decided later by the real cases
        pass
    finally:
        os.chdir(cwd)
        shutil.rmtree(tmp, ignore_errors=True)
