"""C46 Sparse N-d arrays behave like a dictionary of coordinates.

Monitor: a plain ``dict[tuple -> vector]`` is driven by the same ``add(coords, values,
additive)`` batches as the real ``SparseNdArray`` (reference-model monitor).  After every
batch every key is read back (batched in random order with repeated queries, the batch's
own coordinates one by one, and after the last batch every key one by one), a coordinate
never inserted must raise, alone and mixed with present coordinates.

Values are distinct positive integers stored as floats (value_dim 2: second row
``3 v + 1``), so every comparison is exact and a value that lands on the wrong coordinate
is visible.

A mismatch is attributed to a mechanism by replaying the batch on the *observed* storage
order (``_coords`` before the batch) with a 30-line transcription of the documented
algorithm that can switch on the two known slips individually; the verdict itself is taken
by the dict alone.  After a mismatch the dict is re-synchronised with the values read back,
so that later batches of the history are judged on their own.
"""
from __future__ import annotations

import itertools

import numpy as np

PROP = "C46"
N = {"quick": 2000, "thorough": 80000}
WORKERS = {"quick": 4, "thorough": 16}
TIMEOUT = {"quick": 300, "thorough": 3000}
CASE_TIMEOUT = 60.0
RULE = ("histories of 1-10 add() batches (1-8 coordinates each, drawn with replacement "
        "from a per-history pool of 2-14 integer coordinates in [-2,2]^d, d=1..4, so that "
        "duplicates inside and across batches are frequent), additive/overwrite chosen per "
        "batch, value_dim 1-2, values = distinct positive integers; occasional empty "
        "batches; non-trivial = at least 2 batches and some coordinate inserted at least "
        "twice; distinct = hash of the whole history")
REACH = [
    ("utils/array_operations.py", "SparseNdArray.add"),
    ("utils/array_operations.py", "SparseNdArray.get"),
    ("utils/array_operations.py", "intersect_sets"),
]
REACH_LINES = [
    # duplicate branch of the overwrite path, additive path, the rejection in get()
    ("utils/array_operations.py", "unique_values[:, i] = values[:, np.where(all_2_unique == i)[0][-1]]"),
    ("utils/array_operations.py", "np.bincount(all_2_unique, weights=values[i])"),
    ("utils/array_operations.py", 'raise ValueError("Inquiry on unassigned coordinate.")'),
    ("utils/array_operations.py", "self._values[:, ind] += unique_values[:, is_mem]"),
    ("utils/array_operations.py", "self._values[:, ind] = unique_values[:, is_mem]"),
]
REQUIRED = {
    "batches": 20, "batches_overwrite": 5, "batches_additive": 5,
    "batches_overwrite_distinct_noninvolutive": 2,
    "batches_touching_existing_unsorted": 2,
    "batches_with_inner_duplicates": 3,
    "keys_read_back": 100, "absent_reads_rejected": 20,
}
ASSUMPTIONS = [
    "coordinates are integers, values integer-valued floats below 2^53 (exact sums)",
    "np.unique(axis=1) orders columns lexicographically (used only for the diagnosis of a "
    "mismatch, not for the verdict)",
]
LEVEL_TEXT = ("Every add() batch of a generated history is mirrored in a plain dict and every "
              "key is read back exactly after every batch; absent coordinates must raise.")
TECHNIQUE = "dict reference model, exact read-back after every operation"

M_PERM = "overwrite-batch:distinct-coords-sort-permutation-not-involution"
M_STORED = "existing-coords:stored-order-unsorted"
M_OTHER = "readback-mismatch:unexplained"
M_ABSENT = "get:absent-coordinate-no-error"
M_SHAPE = "get:wrong-shape"
M_KEYS = "storage:coordinate-set-differs-from-dict"


# --------------------------------------------------------------------------- cases
def _b(coords, values, additive):
    return {"coords": [list(map(int, c)) for c in coords],
            "values": [v if isinstance(v, str) else int(v) for v in values],
            "additive": bool(additive)}


def floor(tier):
    out = []
    # DESIGN section 3 witness: one overwrite batch of three distinct coordinates in cyclic order
    out.append({"dim": 2, "vdim": 1, "qseed": 1, "batches": [
        _b([(1, 0), (1, 1), (-1, -1)], [11, 22, 33], False)]})
    # same, additive (bincount path is right)
    out.append({"dim": 2, "vdim": 1, "qseed": 2, "batches": [
        _b([(1, 0), (1, 1), (-1, -1)], [11, 22, 33], True)]})
    # stored order unsorted, then both existing coordinates updated: overwrite / additive
    for add in (False, True):
        out.append({"dim": 1, "vdim": 1, "qseed": 3, "batches": [
            _b([(2,)], [5], False), _b([(-1,)], [7], False),
            _b([(-1,), (2,)], [100, 200], add)]})
    # sorted stored order: the same update is served correctly
    out.append({"dim": 1, "vdim": 1, "qseed": 4, "batches": [
        _b([(-1,)], [7], False), _b([(2,)], [5], False),
        _b([(2,), (-1,)], [200, 100], False)]})
    # duplicates inside a batch: last wins / summed
    out.append({"dim": 2, "vdim": 2, "qseed": 5, "batches": [
        _b([(0, 0), (1, 1), (0, 0), (0, 0)], [1, 2, 3, 4], False),
        _b([(0, 0), (1, 1), (0, 0), (2, 2)], [10, 20, 30, 40], True),
        _b([(2, 2), (2, 2)], [300, 500], False)]})
    # empty batches, 3-d and 4-d, value_dim 2
    out.append({"dim": 3, "vdim": 2, "qseed": 6, "batches": [
        _b([], [], False), _b([(0, 1, 2), (-2, -2, -2)], [8, 9], True), _b([], [], True),
        _b([(-2, -2, -2), (0, 1, 2), (1, 1, 1)], [1000, 2000, 3000], True)]})
    out.append({"dim": 4, "vdim": 1, "qseed": 7, "batches": [
        _b([(0, 0, 0, 1), (0, 0, 1, 0), (0, 1, 0, 0), (1, 0, 0, 0)], [1, 2, 3, 4], False),
        _b([(1, 0, 0, 0), (0, 0, 0, 1)], [50, 60], False),
        _b([(0, 0, 1, 0), (0, 0, 1, 0), (-1, 0, 0, 0)], [7, 8, 9], True)]})
    # 1-d box completely filled (absent coordinate must be taken outside the box)
    out.append({"dim": 1, "vdim": 1, "qseed": 8, "batches": [
        _b([(-2,), (-1,), (0,), (1,), (2,)], [1, 2, 3, 4, 5], False),
        _b([(2,), (0,), (-2,)], [10, 20, 30], True)]})
    # two-element batches only (every sorting permutation is an involution)
    out.append({"dim": 2, "vdim": 1, "qseed": 9, "batches": [
        _b([(1, 1), (0, 0)], [1, 2], False), _b([(0, 0), (1, 1)], [3, 4], False),
        _b([(1, 1), (0, 0)], [5, 6], False)]})
    # sorted (identity permutation) long overwrite batch
    out.append({"dim": 2, "vdim": 1, "qseed": 10, "batches": [
        _b([(-1, 0), (0, -1), (0, 0), (0, 1), (1, 0)], [1, 2, 3, 4, 5], False),
        _b([(-1, 0), (0, -1), (0, 0), (0, 1), (1, 0)], [6, 7, 8, 9, 10], False)]})
    # non-finite stored values overwritten / added to later
    out.append({"dim": 1, "vdim": 1, "qseed": 12, "batches": [
        _b([(0,), (1,), (2,)], ["nan", "inf", 5], False),
        _b([(0,), (1,), (2,)], [7, 8, 9], False),
        _b([(0,), (1,)], ["-inf", 1], True), _b([(0,)], [3], False)]})
    # four distinct coordinates, 4-cycle, second batch overwrites part of them
    out.append({"dim": 1, "vdim": 2, "qseed": 11, "batches": [
        _b([(1,), (2,), (-2,), (0,)], [1, 2, 3, 4], False),
        _b([(0,), (-2,), (1,)], [10, 20, 30], False)]})
    return out


def generate(rng, tier, i):
    dim = int(rng.integers(1, 5))
    vdim = int(rng.integers(1, 3))
    box = list(itertools.product(range(-2, 3), repeat=dim))
    npool = int(min(len(box), rng.integers(2, 15)))
    pool = [box[k] for k in rng.choice(len(box), size=npool, replace=False)]
    nb = int(rng.integers(1, 11))
    ids = rng.choice(np.arange(1, 1_000_000), size=nb * 8, replace=False)
    batches = []
    k = 0
    style = rng.random()
    nonfinite = bool(rng.random() < 0.1)
    for _ in range(nb):
        if rng.random() < 0.04:
            batches.append(_b([], [], rng.random() < 0.5))
            continue
        m = int(rng.integers(1, 9))
        if rng.random() < 0.35:      # distinct coordinates (the no-duplicate branch)
            m = min(m, npool)
            idx = rng.choice(npool, size=m, replace=False)
        else:
            idx = rng.integers(0, npool, size=m)
        coords = [pool[j] for j in idx]
        vals = ids[k:k + m]
        k += m
        if style < 0.2:
            additive = False
        elif style < 0.4:
            additive = True
        else:
            additive = bool(rng.random() < 0.5)
        vals = [int(v) for v in vals]
        if nonfinite and rng.random() < 0.5:
            # placeholders / overflowed sums: a later overwrite must replace them, a later
            # additive insertion follows IEEE arithmetic, exactly as a dictionary would
            for j in range(len(vals)):
                if rng.random() < 0.3:
                    vals[j] = str(rng.choice(["inf", "-inf", "nan"]))
        batches.append(_b(coords, vals, additive))
    return {"dim": dim, "vdim": vdim, "qseed": int(rng.integers(1, 2**31)),
            "batches": batches}


# --------------------------------------------------------------------------- diagnosis
def _predict(stored, svals, coords, vals, additive, slip_perm, slip_stored):
    """Transcription of the documented add() algorithm on the observed storage order.

    ``stored``: list of coordinate tuples in storage order, ``svals``: list of value vectors.
    Returns dict coordinate -> vector.  The two flags switch on the two known slips.
    """
    svals = [np.array(v, dtype=float) for v in svals]
    uniq = sorted(set(coords))
    a2u = [uniq.index(c) for c in coords]
    u2a = [coords.index(u) for u in uniq]
    nodup = len(uniq) == len(coords)
    uv = []
    for j, u in enumerate(uniq):
        occ = [i for i, c in enumerate(coords) if c == u]
        if additive:
            uv.append(sum(vals[i] for i in occ))
        elif nodup:
            uv.append(vals[a2u[j]] if slip_perm else vals[u2a[j]])
        else:
            uv.append(vals[occ[-1]])
    pos = {c: k for k, c in enumerate(stored)}
    mem = [j for j, u in enumerate(uniq) if u in pos]
    targets = [pos[uniq[j]] for j in mem]
    if slip_stored:
        targets = sorted(targets)
    for t, j in zip(targets, mem):
        svals[t] = svals[t] + uv[j] if additive else np.array(uv[j], dtype=float)
    res = {c: svals[k] for k, c in enumerate(stored)}
    for j, u in enumerate(uniq):
        if u not in pos:
            res[u] = np.array(uv[j], dtype=float)
    return res


def _same(d1, d2):
    return d1.keys() == d2.keys() and all(np.array_equal(d1[k], d2[k], equal_nan=True) for k in d1)


def _is_involution(coords):
    uniq = sorted(coords)
    p = [uniq.index(c) for c in coords]
    return all(p[p[i]] == i for i in range(len(p)))


# --------------------------------------------------------------------------- check
def _vec(v, vdim):
    v = float(v)          # also "inf" / "-inf" / "nan" (JSON-able spelling of non-finite values)
    return np.array([v] if vdim == 1 else [v, 3.0 * v + 1.0])


def _get(arr, coords):
    return arr.get([np.array(c, dtype=int) for c in coords])


def _expect_raise(arr, coords, mon, what):
    try:
        r = _get(arr, coords)
    except ValueError:
        mon.count("absent_reads_rejected")
        mon.count("absent_reads_rejected_ValueError")
        return
    except Exception as e:  # noqa: BLE001  the statement only asks for "an error"
        mon.count("absent_reads_rejected")
        mon.count(f"absent_reads_rejected_{type(e).__name__}")
        return
    mon.violation(M_ABSENT, {"query": what, "coords": coords, "returned": r})


def _read_all(arr, keys, vdim, mon, rq, batch_coords=(), individually=False):
    """Read back every key; returns dict key -> vector (None if a read failed)."""
    got = {}
    keys = list(keys)
    if not keys:
        return got
    # (a) one batched read, random order, with repeated queries
    order = [keys[i] for i in rq.permutation(len(keys))]
    order += [keys[i] for i in rq.integers(0, len(keys), size=min(3, len(keys)))]
    r = np.asarray(_get(arr, order))
    mon.count("batched_reads")
    if r.shape != (vdim, len(order)):
        mon.violation(M_SHAPE, {"got": list(r.shape), "want": [vdim, len(order)]})
        return None
    for k, c in enumerate(order):
        v = r[:, k].copy()
        if c in got and not np.array_equal(got[c], v, equal_nan=True):
            mon.violation("get:repeated-query-differs", {"coord": c})
        got[c] = v
    mon.count("keys_read_back", len(keys))
    # (b) single reads
    singles = keys if individually else list(dict.fromkeys(batch_coords))
    for c in singles:
        r1 = np.asarray(_get(arr, [c]))
        mon.count("single_reads")
        if r1.shape != (vdim, 1):
            mon.violation(M_SHAPE, {"got": list(r1.shape), "want": [vdim, 1]})
            return None
        if not np.array_equal(r1[:, 0], got[c], equal_nan=True):
            mon.violation("get:single-read-differs-from-batched-read", {"coord": c})
    return got


def check(case, mon):
    from porepy.utils.array_operations import SparseNdArray

    dim, vdim = int(case["dim"]), int(case["vdim"])
    batches = case["batches"]
    rq = np.random.default_rng(int(case["qseed"]))
    arr = SparseNdArray(dim, value_dim=vdim)
    ref: dict[tuple, np.ndarray] = {}
    mon.klass(f"d{dim}v{vdim}")
    seen_twice = False
    inserted = set()

    # reading from the empty array must raise
    _expect_raise(arr, [tuple([0] * dim)], mon, "empty array")

    for bi, b in enumerate(batches):
        coords = [tuple(int(x) for x in c) for c in b["coords"]]
        vals = [_vec(v, vdim) for v in b["values"]]
        additive = bool(b["additive"])
        mon.count("batches")
        mon.count("batches_additive" if additive else "batches_overwrite")
        if not coords:
            mon.count("batches_empty")
        stored = [tuple(int(x) for x in col) for col in np.asarray(arr._coords).T]
        svals = [np.array(col, dtype=float) for col in np.asarray(arr._values).T]
        if len(stored) != len(set(stored)) or set(stored) != set(ref):
            mon.violation(M_KEYS, {"batch": bi, "stored": stored, "dict": sorted(ref)})
            return
        # classes of the batch (predicates of the known mechanisms)
        nodup = len(set(coords)) == len(coords)
        if not nodup:
            mon.count("batches_with_inner_duplicates")
        p_perm = (not additive) and nodup and not _is_involution(coords)
        pos = {c: k for k, c in enumerate(stored)}
        hit = [pos[u] for u in sorted(set(coords)) if u in pos]
        p_stored = hit != sorted(hit)
        if p_perm:
            mon.count("batches_overwrite_distinct_noninvolutive")
        if p_stored:
            mon.count("batches_touching_existing_unsorted")
        if hit:
            mon.count("batches_touching_existing")
        if any(c in inserted for c in coords) or not nodup:
            seen_twice = True
        inserted.update(coords)

        # the real call
        if coords:
            v_in = np.array(vals).T if vdim > 1 else np.array([v[0] for v in vals])
        else:
            v_in = np.zeros((vdim, 0))
        arr.add([np.array(c, dtype=int) for c in coords], v_in, additive=additive)
        mon.count("coords_added", len(coords))

        # the dict
        for c, v in zip(coords, vals):
            if additive:
                ref[c] = ref.get(c, np.zeros(vdim)) + v
            else:
                ref[c] = v.copy()

        # read back
        now = [tuple(int(x) for x in col) for col in np.asarray(arr._coords).T]
        if len(now) != len(set(now)) or set(now) != set(ref):
            mon.violation(M_KEYS, {"batch": bi, "stored": now, "dict": sorted(ref)})
            return
        last = bi == len(batches) - 1
        got = _read_all(arr, list(ref), vdim, mon, rq, coords, individually=last)
        if got is None:
            return
        bad = [c for c in ref if not np.array_equal(got[c], ref[c], equal_nan=True)]
        mon.measure("abs_readback_error",
                    max([float(np.max(np.abs(got[c] - ref[c]))) for c in ref], default=0.0))
        if bad:
            variants = {}
            for sp, ss in ((False, False), (True, False), (False, True), (True, True)):
                variants[(sp, ss)] = _predict(stored, svals, coords, vals, additive, sp, ss)
            if not _same(variants[(False, False)], ref):
                mon.inconclusive("dict oracle and algorithm transcription disagree")
                return
            mech = []
            if _same(variants[(True, False)], got) and p_perm:
                mech = [M_PERM]
            elif _same(variants[(False, True)], got) and p_stored:
                mech = [M_STORED]
            elif _same(variants[(True, True)], got) and p_perm and p_stored:
                mech = [M_PERM, M_STORED]
            else:
                mech = [M_OTHER]
            c0 = bad[0]
            for m in mech:
                mon.violation(m, {
                    "batch_index": bi, "additive": additive, "batch_coords": coords,
                    "batch_values": [v.tolist() for v in vals], "stored_order_before": stored,
                    "wrong_coordinate": c0, "got": got[c0].tolist(), "want": ref[c0].tolist(),
                    "n_wrong": len(bad)})
            # judge the remaining batches on their own
            ref = {c: got[c].copy() for c in ref}
            mon.count("resynchronised_after_mismatch")

        # absent coordinates must raise
        absent = None
        for _ in range(20):
            c = tuple(int(x) for x in rq.integers(-2, 3, size=dim))
            if c not in ref:
                absent = c
                break
        if absent is None:
            absent = tuple([3] + [0] * (dim - 1))
            mon.count("absent_taken_outside_box")
        _expect_raise(arr, [absent], mon, "absent alone")
        if ref:
            keys = list(ref)
            some = [keys[i] for i in rq.integers(0, len(keys), size=min(2, len(keys)))]
            k = int(rq.integers(0, len(some) + 1))
            _expect_raise(arr, some[:k] + [absent] + some[k:], mon, "absent among present")

    mon.nontrivial(len(batches) >= 2 and seen_twice)
    mon.measure("keys_at_end", len(ref))
