"""C42 Phase saturations and fraction derivatives are thermodynamically consistent.

Monitor: the real ``compute_saturations``, ``chainrule_fractional_derivatives`` and
``normalize_rows`` of ``porepy.compositional.utils`` are called (vectorised and scalar entry
points) on generated phase fractions / densities / gradients, and every returned array is
decided by closed forms: ``s_j = (y_j/rho_j) / sum_k y_k/rho_k``, positivity, unity, the
back-substitution ``y_j = rho_j s_j / sum_k rho_k s_k``; the chain rule against the
complex-step derivative of the composed function ``g(y, x) = f(y, x / sum(x))`` (second
opinion: Richardson-extrapolated central differences) and Euler's identity
``sum_j x_j dg/dx_j = 0``; row sums and preserved proportions for ``normalize_rows``.
"""
from __future__ import annotations

import numpy as np

PROP = "C42"
N = {"quick": 3000, "thorough": 200000}
WORKERS = {"quick": 4, "thorough": 16}
TIMEOUT = {"quick": 600, "thorough": 3000}
RULE = ("seeded cases of three kinds. saturations: 2-5 phases, 1-8 columns, fractions on the "
        "simplex (Dirichlet with concentration 0.2/1/5, the last entry closes the sum), per "
        "column optionally vanished phases (y = 0 exactly), one saturated phase (y = 1 "
        "exactly), near-vanishing phases (1e-6 <= y <= 1e-3, i.e. well above eps = 1e-10), "
        "equal densities; densities log-uniform in [0.1, 1e3]; non-zero fractions stay >= 1e-6 "
        "so that the documented eps-threshold of the solver is not in play. chainrule: 0-3 "
        "leading variables, 1-5 components, 1-6 columns, extended fractions in [0.02, 1.5] "
        "(not normalised), analytic f with known gradient. normalize: 1-6 x 1-6 positive "
        "arrays in C, Fortran and strided layout. non-trivial = at least 2 phases/components "
        "with at least one column that is neither saturated nor single-phase; distinct = "
        "case hash")
REACH = [
    ("compositional/utils.py", "compute_saturations"),
    ("compositional/utils.py", "chainrule_fractional_derivatives"),
]
REACH_LINES = [
    ("compositional/utils.py", "s = _compute_saturations_parallel(y, rho, eps)"),
    ("compositional/utils.py", "s = _compute_saturations(y, rho, eps)"),
    ("compositional/utils.py", "df_dx = _chainrule_fractional_derivatives_parallel(df_dxn, x)"),
    ("compositional/utils.py", "df_dx = _chainrule_fractional_derivatives(df_dxn, x)"),
]
REQUIRED = {
    "saturation_columns": 200, "saturation_columns:2-phase": 20,
    "saturation_columns:3+-phase": 50, "saturation_columns:vanished": 10,
    "saturation_columns:saturated": 10, "saturation_scalar_calls": 50,
    "chainrule_columns": 100, "chainrule_scalar_calls": 30, "normalize_rows_calls": 20,
    "rejections_checked": 4,
}
ASSUMPTIONS = [
    "the numba kernels (_compute_saturations, _chainrule_fractional_derivatives, "
    "normalize_rows) are compiled code: their execution is observed through the python "
    "entry points (reach) and through monitor counters, not by sys.monitoring",
    "fractions in (0, 1e-6) or within 1e-6 of 1 are not generated: the solver documents an "
    "eps threshold (1e-10) below which a phase counts as vanished / saturated",
    "tolerances: 1e-9 absolute on saturations (observed floor 3.5e-13 on 8e5 columns); back-substituted fractions relative to "
    "max(rho)/sum(rho s) (a saturation error of one ulp is amplified by the density ratio); "
    "chain rule 1e-10 relative to max|df/dxn| / min(1, sum x)",
]
LEVEL_TEXT = ("Reference-model monitor: saturations, chain-rule derivatives and row "
              "normalisation returned by the real functions are compared with closed forms and "
              "a complex-step derivative of the composed function on every generated input, "
              "through both the vectorised and the scalar entry point.")
TECHNIQUE = "closed-form / complex-step oracle on generated simplex points"
TOL_S = 1e-9
TOL_D = 1e-10

# ----------------------------------------------------------------------------- generators


def _simplex_column(rng, n, kind):
    """One column of fractions; returns (y, label)."""
    conc = float(rng.choice([0.2, 1.0, 5.0]))
    if kind == "saturated":
        y = np.zeros(n)
        y[int(rng.integers(n))] = 1.0
        return y
    present = np.ones(n, dtype=bool)
    if kind == "vanished" and n >= 2:
        nv = int(rng.integers(1, n - 1)) if n > 2 else 1
        present[rng.permutation(n)[:nv]] = False
    idx = np.flatnonzero(present)
    if idx.size == 1:
        y = np.zeros(n)
        y[idx[0]] = 1.0
        return y
    for _ in range(50):
        w = rng.dirichlet(np.full(idx.size, conc))
        if kind == "near" and idx.size >= 2:
            j = int(rng.integers(idx.size))
            w = w * (1 - 1e-3)
            w[j] = 10.0 ** rng.uniform(-6, -3)
        # the last present entry closes the sum
        w[-1] = 0.0
        w[-1] = 1.0 - w.sum()
        if np.all(w >= 1e-6) and np.all(w <= 1 - 1e-6):
            break
    else:
        w = np.full(idx.size, 1.0 / idx.size)
        w[-1] = 1.0 - w[:-1].sum()
    perm = rng.permutation(idx.size)
    y = np.zeros(n)
    y[idx] = w[perm]
    return y


def _sat_case(rng, n=None, M=None, kinds=None):
    n = int(rng.integers(2, 6)) if n is None else n
    M = int(rng.integers(1, 9)) if M is None else M
    if kinds is None:
        kinds = [str(rng.choice(["generic", "generic", "generic", "vanished", "saturated",
                                 "near"])) for _ in range(M)]
    y = np.array([_simplex_column(rng, n, k) for k in kinds]).T
    rho = 10.0 ** rng.uniform(-1, 3, size=(n, M))
    u = rng.random()
    if u < 0.1:
        rho[:] = rho[0, 0]
    elif u < 0.2:
        rho[:] = rho[:, [0]]
    eps = None if rng.random() < 0.8 else float(10.0 ** rng.uniform(-12, -8))
    return {"kind": "saturation", "y": y.tolist(), "rho": rho.tolist(), "eps": eps}


def _chain_case(rng, n_lead=None, nc=None, M=None):
    n_lead = int(rng.integers(0, 4)) if n_lead is None else n_lead
    nc = int(rng.integers(1, 6)) if nc is None else nc
    M = int(rng.integers(1, 7)) if M is None else M
    nz = n_lead + nc
    x = rng.uniform(0.02, 1.5, size=(nc, M))
    if rng.random() < 0.2:
        x = x / x.sum(axis=0)          # already normalised
    lead = rng.uniform(-1.0, 1.0, size=(n_lead, M))
    B = rng.normal(size=(nz, nz))
    return {"kind": "chainrule", "x": x.tolist(), "lead": lead.tolist(),
            "a": rng.normal(size=nz).tolist(), "B": (0.5 * (B + B.T)).tolist(),
            "c": (0.7 * rng.normal(size=nz)).tolist()}


def _norm_case(rng):
    n, m = int(rng.integers(1, 7)), int(rng.integers(1, 7))
    x = 10.0 ** rng.uniform(-6, 3, size=(n, m))
    if rng.random() < 0.2:
        x[rng.random(x.shape) < 0.3] = 0.0
        x[:, 0] = np.maximum(x[:, 0], 1e-3)    # no all-zero row
    if rng.random() < 0.2:
        # rows of tiny (or huge) overall magnitude: trace fractions of an almost vanished
        # phase; normalisation is scale invariant, absolute guards are not
        x = x * 10.0 ** rng.choice([-30.0, -20.0, -14.0, 12.0], size=(n, 1))
    return {"kind": "normalize", "x": x.tolist(),
            "layout": str(rng.choice(["C", "F", "strided"]))}


def floor(tier):
    rng = np.random.default_rng(4242)
    out = []
    for n in (2, 3, 4, 5):
        out.append(_sat_case(rng, n, 6, ["generic", "vanished", "saturated", "near",
                                         "generic", "generic"]))
        out.append(_sat_case(rng, n, 1, ["generic"]))
    out.append({"kind": "saturation", "y": [[0.5], [0.5]], "rho": [[1.0], [1.0]], "eps": None})
    out.append({"kind": "saturation", "y": [[0.25, 1.0, 0.0], [0.75, 0.0, 1.0]],
                "rho": [[1000.0, 1000.0, 1000.0], [1.0, 1.0, 1.0]], "eps": None})
    out.append({"kind": "saturation", "y": [[0.2, 0.0, 0.0], [0.3, 0.5, 0.0], [0.5, 0.5, 1.0]],
                "rho": [[1.0, 2.0, 3.0], [10.0, 20.0, 30.0], [100.0, 200.0, 300.0]],
                "eps": None})
    out.append({"kind": "saturation", "y": [[1.0]], "rho": [[5.0]], "eps": None})   # 1 phase
    out.append({"kind": "saturation-reject", "what": "two-saturated"})
    out.append({"kind": "saturation-reject", "what": "shape"})
    for n_lead, nc, M in [(0, 1, 1), (0, 3, 4), (2, 2, 3), (3, 5, 6), (1, 4, 1)]:
        out.append(_chain_case(rng, n_lead, nc, M))
    out.append({"kind": "chainrule-reject", "what": "too-few-rows"})
    out.append({"kind": "chainrule-reject", "what": "columns"})
    for _ in range(4):
        out.append(_norm_case(rng))
    return out


def generate(rng, tier, i):
    u = rng.random()
    if u < 0.6:
        return _sat_case(rng)
    if u < 0.9:
        return _chain_case(rng)
    return _norm_case(rng)


# ----------------------------------------------------------------------------- oracles


def _check_saturation(case, mon):
    from porepy.compositional.utils import compute_saturations
    y = np.asarray(case["y"], dtype=float)
    rho = np.asarray(case["rho"], dtype=float)
    n, M = y.shape
    kw = {} if case.get("eps") is None else {"eps": float(case["eps"])}
    y_in, rho_in = y.copy(), rho.copy()
    s = np.asarray(compute_saturations(y_in, rho_in, **kw))
    mon.count("saturation_vector_calls")
    mon.count("saturation_columns", M)
    mon.count("saturation_columns:2-phase" if n == 2 else
              ("saturation_columns:3+-phase" if n > 2 else "saturation_columns:1-phase"), M)
    if not (np.array_equal(y_in, y) and np.array_equal(rho_in, rho)):
        mon.violation("saturation:mutates-input", {})
    if s.shape != y.shape:
        mon.violation("saturation:shape", {"got": list(s.shape), "want": list(y.shape)})
        return
    sat_col = np.any(y == 1.0, axis=0)
    van_col = np.any(y == 0.0, axis=0) & ~sat_col
    mon.count("saturation_columns:saturated", int(sat_col.sum()))
    mon.count("saturation_columns:vanished", int(van_col.sum()))
    mon.count("saturation_columns:near-vanishing",
              int(np.sum(np.any((y > 0) & (y < 1e-3), axis=0))))
    mon.klass(f"saturation:{n}-phase")
    mon.nontrivial(n >= 2 and bool(np.any(~sat_col)))

    ref = (y / rho) / np.sum(y / rho, axis=0)
    if not np.all(np.isfinite(s)):
        mon.violation("saturation:not-finite", {"y": y.tolist(), "rho": rho.tolist()})
        return
    # (a) non-negative, (b) unity
    mon.measure("saturation_min", float(s.min()))
    if np.any(s < -TOL_S):
        k = int(np.argmin(s.min(axis=0)))
        mon.violation("saturation:negative", {"s": s[:, k].tolist(), "y": y[:, k].tolist(),
                                              "rho": rho[:, k].tolist()})
    mon.close("saturation_unity", s.sum(axis=0), np.ones(M), TOL_S, "saturation:sum-not-one",
              scale=1.0)
    # (c) back-substitution reproduces the fractions
    dens = np.sum(rho * s, axis=0)
    yb = rho * s / dens
    amp = np.max(rho, axis=0) / dens
    mon.close("saturation_reproduces_fractions", (yb - y) / amp, np.zeros_like(y), TOL_S,
              "saturation:does-not-reproduce-fractions", scale=1.0,
              detail={"n": n})
    # (d) closed form
    mon.close("saturation_closed_form", s, ref, TOL_S, "saturation:differs-from-closed-form",
              scale=1.0, detail={"n": n})
    # (e) vanished / saturated phases exactly
    if np.any(s[y == 0.0] != 0.0):
        mon.violation("saturation:vanished-phase-has-saturation", {"n": n})
    if np.any(s[y == 1.0] != 1.0):
        mon.violation("saturation:saturated-phase-not-one", {"n": n})
    # (f) scalar entry point, column by column
    for k in range(M):
        sk = np.asarray(compute_saturations(y[:, k].copy(), rho[:, k].copy(), **kw))
        mon.count("saturation_scalar_calls")
        if sk.shape != (n,):
            mon.violation("saturation:scalar-shape", {"got": list(sk.shape)})
            continue
        mon.close("saturation_scalar_vs_vector", sk, s[:, k], 1e-13,
                  "saturation:scalar-differs-from-vectorised", scale=1.0)
        mon.close("saturation_scalar_closed_form", sk, ref[:, k], TOL_S,
                  "saturation:differs-from-closed-form", scale=1.0,
                  detail={"n": n, "entry": "scalar"})
    # column order must not matter (each column is an independent problem)
    if M > 1:
        p = np.random.default_rng(M * 7919 + n).permutation(M)
        sp = np.asarray(compute_saturations(y[:, p].copy(), rho[:, p].copy(), **kw))
        mon.close("saturation_column_permutation", sp, s[:, p], 1e-13,
                  "saturation:columns-not-independent", scale=1.0)


def _check_saturation_reject(case, mon):
    from porepy.compositional.utils import compute_saturations
    mon.klass("saturation-reject:" + case["what"])
    mon.count("rejections_checked")
    if case["what"] == "two-saturated":
        args = (np.array([[1.0, 0.5], [1.0, 0.5]]), np.ones((2, 2)))
    else:
        args = (np.array([[0.5, 0.5], [0.5, 0.5]]), np.ones((2, 3)))
    try:
        compute_saturations(*args)
    except ValueError:
        mon.count("rejections_valueerror")
        return
    mon.violation("saturation:inadmissible-input-accepted", {"what": case["what"]})


class _F:
    """f(z) = a.z + 1/2 z.B z + exp(c.z) + log(1 + z.z), analytic, complex-safe."""

    def __init__(self, a, B, c):
        self.a, self.B, self.c = (np.asarray(v, dtype=float) for v in (a, B, c))

    def val(self, z):
        return self.a @ z + 0.5 * (z @ (self.B @ z)) + np.exp(self.c @ z) + np.log(1 + z @ z)

    def grad(self, z):
        return self.a + self.B @ z + self.c * np.exp(self.c @ z) + 2 * z / (1 + z @ z)

    def composed(self, lead, x):
        return self.val(np.concatenate([lead, x / np.sum(x)]))


def _check_chainrule(case, mon):
    from porepy.compositional.utils import chainrule_fractional_derivatives
    x = np.asarray(case["x"], dtype=float)
    nc, M = x.shape
    lead = np.asarray(case["lead"], dtype=float).reshape(-1, M)
    n_lead = lead.shape[0]
    nz = n_lead + nc
    f = _F(case["a"], case["B"], case["c"])
    xn = x / x.sum(axis=0)
    df_dxn = np.array([f.grad(np.concatenate([lead[:, k], xn[:, k]])) for k in range(M)]).T
    mon.klass(f"chainrule:comp={nc}")
    mon.count(f"chainrule_leading_variables={n_lead}")
    mon.nontrivial(nc >= 2)
    mon.count("chainrule_columns", M)

    # references: complex step (exact to round-off) and Richardson central differences
    want = np.zeros((nz, M))
    fd = np.zeros((nz, M))
    hc = 1e-30
    for k in range(M):
        v0 = np.concatenate([lead[:, k], x[:, k]])
        for j in range(nz):
            v = v0.astype(complex)
            v[j] += 1j * hc
            want[j, k] = f.composed(v[:n_lead], v[n_lead:]).imag / hc

            def cd(hh):
                vp, vm = v0.copy(), v0.copy()
                vp[j] += hh
                vm[j] -= hh
                return (f.composed(vp[:n_lead], vp[n_lead:])
                        - f.composed(vm[:n_lead], vm[n_lead:])) / (2 * hh)
            hh = 1e-3 * max(1e-2, abs(v0[j]))
            fd[j, k] = (4 * cd(hh / 2) - cd(hh)) / 3
    scale = max(1.0, float(np.max(np.abs(df_dxn)))) / min(1.0, float(np.min(x.sum(axis=0))))
    if np.max(np.abs(want - fd)) > 1e-5 * scale:
        mon.inconclusive("complex-step and central-difference references disagree: "
                         f"{np.max(np.abs(want - fd)) / scale:.3e}")
        return
    mon.measure("chainrule_reference_gap", float(np.max(np.abs(want - fd)) / scale))

    inp, xin = df_dxn.copy(), x.copy()
    got = np.asarray(chainrule_fractional_derivatives(inp, xin))
    mon.count("chainrule_vector_calls")
    if not (np.array_equal(inp, df_dxn) and np.array_equal(xin, x)):
        mon.violation("chainrule:mutates-input", {})
    if got.shape != df_dxn.shape:
        mon.violation("chainrule:shape", {"got": list(got.shape), "want": list(df_dxn.shape)})
        return
    mon.close("chainrule_vs_complex_step", got, want, TOL_D,
              "chainrule:differs-from-derivative-of-composed-function", scale=scale,
              detail={"n_lead": n_lead, "ncomp": nc})
    if n_lead and not np.array_equal(got[:n_lead], df_dxn[:n_lead]):
        mon.violation("chainrule:leading-derivatives-changed", {"n_lead": n_lead})
    # Euler: g is homogeneous of degree 0 in x
    mon.close("chainrule_euler_identity", np.sum(got[n_lead:] * x, axis=0), np.zeros(M),
              TOL_D, "chainrule:euler-identity", scale=scale * float(np.max(x)))
    for k in range(M):
        gk = np.asarray(chainrule_fractional_derivatives(df_dxn[:, k].copy(), x[:, k].copy()))
        mon.count("chainrule_scalar_calls")
        if gk.shape != (nz,):
            mon.violation("chainrule:scalar-shape", {"got": list(gk.shape)})
            continue
        mon.close("chainrule_scalar_vs_vector", gk, got[:, k], 1e-13,
                  "chainrule:scalar-differs-from-vectorised", scale=scale)
        mon.close("chainrule_scalar_vs_complex_step", gk, want[:, k], TOL_D,
                  "chainrule:differs-from-derivative-of-composed-function", scale=scale,
                  detail={"entry": "scalar"})


def _check_chainrule_reject(case, mon):
    from porepy.compositional.utils import chainrule_fractional_derivatives
    mon.klass("chainrule-reject:" + case["what"])
    mon.count("rejections_checked")
    if case["what"] == "too-few-rows":
        args = (np.ones((2, 3)), np.ones((3, 3)))
    else:
        args = (np.ones((4, 3)), np.ones((3, 2)))
    try:
        chainrule_fractional_derivatives(*args)
    except ValueError:
        mon.count("rejections_valueerror")
        return
    mon.violation("chainrule:inadmissible-input-accepted", {"what": case["what"]})


def _check_normalize(case, mon):
    from porepy.compositional.utils import normalize_rows
    x = np.asarray(case["x"], dtype=float)
    n, m = x.shape
    lay = case.get("layout", "C")
    if lay == "F":
        arg = np.asfortranarray(x)
    elif lay == "strided":
        big = np.zeros((2 * n, 2 * m))
        big[::2, ::2] = x
        arg = big[::2, ::2]
    else:
        arg = np.ascontiguousarray(x)
    keep = arg.copy()
    got = np.asarray(normalize_rows(arg))
    mon.count("normalize_rows_calls")
    mon.count("normalize_rows_rows", n)
    mon.klass(f"normalize:{lay}")
    mon.nontrivial(m >= 2)
    if not np.array_equal(arg, keep):
        mon.violation("normalize:mutates-input", {})
    if got.shape != x.shape:
        mon.violation("normalize:shape", {"got": list(got.shape), "want": list(x.shape)})
        return
    mon.close("normalize_row_sums", got.sum(axis=1), np.ones(n), 1e-13,
              "normalize:rows-do-not-sum-to-one", scale=1.0)
    mon.close("normalize_proportions", got, x / x.sum(axis=1, keepdims=True), 1e-13,
              "normalize:proportions-changed", scale=1.0)
    if np.any(got < 0):
        mon.violation("normalize:negative", {})


def check(case, mon):
    kind = case["kind"]
    if kind == "saturation":
        _check_saturation(case, mon)
    elif kind == "saturation-reject":
        _check_saturation_reject(case, mon)
    elif kind == "chainrule":
        _check_chainrule(case, mon)
    elif kind == "chainrule-reject":
        _check_chainrule_reject(case, mon)
    else:
        _check_normalize(case, mon)


def warmup():
    """Compile / load the numba kernels before reach counting and case timeouts.  Failures
    are left to the cases (a warm-up must not take the worker down)."""
    from porepy.compositional.utils import (chainrule_fractional_derivatives,
                                            compute_saturations, normalize_rows)
    calls = [
        lambda: compute_saturations(np.array([[0.5], [0.5]]), np.ones((2, 1))),
        lambda: compute_saturations(np.array([0.2, 0.3, 0.5]), np.ones(3)),
        lambda: chainrule_fractional_derivatives(np.ones((2, 1)), np.ones((2, 1))),
        lambda: chainrule_fractional_derivatives(np.ones(2), np.ones(2)),
        lambda: normalize_rows(np.ones((2, 2))),
    ]
    for c in calls:
        try:
            c()
        except Exception:  # noqa: BLE001
            pass
