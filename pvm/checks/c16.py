"""C16 TPSA is invariant under rigid translations.

Monitor: ``Tpsa.discretize`` runs on a generated (grid, Lame parameters, boundary type
assignment); the discretization matrices are read from the data dictionary, applied to a
uniform displacement with matching boundary data, and assembled into the block system
exactly as the class documentation (and tests/numerics/fv/test_tpsa.py) prescribes:

    A = div @ [[stress, stress_rotation, stress_total_pressure],
               [rotation_displacement, rotation_rotation, 0],
               [solid_mass_displacement, 0, solid_mass_total_pressure]] - accum
    b = - div @ [bound_stress; bound_rotation_displacement; bound_mass_displacement] @ bc

Oracle: stress == 0 on every face; x = (t in every cell, 0, 0) has zero residual in every
block row and is what a dense solve of A x = b returns.
"""
from __future__ import annotations

import numpy as np
import scipy.sparse as sps

from pvm.gen import grids as gg
from pvm.gen import c13_mech as mech

PROP = "C16"
N = {"quick": 60, "thorough": 3000}
WORKERS = {"quick": 4, "thorough": 16}
TIMEOUT = {"quick": 300, "thorough": 3000}
RULE = ("seeded 2-D/3-D grid recipes (Cartesian / tensor / triangles / Delaunay / mixed "
        "polygons / tetrahedra / prisms; perturbed, affine), constant (mu, lambda), "
        "translation vector (random, axis-aligned, single component negative/large), "
        "boundary types: all Dirichlet | per-face Dirichlet / zero-traction Neumann mix | "
        "per-component mix (rolling), dim+1 fully Dirichlet faces kept where the grid has "
        "that many; non-trivial = >= 2 cells; distinct = case hash")
REACH = [
    ("numerics/fv/tpsa.py", "Tpsa.discretize"),
    ("numerics/fv/tpsa.py", "Tpsa._create_filters"),
    ("numerics/fv/tpsa.py", "Tpsa._compute_distances"),
    ("numerics/fv/tpsa.py", "Tpsa._create_cell_to_face_maps"),
    ("numerics/fv/tpsa.py", "Tpsa._vector_laplace_matrices"),
    ("numerics/fv/tpsa.py", "Tpsa._create_numbering"),
]
REACH_LINES = [
    ("numerics/fv/tpsa.py", "trm_nd[neu_faces] = 0"),
    ("numerics/fv/tpsa.py", "Rn_bar = Rn_hat"),
    ("numerics/fv/tpsa.py", "normal_vector_data = np.array([n[1], -n[0]])"),
]
REQUIRED = {"discretizations": 30, "faces_stress_checked": 1000, "systems_solved": 30,
            "cells_solution_checked": 400, "cases_3d": 8, "cases_bc_dir": 5,
            "cases_bc_face": 5, "cases_bc_comp": 5}
ASSUMPTIONS = [
    "block system assembled as in the Tpsa class documentation / test_tpsa.py "
    "(accumulation: volume/mu on rotations, volume/lambda on solid pressure)",
    "Neumann data consistent with a translation are zero tractions",
    "2-D grids lie in the xy-plane; constant Lame parameters (statement)",
    "dense solve (<= 7 * 60 unknowns); tolerance of the solve comparison is "
    "1e-14 * max(cond, 1e5); systems with cond > 1e7 (two-point scheme with too few "
    "Dirichlet faces is singular on orthogonal grids) are excluded from the solve "
    "comparison, the residual of the translation state is asserted for them as well",
]
LEVEL_TEXT = ("TPSA stress is zero for uniform displacements with matching boundary data, "
              "and the documented block system returns the translation with zero rotation "
              "and zero solid pressure, on sampled 2-D/3-D grids with Dirichlet, per-face "
              "and per-component Dirichlet/zero-Neumann boundary assignments.")
TECHNIQUE = "matrix application + dense solve of the documented block system"
TOL = 1e-9
COND_MAX = 1e7
KW = "mechanics"


def _case(recipe, mu, lam, t, mode, neu_faces=(), neu_comp=()):
    return {"grid": recipe, "mu": float(mu), "lam": float(lam),
            "t": [float(v) for v in t], "bc_mode": mode,
            "neu_faces": [int(f) for f in neu_faces],
            # per-component Neumann flags: list of [face, component]
            "neu_comp": [[int(f), int(d)] for f, d in neu_comp]}


def _keep(g, rng):
    """Boundary faces that stay fully Dirichlet: dim + 1 of them (all if fewer exist
    minus one), so that the two-point system is normally non-singular."""
    bf = mech.boundary_faces(g)
    k = min(g.dim + 1, max(1, bf.size - 1))
    return set(int(f) for f in rng.choice(bf, size=k, replace=False))


def _pick_faces(g, rng, frac):
    bf = mech.boundary_faces(g)
    keep = _keep(g, rng)
    m = rng.random(bf.size) < frac
    return [int(f) for f, mm in zip(bf, m) if mm and int(f) not in keep]


def _pick_comp(g, rng, frac):
    bf = mech.boundary_faces(g)
    keep = _keep(g, rng)
    out = []
    for f in bf:
        if int(f) in keep:
            continue
        for d in range(g.dim):
            if rng.random() < frac:
                out.append((int(f), d))
    return out


def floor(tier):
    out = []
    rng = np.random.default_rng(16)
    ts = [[1.0, -2.0, 3.0], [1.0, 0.0, 0.0], [0.0, 1.0, 0.0], [0.0, 0.0, 1.0],
          [-0.3, 0.7, 0.2], [1e3, 1e3, -1e3], [1e-4, 0.0, 2e-4]]
    for k, r in enumerate(gg.floor_recipes(dims=(2, 3), rigid=False)):
        g = gg.build(r)
        t = list(ts[k % len(ts)])
        if r["dim"] == 2:
            t[2] = 0.0
            if not any(t[:2]):
                t[0] = 1.0
        out.append(_case(r, 1.0 + 0.2 * k, 0.5 + 0.4 * (k % 4), t, "dir"))
        out.append(_case(r, 0.6 + 0.1 * k, 3.0 - 0.15 * k, t, "face",
                         neu_faces=_pick_faces(g, rng, 0.5)))
        out.append(_case(r, 2.0, 0.3 + 0.1 * k, t, "comp",
                         neu_comp=_pick_comp(g, rng, 0.5)))
    return out


def generate(rng, tier, i):
    three = rng.random() < 0.45
    r = gg.random_recipe(rng, dims=(3,) if three else (2,),
                         max_cells=60 if tier == "quick" else 110)
    nd = r["dim"]
    g = gg.build(r)
    kind = rng.choice(["random", "axis", "mixed-scale"], p=[0.6, 0.25, 0.15])
    if kind == "random":
        t = rng.normal(size=3)
    elif kind == "axis":
        t = np.zeros(3)
        t[int(rng.integers(0, nd))] = rng.choice([-1.0, 1.0]) * rng.uniform(0.1, 10.0)
    else:
        t = rng.normal(size=3) * 10.0 ** rng.integers(-3, 4, size=3)
    t = np.round(t, 6)
    if nd == 2:
        t[2] = 0.0
    if not np.any(t[:nd] != 0):
        t[0] = 1.0
    mu = np.round(rng.uniform(0.3, 3.0), 4)
    lam = np.round(rng.uniform(0.2, 4.0), 4)
    mode = str(rng.choice(["dir", "face", "comp"], p=[0.25, 0.4, 0.35]))
    if mode == "face":
        return _case(r, mu, lam, t, mode,
                     neu_faces=_pick_faces(g, rng, float(rng.choice([0.2, 0.5, 0.85]))))
    if mode == "comp":
        return _case(r, mu, lam, t, mode,
                     neu_comp=_pick_comp(g, rng, float(rng.choice([0.2, 0.5, 0.85]))))
    return _case(r, mu, lam, t, mode)


def check(case, mon):
    import porepy as pp

    r = case["grid"]
    g = gg.build(r)
    nd, nc, nf = g.dim, g.num_cells, g.num_faces
    mu, lam = float(case["mu"]), float(case["lam"])
    t = np.asarray(case["t"], dtype=float)
    bf = mech.boundary_faces(g)
    bc = pp.BoundaryConditionVectorial(g, bf, ["dir"] * bf.size)
    mode = case["bc_mode"]
    bfset = set(bf.tolist())
    C = pp.FourthOrderTensor(mu * np.ones(nc), lam * np.ones(nc))
    data = {pp.PARAMETERS: {KW: {"fourth_order_tensor": C, "bc": bc}},
            pp.DISCRETIZATION_MATRICES: {KW: {}}}
    discr = pp.Tpsa(KW)
    if (case.get("neu_faces") or case.get("neu_comp")) and (nc + nf) % 2 == 0:
        # the same Tpsa object and data dictionary are first used with the all-Dirichlet
        # state of this boundary-condition OBJECT, whose types are then changed in place:
        # the second discretization must follow the new types everywhere
        discr.discretize(g, data)
        mon.count("rediscretized_after_bc_changed_in_place")
    for f in case.get("neu_faces", []):
        if f not in bfset:
            mon.excluded("Neumann face index is not a boundary face")
            return
        bc.is_dir[:, f] = False
        bc.is_neu[:, f] = True
    for f, d in case.get("neu_comp", []):
        if f not in bfset or not (0 <= d < nd):
            mon.excluded("Neumann face index is not a boundary face")
            return
        bc.is_dir[d, f] = False
        bc.is_neu[d, f] = True
    if not np.any(np.all(bc.is_dir[:, bf], axis=0)):
        mon.excluded("no fully Dirichlet face (translation not determined)")
        return
    n_neu_rows = int(bc.is_neu[:, bf].sum())

    discr.discretize(g, data)
    M = data[pp.DISCRETIZATION_MATRICES][KW]

    mon.count("discretizations")
    mon.count("cases_3d" if nd == 3 else "cases_2d")
    mon.count(f"cases_bc_{mode}")
    mon.count("neumann_component_rows", n_neu_rows)
    mon.klass(f"{r['kind']}{nd}d" + ("+perturb" if r.get("perturb") else "")
              + ("+affine" if r.get("affine") is not None else "") + f"/{mode}")
    nz = np.flatnonzero(t[:nd])
    mon.klass("t:axis" if nz.size == 1 else "t:general")
    mon.nontrivial(nc >= 2)

    # boundary data consistent with the translation: u = t on Dirichlet rows, zero
    # traction on Neumann rows
    bcv = np.zeros((nd, nf))
    for d in range(nd):
        bcv[d, bc.is_dir[d]] = t[d]
    b_bc = bcv.ravel("F")
    uc = np.tile(t[:nd], nc)
    tmax = float(np.max(np.abs(t[:nd])))
    amax = float(np.max(g.face_areas))
    h = float(np.min(g.cell_volumes)) ** (1.0 / nd)

    # (1) zero stress on every face
    st = M[discr.stress_displacement_matrix_key] @ uc + M[discr.bound_stress_matrix_key] @ b_bc
    mon.close("stress_translation", st, np.zeros_like(st), TOL, "nonzero-stress-for-translation",
              scale=2 * mu * amax * tmax / h, detail={"bc": mode})
    mon.count("faces_stress_checked", nf)

    # (2) block system as documented
    rot_dim = 3 if nd == 3 else 1
    nrf, nrc = nf * rot_dim, nc * rot_dim
    face_discr = sps.bmat([
        [M[discr.stress_displacement_matrix_key], M[discr.stress_rotation_matrix_key],
         M[discr.stress_total_pressure_matrix_key]],
        [M[discr.rotation_displacement_matrix_key], M[discr.rotation_rotation_matrix_key],
         sps.csr_matrix((nrf, nc))],
        [M[discr.mass_displacement_matrix_key], sps.csr_matrix((nf, nrc)),
         M[discr.mass_total_pressure_matrix_key]]], format="csr")
    rhs_matrix = sps.bmat([[M[discr.bound_stress_matrix_key]],
                           [M[discr.bound_rotation_displacement_matrix_key]],
                           [M[discr.bound_mass_displacement_matrix_key]]], format="csr")
    div = sps.block_diag([g.divergence(dim=nd), g.divergence(dim=rot_dim),
                          g.divergence(dim=1)], format="csr")
    accum = sps.block_diag([
        sps.csr_matrix((nc * nd, nc * nd)),
        sps.dia_matrix((np.repeat(g.cell_volumes / C.mu, rot_dim), 0), shape=(nrc, nrc)),
        sps.dia_matrix((g.cell_volumes / C.lmbda, 0), shape=(nc, nc))], format="csr")
    A = (div @ face_discr - accum).toarray()
    b = -(div @ (rhs_matrix @ b_bc))
    x_exact = np.concatenate([uc, np.zeros(nrc + nc)])

    # residual of the exact state, per block row, relative to the size of the terms
    res = A @ x_exact - b
    absA = np.abs(A) @ np.abs(x_exact) + np.abs(b)
    rscale = float(max(np.max(absA), 1e-300))
    blocks = {"momentum": slice(0, nc * nd), "rotation": slice(nc * nd, nc * nd + nrc),
              "solid-mass": slice(nc * nd + nrc, nc * nd + nrc + nc)}
    for name, sl in blocks.items():
        mon.close(f"residual_{name}", res[sl], np.zeros_like(res[sl]), TOL,
                  f"translation-not-a-solution:{name}-balance", scale=rscale,
                  detail={"bc": mode})

    # dense solve
    cond = float(np.linalg.cond(A))
    mon.measure("condition_number_log10", np.log10(cond) if np.isfinite(cond) and cond > 0
                else 99.0)
    if not np.isfinite(cond) or cond > COND_MAX:
        # two-point scheme with (nearly) no Dirichlet faces: the system is numerically
        # singular; the statement presupposes a solvable system.  The zero residual of
        # the translation state (above) is still asserted.
        mon.excluded("block system numerically singular (cond > 1e7): solve not compared")
        mon.count("systems_singular_not_solved")
        return
    tol_solve = 1e-14 * max(cond, 1e5)
    x = np.linalg.solve(A, b)
    mon.count("systems_solved")
    u = x[:nc * nd].reshape((nd, nc), order="F")
    mon.close("solve_displacement", u, np.tile(t[:nd, None], (1, nc)), tol_solve,
              "solve-displacement-not-translation", scale=tmax, detail={"bc": mode})
    # rotation ~ grad u, solid pressure ~ lambda div u: natural scales |t| / h
    mon.close("solve_rotation", x[blocks["rotation"]], np.zeros(nrc), tol_solve,
              "solve-rotation-nonzero", scale=mu * tmax / h, detail={"bc": mode})
    mon.close("solve_solid_pressure", x[blocks["solid-mass"]], np.zeros(nc), tol_solve,
              "solve-solid-pressure-nonzero", scale=(lam + mu) * tmax / h,
              detail={"bc": mode})
    mon.count("cells_solution_checked", nc)
