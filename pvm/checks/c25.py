"""C25 Fractured mixed-dimensional grids are geometrically conforming.

Monitor: after meshing a generated fracture network into a ``MixedDimensionalGrid`` the
result is read at the public boundary (``face_cells`` of every interface, tags, geometry
of all grids, mortar side grids) and decided against the *network geometry* of the recipe
(invariant monitor at a quiescent point; oracle = exact lattice geometry of the network:
which fracture a grid lies on, whether a lower-dimensional cell is in the interior or on
the boundary of the fracture hosting it, fracture and domain measures).
"""
from __future__ import annotations

import numpy as np
import scipy.sparse as sps

import porepy as pp

from pvm.gen import mdg as gm
from pvm.ref.c25_geometry import Network

PROP = "C25"
N = {"quick": 45, "thorough": 2500}
WORKERS = {"quick": 4, "thorough": 16}
TIMEOUT = {"quick": 300, "thorough": 1800}
CASE_TIMEOUT = 120.0
RULE = ("networks from pvm.gen.mdg: 2-D boxes with 0-4 lattice line fractures (axis-aligned "
        "for Cartesian, arbitrary for simplex; isolated, X, T, L, touching the boundary, "
        "several fractures through one point), 3-D boxes with 0-3 axis-aligned rectangles "
        "(Cartesian and simplex), two mesh sizes, plus the library geometries "
        "square/cube_with_orthogonal_fractures, seven_fractures_one_L_intersection, "
        "benchmark_regular_2d; collinear-overlapping fractures are not generated (the mesher "
        "rejects them); non-trivial = at least one interface; distinct = recipe hash")
REACH = [
    ("fracs/meshing.py", "_assemble_mdg"),
    ("fracs/meshing.py", "create_interfaces"),
    ("fracs/split_grid.py", "split_fractures"),
    ("fracs/split_grid.py", "split_faces"),
    ("fracs/split_grid.py", "split_nodes"),
    ("fracs/structured.py", "_cart_grid_2d"),
    ("fracs/structured.py", "_cart_grid_3d"),
    ("grids/mdg_generation.py", "create_mdg"),
]
REACH_LINES = [
    ("fracs/meshing.py", "side_g = {mortar_sides.LEFT_SIDE: sd_secondary.copy()}"),
]
REQUIRED = {"networks_checked": 20, "interfaces_checked": 30, "lower_cells_two_faces": 100,
            "lower_cells_one_face": 5, "coupled_faces_checked": 200, "mortar_sides_checked": 40,
            "paired_faces_node_checks": 100, "tip_nodes_shared": 5,
            "class:X": 2, "class:T": 2, "class:L": 1, "hosts_volume_checked": 20}
ASSUMPTIONS = [
    "fractures lie on an integer lattice inside the box (library geometries: their published "
    "coordinates); distances below 1e-8 count as 'on', the lattice keeps every other distance "
    "above 1e-3",
    "the expected number of coupled faces of a lower-dimensional cell is decided from the "
    "network: 2 in the interior of the hosting fracture (or in the matrix), 1 on the relative "
    "boundary of the hosting fracture; for 3-D intersection lines meeting in a point, from the "
    "number of line cells that geometrically end in the point",
]
LEVEL_TEXT = ("Each meshed network is checked cell by cell: number, position, measure and "
              "orientation of the split faces coupled to every lower-dimensional cell, "
              "fracture-face tags, node splitting, measures, mortar side grids.")
TECHNIQUE = "runtime monitoring: invariant monitor against exact network geometry"
TOL_ON = 1e-8
TOL_REL = 1e-9


# --------------------------------------------------------------------------- build
def _library(recipe):
    name = recipe["library"]
    h = float(recipe.get("h", 0.25))
    if name == "square_with_orthogonal_fractures":
        if recipe["mesh"] == "cartesian":
            args = {"cell_size_x": h, "cell_size_y": h}
        else:
            args = {"cell_size": h}
        mdg, fn = pp.mdg_library.square_with_orthogonal_fractures(
            recipe["mesh"], args, list(recipe["indices"]))
    elif name == "cube_with_orthogonal_fractures":
        if recipe["mesh"] == "cartesian":
            args = {"cell_size_x": h, "cell_size_y": h, "cell_size_z": h}
        else:
            args = {"cell_size": h}
        mdg, fn = pp.mdg_library.cube_with_orthogonal_fractures(
            recipe["mesh"], args, list(recipe["indices"]))
    elif name == "seven_fractures_one_L_intersection":
        mdg, fn = pp.mdg_library.seven_fractures_one_L_intersection({"cell_size": h})
    elif name == "benchmark_regular_2d":
        mdg, fn = pp.mdg_library.benchmark_regular_2d({"cell_size": h})
    else:
        raise ValueError(name)
    mdg.compute_geometry()
    bb = fn.domain.bounding_box
    dim = 3 if "zmax" in bb else 2
    dom = [bb["xmax"], bb["ymax"]] + ([bb["zmax"]] if dim == 3 else [])
    assert bb["xmin"] == 0 and bb["ymin"] == 0
    isb = list(fn.tags.get("boundary", [])) if dim == 3 else []
    isb += [False] * (len(fn.fractures) - len(isb))
    fr = [np.asarray(f.pts, float).T[:, :dim].tolist()
          for f, b in zip(fn.fractures, isb) if not b]
    return mdg, {"dim": dim, "domain": dom, "fractures": fr, "mesh": recipe.get("mesh", "simplex")}


def _build(recipe):
    if "library" in recipe:
        return _library(recipe)
    mdg = gm.build(recipe)
    o = gm.origin(recipe)
    if np.any(o != 0):
        # the network oracle works in coordinates relative to the lower corner of the
        # domain: move the meshed grids back by the offset (geometry is recomputed by
        # the code under test; a host that does not cover [o, o + L] stays visible)
        for g in mdg.subdomains():
            g.nodes = g.nodes - o.reshape(3, 1)
            if g.dim == 0:
                g.cell_centers = g.cell_centers - o.reshape(3, 1)
        for intf in mdg.interfaces():
            for sg in intf.side_grids.values():
                sg.nodes = sg.nodes - o.reshape(3, 1)
                if sg.dim == 0:
                    sg.cell_centers = sg.cell_centers - o.reshape(3, 1)
        mdg.compute_geometry()
    return mdg, recipe


def _classes(geo):
    out = set()
    if geo["dim"] != 2:
        return out
    fr = geo["fractures"]
    for i in range(len(fr)):
        for j in range(i + 1, len(fr)):
            try:
                rel = gm.seg_relation(fr[i], fr[j])
            except Exception:  # noqa: BLE001
                continue
            if rel in ("X", "T", "L"):
                out.add(rel)
    return out


# --------------------------------------------------------------------------- check
def check(case, mon):
    recipe = case["recipe"]
    mdg, geo = _build(recipe)
    net = Network(geo)
    top = net.dim
    scale = max(net.L)
    tol = TOL_ON * scale
    mon.count("networks_checked")
    lab = recipe.get("library", f"{recipe.get('mesh')}")
    mon.klass(f"{top}d-{lab}-{net.n}frac")
    if recipe.get("origin") is not None:
        mon.klass("offset-domain")
        mon.count("offset_domains")
    for c in _classes(geo):
        mon.count(f"class:{c}")
    mon.nontrivial(len(mdg.interfaces()) >= 1)

    # ---- host: exactly one grid of the top dimension, volume == domain volume
    hosts = mdg.subdomains(dim=top)
    if len(hosts) != 1:
        mon.violation("host:not-exactly-one-top-dimensional-grid", {"n": len(hosts)})
        return
    host = hosts[0]
    mon.count("hosts_volume_checked")
    mon.close("host_volume", host.cell_volumes.sum(), net.domain_measure(), 1e-10,
              "host:volume-differs-from-domain-volume", scale=net.domain_measure())
    if not np.all(host.cell_volumes > 0):
        mon.violation("host:non-positive-cell-volume", {})

    # ---- every lower-dimensional grid lies on its fracture(s)
    support = {}
    for sd in mdg.subdomains():
        if sd.dim == top:
            continue
        pts = sd.nodes if sd.dim > 0 else sd.cell_centers
        pts = np.hstack([pts, sd.cell_centers])
        mon.count("lower_grids_checked")
        if sd.dim == top - 1:
            k = int(sd.frac_num)
            if not (0 <= k < net.n):
                mon.violation("lower-grid:fracture-number-out-of-range", {"frac_num": k})
                return
            d = net.dist(k, pts)
            mon.measure("distance_cell_to_fracture", float(d.max()))
            if d.max() > tol:
                mon.violation("lower-grid:cells-off-their-fracture",
                              {"frac": k, "dist": float(d.max())})
                return
            support[sd] = [k]
            mon.close("fracture_measure", sd.cell_volumes.sum(), net.measure(k), 1e-9,
                      "lower-grid:measure-differs-from-fracture-measure",
                      scale=net.measure(k), detail={"frac": k})
        else:
            ks = net.supporting(pts, tol)
            need = top - sd.dim
            support[sd] = ks
            if len(ks) < need:
                mon.violation("lower-grid:intersection-grid-not-on-enough-fractures",
                              {"dim": sd.dim, "on": ks, "need": need})
                return

    # ---- interfaces
    coupled = {sd: np.zeros(sd.num_faces, dtype=bool) for sd in mdg.subdomains()}
    for intf in mdg.interfaces():
        hi, lo = mdg.interface_to_subdomain_pair(intf)
        mon.count("interfaces_checked")
        mon.count(f"interfaces_{hi.dim}d_{lo.dim}d")
        if hi.dim != lo.dim + 1 or intf.codim != 1 or intf.dim != lo.dim:
            mon.violation("interface:not-codimension-one", {"hi": hi.dim, "lo": lo.dim})
            return
        fc = sps.csr_matrix(mdg.interface_data(intf)["face_cells"])
        if fc.shape != (lo.num_cells, hi.num_faces):
            mon.violation("interface:face-cells-shape", {"shape": list(fc.shape)})
            return
        ok = _check_interface(mon, net, top, tol, hi, lo, fc, support, intf, coupled)
        if not ok:
            return

    # ---- fracture-face tags == coupled faces, per host grid
    for sd in mdg.subdomains():
        tags = np.asarray(sd.tags["fracture_faces"]).ravel().astype(bool)
        mon.count("tag_vectors_checked")
        if tags.size != sd.num_faces or np.any(tags != coupled[sd]):
            mon.violation("tags:fracture-faces-differ-from-coupled-faces",
                          {"dim": sd.dim,
                           "tagged_not_coupled": np.flatnonzero(tags & ~coupled[sd])[:10],
                           "coupled_not_tagged": np.flatnonzero(~tags & coupled[sd])[:10]})
            return


def _expected_faces(net, top, tol, hi, lo, support):
    """Network decision: number of faces of ``hi`` coupled to each cell of ``lo``."""
    if hi.dim == top:
        return np.full(lo.num_cells, 2)
    if hi.dim == top - 1:
        k = int(hi.frac_num)
        d = net.boundary_dist(k, lo.cell_centers)
        return np.where(d <= tol, 1, 2)
    # 3-D, intersection line -> point: line cells that geometrically end in the point
    p = lo.cell_centers[:, [0]]
    d = np.sqrt(np.sum((hi.nodes - p) ** 2, axis=0))
    near = np.flatnonzero(d <= tol)
    cn = hi.cell_nodes()
    n_cells = int(np.unique(cn[near].tocoo().col).size)
    return np.full(lo.num_cells, n_cells)


def _check_interface(mon, net, top, tol, hi, lo, fc, support, intf, coupled):
    want = _expected_faces(net, top, tol, hi, lo, support)
    got = np.diff(fc.indptr)
    info = {"hi": [hi.dim, int(getattr(hi, "frac_num", -1))],
            "lo": [lo.dim, int(getattr(lo, "frac_num", -1))]}
    if np.any(got != want):
        c = int(np.flatnonzero(got != want)[0])
        mon.violation("coupling:wrong-number-of-faces-per-lower-cell",
                      {**info, "cell": c, "got": int(got[c]), "want": int(want[c]),
                       "centre": lo.cell_centers[:, c]})
        return False
    mon.count("lower_cells_two_faces", int(np.sum(want == 2)))
    mon.count("lower_cells_one_face", int(np.sum(want == 1)))
    if fc.nnz and not np.all(fc.data != 0):
        mon.violation("interface:face-cells-explicit-zero", info)
        return False
    cells = np.repeat(np.arange(lo.num_cells), got)
    faces = fc.indices
    if np.unique(faces).size != faces.size:
        mon.violation("coupling:face-coupled-to-two-lower-cells", info)
        return False
    coupled[hi][faces] = True
    mon.count("coupled_faces_checked", faces.size)

    # coupled faces are split faces: exactly one neighbouring cell
    cf = sps.csr_matrix(hi.cell_faces)
    ncell = np.diff(cf.indptr)[faces]
    if np.any(ncell != 1):
        mon.violation("coupling:coupled-face-not-a-split-boundary-face",
                      {**info, "face": int(faces[np.flatnonzero(ncell != 1)[0]])})
        return False
    # centre and measure coincide
    h = float(np.max(lo.cell_volumes)) if lo.dim > 0 else 1.0
    ok = mon.close("face_centre_vs_cell_centre", hi.face_centers[:, faces],
                   lo.cell_centers[:, cells], 1e-8, "coupling:face-centre-differs-from-cell-centre",
                   scale=max(net.L), detail=info)
    ok &= mon.close("face_measure_vs_cell_measure", hi.face_areas[faces], lo.cell_volumes[cells],
                    TOL_REL, "coupling:face-measure-differs-from-cell-measure", scale=h,
                    detail=info)
    if not ok:
        return False
    # outward normals of the two faces of a cell are opposite
    sgn = np.asarray(cf[faces].sum(axis=1)).ravel()
    n_out = hi.face_normals[:, faces] * sgn
    two = np.flatnonzero(want == 2)
    if two.size:
        start = fc.indptr[two]
        n1, n2 = n_out[:, start], n_out[:, start + 1]
        area = hi.face_areas[faces[start]]
        mon.count("opposite_normal_pairs", two.size)
        if not mon.close("paired_normals_sum", (n1 + n2) / area, np.zeros_like(n1), 1e-8,
                         "coupling:paired-faces-normals-not-opposite", scale=1.0, detail=info):
            return False
        # outward normal points from the neighbouring cell towards the lower-dim cell
        f1, f2 = faces[start], faces[start + 1]
        c1 = cf[f1].indices
        c2 = cf[f2].indices
        s1 = np.sum((lo.cell_centers[:, two] - hi.cell_centers[:, c1]) * n1, axis=0)
        s2 = np.sum((lo.cell_centers[:, two] - hi.cell_centers[:, c2]) * n2, axis=0)
        if np.any(s1 <= 0) or np.any(s2 <= 0) or np.any(c1 == c2):
            mon.violation("coupling:paired-faces-not-on-opposite-sides", info)
            return False
        # node splitting: the two faces share a node only at a fracture tip
        if not _check_shared_nodes(mon, net, top, tol, hi, lo, f1, f2, two, support, info):
            return False

    # mortar side grids
    nsides_want = 2 if np.all(want == 2) else 1
    if intf.num_sides() != nsides_want:
        mon.violation("mortar:wrong-number-of-sides",
                      {**info, "got": intf.num_sides(), "want": nsides_want})
        return False
    tot = 0
    for proj, g in intf.project_to_side_grids():
        mon.count("mortar_sides_checked")
        tot += g.num_cells
        if g.num_cells != lo.num_cells or g.dim != lo.dim or \
                proj.shape != (g.num_cells, intf.num_cells):
            mon.violation("mortar:side-grid-cell-count-differs-from-lower-grid",
                          {**info, "got": g.num_cells, "want": lo.num_cells})
            return False
        if not mon.close("mortar_side_volumes", np.sort(g.cell_volumes), np.sort(lo.cell_volumes),
                         TOL_REL, "mortar:side-grid-volumes-differ-from-lower-grid", scale=h,
                         detail=info):
            return False
    if tot != intf.num_cells or intf.cell_volumes.size != tot:
        mon.violation("mortar:cell-count-differs-from-sum-of-sides", info)
        return False
    return True


def _check_shared_nodes(mon, net, top, tol, hi, lo, f1, f2, two, support, info):
    fn = sps.csc_matrix(hi.face_nodes)
    for a, b, c in zip(f1, f2, two):
        na = fn.indices[fn.indptr[a]:fn.indptr[a + 1]]
        nb = fn.indices[fn.indptr[b]:fn.indptr[b + 1]]
        shared = np.intersect1d(na, nb)
        mon.count("paired_faces_node_checks")
        if shared.size == 0:
            continue
        x = hi.nodes[:, shared]
        bad = None
        if lo.dim == top - 1:
            k = support[lo][0]
            okk = net.tip_dist(k, x) <= tol
            if top == 2:
                for j in range(net.n):
                    if j != k:
                        okk &= net.dist(j, x) > tol
            if not np.all(okk):
                bad = "node that is not on a tip (fracture end/edge inside the domain" \
                      + (", on no other fracture" if top == 2 else "") + \
                      ") is shared by the faces of both sides"
        elif lo.dim == 0:
            bad = "faces on both sides of an intersection point share a node"
        else:
            ks = support[lo]
            ends = net.intersection_ends(ks)
            if ends is None:
                continue
            d = np.minimum(np.sqrt(np.sum((x - ends[0].reshape(3, 1)) ** 2, axis=0)),
                           np.sqrt(np.sum((x - ends[1].reshape(3, 1)) ** 2, axis=0)))
            if not np.all(d <= tol):
                bad = "node in the interior of an intersection line is shared by both sides"
        if bad is not None:
            mon.violation("split:paired-faces-share-a-non-tip-node",
                          {**info, "why": bad, "cell": int(c), "node_xyz": x[:, 0]})
            return False
        mon.count("tip_nodes_shared", int(shared.size))
    return True


# ----------------------------------------------------------------------- generators
def generate(rng, tier, i):
    u = rng.random()
    if u < 0.72:
        r = gm.random_2d(rng, max_fracs=4)
        if r["mesh"] == "cartesian" and rng.random() < 0.3:
            k = 3
            r["n"] = [r["domain"][0] * k, r["domain"][1] * k]
        if r["mesh"] == "simplex" and rng.random() < 0.3:
            r["h"] = 0.4
    elif u < 0.92:
        r = gm.random_3d(rng, "cartesian", max_fracs=3)
        if rng.random() < 0.5:
            # different numbers of cells per direction (index strides of structured
            # meshing must not be mixed up)
            r["n"] = [int(v * rng.integers(1, 3)) for v in r["domain"]]
    else:
        r = gm.random_3d(rng, "simplex", max_fracs=2)
    if r["mesh"] == "cartesian" and rng.random() < 0.3:
        # uniform tensor grid from a target cell size that does not divide the extent
        r = gm.tensor_variant(rng, r)
    if rng.random() < 0.3:
        # domain whose lower corner is not the origin (integer or half-integer offset,
        # positive or negative)
        r["origin"] = [float(v) for v in rng.integers(-4, 5, size=r["dim"]) / 2.0]
        if rng.random() < 0.4:
            keep = int(rng.integers(0, r["dim"]))           # offset along one axis only
            r["origin"] = [v if m == keep else 0.0 for m, v in enumerate(r["origin"])]
            if r["origin"][keep] == 0.0:
                r["origin"][keep] = 1.5
    return {"recipe": r}


def floor(tier):
    out = [{"recipe": r} for r in gm.floor_recipes()]
    # 3-D Cartesian, nx != ny != nz, two fractures meeting along a line in each direction
    for ax in range(3):
        L = [3, 2, 4]
        o = [k for k in range(3) if k != ax]          # fracture normals o[0], o[1]
        fr = []
        for nrm in o:
            other = [k for k in range(3) if k not in (ax, nrm)][0]
            v = []
            hi = min(3, L[ax])
            for a, b in [(1, 0), (hi, 0), (hi, L[other]), (1, L[other])]:
                p = [0, 0, 0]
                p[nrm] = 1
                p[ax] = a
                p[other] = b
                v.append(p)
            fr.append(v)
        out.append({"recipe": {"dim": 3, "mesh": "cartesian", "domain": L, "n": L,
                               "fractures": fr}})
    # tensor grids from a non-dividing target cell size
    for k, r in enumerate(gm.floor_recipes(meshes=("cartesian",))):
        if k % 2 == 0:
            out.append({"recipe": gm.tensor_variant(np.random.default_rng(50 + k), r)})
    # offset in a single coordinate direction only (incl. only z in 3-D)
    for k, r in enumerate(gm.floor_recipes(meshes=("cartesian",))):
        for ax in range(r["dim"]):
            if (k + ax) % 2 == 0:
                o = [0.0] * r["dim"]
                o[ax] = 0.5 + ax
                out.append({"recipe": dict(r, origin=o)})
    # offset domains (lower corner not in the origin)
    for k, r in enumerate(gm.floor_recipes()):
        if k % 3 == 1 or r["dim"] == 3 and len(r["fractures"]) == 1:
            r = dict(r)
            r["origin"] = [1.0, 2.0, -1.5][:r["dim"]]
            out.append({"recipe": r})
    out += [
        # three fractures through one lattice point, one of them ending there
        {"recipe": {"dim": 2, "mesh": "simplex", "domain": [4, 4], "h": 1.0,
                    "fractures": [[[1, 1], [3, 3]], [[1, 3], [3, 1]], [[2, 2], [2, 4]]]}},
        # L at an interior point, fracture through the whole domain, boundary L
        {"recipe": {"dim": 2, "mesh": "simplex", "domain": [4, 3], "h": 0.75,
                    "fractures": [[[0, 1], [4, 1]], [[1, 2], [3, 2]], [[3, 2], [3, 3]],
                                  [[0, 1], [1, 3]]]}},
        {"recipe": {"dim": 2, "mesh": "cartesian", "domain": [4, 4], "n": [8, 8],
                    "fractures": [[[0, 2], [4, 2]], [[2, 0], [2, 4]], [[1, 1], [1, 3]],
                                  [[1, 3], [3, 3]]]}},
        # 3-D: T (edge of one rectangle in the other), partial crossing, L
        {"recipe": {"dim": 3, "mesh": "cartesian", "domain": [3, 3, 3], "n": [3, 3, 3],
                    "fractures": [[[1, 0, 0], [1, 2, 0], [1, 2, 3], [1, 0, 3]],
                                  [[0, 2, 0], [3, 2, 0], [3, 2, 3], [0, 2, 3]]]}},
        {"recipe": {"dim": 3, "mesh": "cartesian", "domain": [3, 3, 3], "n": [3, 3, 3],
                    "fractures": [[[1, 0, 1], [1, 3, 1], [1, 3, 2], [1, 0, 2]],
                                  [[0, 1, 0], [2, 1, 0], [2, 1, 3], [0, 1, 3]]]}},
        {"recipe": {"dim": 3, "mesh": "simplex", "domain": [2, 2, 2], "h": 1.0,
                    "fractures": [[[1, 0, 0], [1, 2, 0], [1, 2, 2], [1, 0, 2]],
                                  [[0, 1, 0], [2, 1, 0], [2, 1, 2], [0, 1, 2]]]}},
        {"recipe": {"dim": 3, "mesh": "simplex", "domain": [2, 2, 2], "h": 1.0,
                    "fractures": [[[1, 0, 0], [1, 1, 0], [1, 1, 1], [1, 0, 1]]]}},
        # library geometries
        {"recipe": {"library": "square_with_orthogonal_fractures", "mesh": "cartesian",
                    "h": 0.25, "indices": [0, 1]}},
        {"recipe": {"library": "square_with_orthogonal_fractures", "mesh": "simplex",
                    "h": 0.25, "indices": [0, 1]}},
        {"recipe": {"library": "cube_with_orthogonal_fractures", "mesh": "cartesian",
                    "h": 0.5, "indices": [0, 1, 2]}},
        {"recipe": {"library": "cube_with_orthogonal_fractures", "mesh": "simplex",
                    "h": 0.5, "indices": [0, 1]}},
        {"recipe": {"library": "seven_fractures_one_L_intersection", "h": 0.2}},
        {"recipe": {"library": "benchmark_regular_2d", "h": 0.1}},
    ]
    return out


def warmup():
    for _ in range(3):
        try:
            gm.build(gm.FLOOR_2D[7])
            gm.build(gm.FLOOR_2D[2])
            return
        except Exception:  # noqa: BLE001 - the cases themselves report failures
            continue
