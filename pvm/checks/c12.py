"""C12 TPFA is symmetric, conservative, and exact on K-orthogonal grids.

Monitor: the matrices ``flux, bound_flux, bound_pressure_cell, bound_pressure_face`` left by
``pp.Tpfa.discretize`` are read from the data dictionary.  Structural claims (any grid, any
SPD tensor field): ``div @ flux`` symmetric, one single-valued flux per face (interior rows
couple exactly the two neighbour cells with opposite weights; the discrete Gauss identity
holds for random cell / boundary data), constant pressure with matching Dirichlet data gives
zero flux.  K-orthogonal subset (Cartesian / tensor grids, diagonal tensors): M-matrix signs,
flux and bound_flux equal to those of ``pp.Mpfa`` on the same data, and for a constant
diagonal tensor the closed-form flux / trace of a linear field.
"""
from __future__ import annotations

import numpy as np
import scipy.sparse as sps

import porepy as pp

from pvm.gen import grids as gg
from pvm.gen import c11_fvsetup as fs

PROP = "C12"
N = {"quick": 150, "thorough": 4000}
WORKERS = {"quick": 4, "thorough": 16}
TIMEOUT = {"quick": 900, "thorough": 3000}
CASE_TIMEOUT = 120.0
RULE = ("seeded grid recipes in 1-D / 2-D / 3-D (all kinds, perturbed, affine, 1-D/2-D "
        "optionally rigidly embedded) with constant or cell-wise heterogeneous full SPD "
        "tensors for the structural claims; about half of the cases are K-orthogonal "
        "(unperturbed Cartesian / tensor grids, not embedded) with diagonal heterogeneous or "
        "constant tensors for the M-matrix, MPFA-agreement and linear-exactness claims; "
        "boundary types all-Dirichlet / random per-face mix / single Dirichlet face / one "
        "side; non-trivial = at least 2 cells; distinct = case hash")
REACH = [("numerics/fv/tpfa.py", "Tpfa.discretize"),
         ("numerics/fv/mpfa.py", "Mpfa._flux_discretization")]
REACH_LINES = [
    ("numerics/fv/tpfa.py", "t_b[is_dir] = -t[is_dir]"),
    ("numerics/fv/tpfa.py", "t_b[is_neu] = 1"),
    ("numerics/fv/tpfa.py", "t = 1 / np.bincount(fi_periodic, weights=1 / t_face)"),
    ("numerics/fv/tpfa.py", "v_face[bnd.is_neu] = -1 / t_full[bnd.is_neu]"),
]
REQUIRED = {"tpfa_discretizations": 25, "symmetry_checked": 25, "gauss_identity_checked": 25,
            "constant_fields_checked": 25, "interior_rows_checked": 250,
            "korth_cases": 10, "mmatrix_checked": 10, "mpfa_agreement_checked": 6,
            "linear_exactness_checked": 5, "faces_dirichlet": 120, "faces_neumann": 120}
ASSUMPTIONS = [
    "K-orthogonal subset = unperturbed, unmapped Cartesian / tensor grids in their reference "
    "frame with diagonal tensors (heterogeneous for signs and MPFA agreement, constant for "
    "linear exactness)",
    "MPFA agreement is asserted in 2-D and 3-D only (in 1-D Mpfa delegates to Tpfa)",
    "tolerance 1e-9 relative to the largest transmissibility resp. ||K|| |a| max(face area); "
    "observed on the unchanged tree: median <= 1e-15, max 9e-13 over 4000 cases",
]
LEVEL_TEXT = ("Exploration: on every generated grid / tensor field / boundary mix the TPFA "
              "operator is symmetric, single-valued and annihilates constants; on the "
              "K-orthogonal subset it is an M-matrix, equals MPFA and is exact for linear "
              "pressures incl. the boundary trace (1e-9 relative).")
TECHNIQUE = "invariant monitor on Tpfa matrices + closed-form linear fields + MPFA cross-check"
TOL = 1e-9


def _tie(K, tie):
    """Tie diagonal entries of a diagonal tensor (3, 3[, nc]): transversely isotropic /
    isotropic tensors are the inputs special-cased fast paths are written for."""
    K = np.array(K, dtype=float)
    if not tie:
        return K
    pairs = {"xy": [(1, 0)], "yz": [(2, 1)], "xz": [(2, 0)], "xyz": [(1, 0), (2, 0)]}[tie]
    for i, j in pairs:
        K[i, i] = K[j, j]
    return K


def _case(recipe, kmode, K, kseed, a, c, bc_mode, bc_seed, p_dir, pseed, tie=None,
          contrast=0):
    if tie and kmode.endswith("diag"):
        K = [[float(v) for v in row] for row in _tie(K, tie)]
    else:
        tie = None
    return {"grid": recipe, "kmode": kmode, "K": K, "kseed": int(kseed), "tie": tie,
            "contrast": int(contrast) if kmode.startswith("hetero") else 0,
            "aavatsmark": bool(kmode.endswith("diag") and gg.k_orthogonal(recipe)
                               and recipe.get("rigid") is None and (int(kseed) + int(pseed)) % 4 == 0),
            "a": [float(v) for v in a], "c": float(c), "bc_mode": bc_mode,
            "bc_seed": int(bc_seed), "p_dir": float(p_dir), "pseed": int(pseed)}


KORTH_FLOOR = [
    {"kind": "cart", "dim": 1, "n": [4], "phys": [2.0]},
    {"kind": "tensor", "dim": 1, "n": [5], "phys": [1.0], "tseed": 3},
    {"kind": "cart", "dim": 2, "n": [3, 2], "phys": [3.0, 1.0]},
    {"kind": "tensor", "dim": 2, "n": [3, 4], "phys": [1.0, 2.0], "tseed": 5},
    {"kind": "cart", "dim": 3, "n": [2, 2, 2], "phys": [1.0, 2.0, 0.5]},
    {"kind": "tensor", "dim": 3, "n": [2, 3, 2], "phys": [1.0, 1.0, 2.0], "tseed": 8},
]


def floor(tier):
    out = []
    rng = np.random.default_rng(4321)
    modes = ["mixed", "all_dir", "one_dir", "side"]
    for i, r in enumerate(gg.floor_recipes()):
        dim = r["dim"]
        a = rng.normal(size=3)
        a[dim:] = 0.0
        kmode = ["const_full", "hetero_full"][i % 2]
        out.append(_case(r, kmode, fs.random_spd(rng, dim, 50.0), 50 + i, a, 0.7 + i,
                         modes[i % 4], 200 + i, 0.5, 300 + i))
    for i, r in enumerate(KORTH_FLOOR):
        dim = r["dim"]
        a = rng.normal(size=3)
        a[dim:] = 0.0
        for j, kmode in enumerate(["const_diag", "hetero_diag"]):
            out.append(_case(dict(r), kmode, fs.random_spd(rng, dim, 50.0, diagonal=True),
                             70 + i, a, -1.0 + i, modes[(i + j) % 4], 400 + 2 * i + j, 0.5,
                             500 + i))
    # heterogeneous diagonal tensors with a large cell-to-cell contrast
    for i, r in enumerate(KORTH_FLOOR[2:]):
        a = rng.normal(size=3)
        a[r["dim"]:] = 0.0
        out.append(_case(dict(r), "hetero_diag", fs.random_spd(rng, r["dim"], 50.0, diagonal=True),
                         80 + i, a, 0.5, modes[i % 4], 800 + i, 0.5, 900 + i,
                         contrast=[10, 6, 10, 12][i]))
    # tied diagonal entries (kxx == kyy != kzz, ..., isotropic) on 3-D K-orthogonal grids
    for i, tie in enumerate(["xy", "yz", "xz", "xyz"]):
        r = KORTH_FLOOR[4 + i % 2]
        a = rng.normal(size=3)
        for j, kmode in enumerate(["const_diag", "hetero_diag"]):
            out.append(_case(dict(r), kmode, fs.random_spd(rng, 3, 50.0, diagonal=True),
                             90 + i, a, 0.3 * i, modes[(i + j) % 4], 600 + 2 * i + j, 0.5,
                             700 + i, tie=tie))
    return out


def generate(rng, tier, i):
    korth = rng.random() < 0.5
    if korth:
        r = gg.random_recipe(rng, dims=(1, 2, 3), kinds=("cart", "tensor"), perturb=False,
                             affine=False, rigid=False, max_cells=60)
        kmode = str(rng.choice(["const_diag", "hetero_diag"]))
    else:
        r = gg.random_recipe(rng, dims=(1, 2, 3), rigid="embedded", max_cells=80)
        kmode = str(rng.choice(["const_full", "hetero_full", "hetero_diag"]))
    dim = r["dim"]
    K = fs.random_spd(rng, dim, 50.0, diagonal=kmode.endswith("diag"))
    a = rng.normal(size=3) * 10.0 ** rng.uniform(-1, 1)
    a[dim:] = 0.0
    c = float(np.round(rng.normal() * 3, 3))
    mode = str(rng.choice(["all_dir", "mixed", "mixed", "mixed", "one_dir", "side"]))
    tie = None
    if kmode.endswith("diag") and rng.random() < 0.35:
        tie = str(rng.choice(["xy", "yz", "xz", "xyz"]))
    return _case(r, kmode, K, int(rng.integers(0, 2**31)), a, c, mode,
                 int(rng.integers(0, 2**31)), float(rng.choice([0.15, 0.5, 0.85])),
                 int(rng.integers(0, 2**31)), tie=tie,
                 contrast=int(rng.choice([0, 0, 0, 4, 10])))


def _tensor(case, g, R):
    kmode = case["kmode"]
    dim = g.dim
    if kmode.startswith("const"):
        K = R @ np.asarray(case["K"], dtype=float) @ R.T
        return fs.tensor_from_matrix(K, g.num_cells), K
    Kc = fs.heterogeneous_spd(case["kseed"], dim, g.num_cells, 20.0,
                              diagonal=kmode.endswith("diag"))
    if case.get("tie"):
        Kc = _tie(Kc, case["tie"])
    if case.get("contrast"):
        # cell-wise permeability contrast of up to 10**contrast (layered reservoirs)
        crng = np.random.default_rng([case["kseed"], 77])
        Kc = Kc * 10.0 ** (crng.uniform(-0.5, 0.5, g.num_cells) * float(case["contrast"]))
    Kc = np.einsum("ij,jkc,lk->ilc", R, Kc, R)
    return fs.tensor_from_cellwise(Kc), None


def _closed_form(mon, g, k, flux, bf, is_dir, tag=""):
    """Closed form on K-orthogonal grids: harmonic average of the half transmissibilities
    A k_nn / d, compared row by row RELATIVE TO THE ROW (a contrast of 1e10 must not hide the
    low-permeable rows behind the largest entry of the matrix)."""
    nf = g.num_faces
    Kc = k.values
    fi, ci, sg = sps.find(g.cell_faces)
    nrm = g.face_normals[:, fi] / np.linalg.norm(g.face_normals[:, fi], axis=0)
    knn = np.einsum("if,ijf,jf->f", nrm, Kc[:, :, ci], nrm)
    dist = np.abs(np.sum((g.face_centers[:, fi] - g.cell_centers[:, ci]) * nrm, axis=0))
    half = g.face_areas[fi] * knn / dist
    inv = np.bincount(fi, weights=1.0 / half, minlength=nf)
    cnt = np.bincount(fi, minlength=nf)
    t_ref = 1.0 / inv
    interior = cnt == 2
    Fd = flux.toarray()
    rowmax = np.max(np.abs(Fd), axis=1)
    mon.count("closed_form_rows_checked" + tag, int(interior.sum()))
    if interior.any():
        mon.close("interior_transmissibility_row_relative" + tag,
                  rowmax[interior] / t_ref[interior], np.ones(int(interior.sum())), 1e-10,
                  "tpfa-transmissibility-differs-from-harmonic-average" + tag, scale=1.0)
    dirf = np.zeros(nf, dtype=bool)
    dirf[bf[is_dir]] = True
    if dirf.any():
        mon.close("dirichlet_transmissibility_row_relative" + tag, rowmax[dirf] / t_ref[dirf],
                  np.ones(int(dirf.sum())), 1e-10,
                  "tpfa-transmissibility-differs-from-harmonic-average" + tag, scale=1.0)


def check(case, mon):
    r = case["grid"]
    g = gg.build(r)
    dim = g.dim
    nc, nf = g.num_cells, g.num_faces
    R = fs.world_rotation(r)
    k, Kconst = _tensor(case, g, R)
    bf, is_dir = fs.boundary_types(g, case["bc_mode"], case["bc_seed"], case["p_dir"])
    bc = fs.make_bc(g, bf, is_dir)
    korth = gg.k_orthogonal(r) and r.get("rigid") is None and case["kmode"].endswith("diag")

    mon.klass(f"{r['kind']}{dim}d" + ("+perturb" if r.get("perturb") else "")
              + ("+affine" if r.get("affine") is not None else "")
              + ("+rigid" if r.get("rigid") else ""))
    mon.klass("K:" + case["kmode"])
    if case.get("tie"):
        mon.klass("K-tie:" + case["tie"])
        mon.count("tied_diagonal_tensors")
    mon.klass("bc:" + case["bc_mode"])
    mon.nontrivial(nc >= 2)

    data = fs.flow_data(k, bc)
    if case.get("aavatsmark"):
        # documented option of Tpfa.discretize (half transmissibilities |K n| / d instead
        # of n.K.d / d^2); it coincides with the default on K-orthogonal grids
        data["Aavatsmark_transmissibilities"] = True
        mon.klass("option:Aavatsmark_transmissibilities")
        mon.count("aavatsmark_cases")
    discr = pp.Tpfa("flow")
    discr.discretize(g, data)
    mon.count("tpfa_discretizations")
    M = data[pp.DISCRETIZATION_MATRICES]["flow"]
    flux = sps.csr_matrix(M[discr.flux_matrix_key])
    bflux = sps.csr_matrix(M[discr.bound_flux_matrix_key])
    bpc = M[discr.bound_pressure_cell_matrix_key]
    bpf = M[discr.bound_pressure_face_matrix_key]
    mon.count("faces_dirichlet", int(is_dir.sum()))
    mon.count("faces_neumann", int((~is_dir).sum()))

    # one flux row per face
    if flux.shape != (nf, nc) or bflux.shape != (nf, nf):
        mon.violation("tpfa-matrix-shape", {"flux": flux.shape, "bound_flux": bflux.shape})
        return
    if not (np.all(np.isfinite(flux.data)) and np.all(np.isfinite(bflux.data))):
        mon.inconclusive("non-finite transmissibility (degenerate half transmissibilities)")
        return
    tmax = fs.dense_max(flux)
    div = g.cell_faces.T.tocsr()

    # (S1) symmetry of the cell-cell operator
    A = (div @ flux).tocsr()
    asym = (A - A.T).tocsr()
    amax = fs.dense_max(A)
    res = fs.dense_max(asym) / amax if amax > 0 else 0.0
    mon.measure("asymmetry", res)
    mon.count("symmetry_checked")
    if not res <= TOL:
        mon.violation("tpfa-operator-not-symmetric", {"rel_asym": res})

    # (S2) single-valued flux: every interior face couples exactly its two neighbour cells
    # with opposite weights; Neumann boundary rows are empty, Dirichlet rows hold one cell
    interior = np.ones(nf, dtype=bool)
    interior[bf] = False
    cf = g.cell_faces.tocsr()
    nnz_row = np.diff(flux.indptr)
    bad_pattern = 0
    for f in np.flatnonzero(interior):
        cols = flux.indices[flux.indptr[f]:flux.indptr[f + 1]]
        vals = flux.data[flux.indptr[f]:flux.indptr[f + 1]]
        nb = cf.indices[cf.indptr[f]:cf.indptr[f + 1]]
        sg = cf.data[cf.indptr[f]:cf.indptr[f + 1]]
        if set(cols[vals != 0]) - set(nb):
            bad_pattern += 1
            continue
        # weight seen from the cell with sign +1 equals minus the one with sign -1
        w = dict(zip(cols, vals))
        wp = sum(w.get(cn, 0.0) for cn, s in zip(nb, sg) if s > 0)
        wm = sum(w.get(cn, 0.0) for cn, s in zip(nb, sg) if s < 0)
        if abs(wp + wm) > TOL * max(tmax, 1e-300):
            bad_pattern += 1
    mon.count("interior_rows_checked", int(interior.sum()))
    if bad_pattern:
        mon.violation("tpfa-interior-flux-not-single-valued", {"faces": bad_pattern})
    neu_faces = bf[~is_dir]
    if neu_faces.size and np.any(np.abs(flux[neu_faces].data) > 0):
        mon.violation("tpfa-neumann-face-has-cell-coupling", {})
    # discrete Gauss identity with random cell values / boundary data
    rng = np.random.default_rng(case["pseed"])
    p_rand = rng.normal(size=nc)
    bc_rand = np.zeros(nf)
    bc_rand[bf] = rng.normal(size=bf.size)
    q = flux @ p_rand + bflux @ bc_rand
    sgn = fs.boundary_sign(g)
    lhs = float(np.sum(div @ q))
    rhs = float(np.sum((sgn * q)[bf]))
    gscale = max(float(np.sum(np.abs(q))), 1e-300)
    mon.measure("gauss_identity", abs(lhs - rhs) / gscale)
    mon.count("gauss_identity_checked")
    if not abs(lhs - rhs) <= TOL * gscale:
        mon.violation("tpfa-gauss-identity", {"lhs": lhs, "rhs": rhs})
    # Neumann data enters as the outward flux itself
    if neu_faces.size:
        mon.close("neumann_flux_is_data", (sgn * q)[neu_faces], bc_rand[neu_faces], TOL,
                  "tpfa-neumann-flux-differs-from-data", scale=1.0)

    # (S3) constant pressure with matching Dirichlet data
    c0 = float(case["c"]) if case["c"] != 0 else 1.0
    bc0 = np.zeros(nf)
    bc0[bf[is_dir]] = c0
    q0 = flux @ (c0 * np.ones(nc)) + bflux @ bc0
    mon.close("flux_constant", q0, np.zeros(nf), TOL, "tpfa-constant-pressure-flux",
              scale=max(tmax, fs.dense_max(bflux)) * abs(c0))
    tr0 = bpc @ (c0 * np.ones(nc)) + bpf @ bc0
    mon.close("trace_constant", tr0[bf], c0 * np.ones(bf.size), TOL,
              "tpfa-constant-pressure-trace", scale=abs(c0))
    mon.count("constant_fields_checked")

    if not korth:
        mon.excluded("not K-orthogonal: M-matrix / MPFA agreement / exactness not asserted")
        return
    mon.count("korth_cases")

    # (K1) M-matrix signs
    Ad = A.toarray()
    diag = np.diag(Ad)
    off = Ad - np.diag(diag)
    mon.count("mmatrix_checked")
    mon.measure("min_diagonal_over_max", float(diag.min() / amax))
    if not np.all(diag > 0):
        mon.violation("tpfa-nonpositive-diagonal", {"min": float(diag.min())})
    if np.any(off > TOL * amax):
        mon.violation("tpfa-positive-offdiagonal", {"max": float(off.max())})

    # (K1b) closed-form transmissibilities
    _closed_form(mon, g, k, flux, bf, is_dir)
    if case.get("contrast"):
        mon.klass(f"K-contrast:1e{case['contrast']}")
        mon.count("high_contrast_cases")

    # (K2) agreement with MPFA (2-D / 3-D)
    if dim >= 2:
        data_m = fs.flow_data(k, bc, mpfa_inverter="python")
        dm = pp.Mpfa("flow")
        dm.discretize(g, data_m)
        Mm = data_m[pp.DISCRETIZATION_MATRICES]["flow"]
        mon.close("flux_vs_mpfa", flux.toarray(), Mm[dm.flux_matrix_key].toarray(), TOL,
                  "tpfa-flux-differs-from-mpfa", scale=tmax)
        mon.close("bound_flux_vs_mpfa", bflux.toarray(),
                  Mm[dm.bound_flux_matrix_key].toarray(), TOL,
                  "tpfa-bound-flux-differs-from-mpfa", scale=max(1.0, tmax))
        mon.count("mpfa_agreement_checked")
    else:
        mon.excluded("1-D: Mpfa delegates to Tpfa, agreement is trivial")

    # (K3) linear exactness with a constant diagonal tensor
    if Kconst is not None:
        a = np.asarray(case["a"], dtype=float)
        c = float(case["c"])
        p_c, p_f, qx, bcv = fs.linear_field_data(g, Kconst, a, c, bf, is_dir)
        fscale = (float(np.linalg.norm(Kconst[:dim, :dim], 2)) * float(np.linalg.norm(a))
                  * float(np.max(g.face_areas)))
        mon.close("flux_linear", flux @ p_c + bflux @ bcv, qx, TOL,
                  "tpfa-linear-flux-not-exact", scale=max(fscale, 1e-300))
        diam = float(np.max(np.ptp(g.nodes, axis=1)))
        pscale = max(abs(c), float(np.linalg.norm(a)) * diam, 1e-300)
        tr = bpc @ p_c + bpf @ bcv
        mon.close("trace_linear", tr[bf], p_f[bf], TOL,
                  "tpfa-boundary-pressure-not-exact", scale=pscale)
        mon.count("linear_exactness_checked")

    # the same Tpfa object re-discretizes the same grid OBJECT after its nodes were moved in
    # place to another tensor spacing (grid adaptation keeps the topology): nothing derived
    # from the old geometry may survive in the discretization object or the dictionary
    if r["kind"] in ("cart", "tensor") and dim >= 1:
        mrng = np.random.default_rng([case["kseed"], 12])
        for ax in range(dim):
            old = np.unique(np.round(g.nodes[ax], 12))
            w = mrng.uniform(0.4, 1.6, old.size - 1)
            new = old[0] + np.concatenate([[0.0], np.cumsum(w)]) / w.sum() * (old[-1] - old[0])
            g.nodes[ax] = np.interp(g.nodes[ax], old, new)
        g.compute_geometry()
        discr.discretize(g, data)
        flux2 = sps.csr_matrix(data[pp.DISCRETIZATION_MATRICES]["flow"][discr.flux_matrix_key])
        _closed_form(mon, g, k, flux2, bf, is_dir, tag=":after-moving-nodes-in-place")
        mon.count("rediscretized_after_moving_nodes")
