"""C35 Sparse-matrix utilities match dense reference semantics.

Reference-model monitor: every utility of ``matrix_operations`` / ``array_operations``
named in the property is called on generated compressed matrices (csr/csc with unsorted
indices, explicit zeros, empty lines, zero-sized dimensions; coo/dia blocks) and index
sets (arrays with repetitions, sorted, boolean masks, single ints, empty), and the
returned object is compared *exactly* (integer-valued data) with the dense numpy
operation the docstring names.  In-place functions are additionally checked not to
change or alias their second argument.
"""
from __future__ import annotations

import numpy as np
import scipy.sparse as sps

from pvm.gen import c35_sparse as gs

PROP = "C35"
N = {"quick": 3000, "thorough": 150000}
WORKERS = {"quick": 3, "thorough": 16}
TIMEOUT = {"quick": 300, "thorough": 3000}
CASE_TIMEOUT = 30.0

OPS = [
    "zero_lines", "merge", "stack_mat", "stack_diag", "slice_indices", "slice_matrix",
    "sparse_blocks", "dense_blocks", "dia_blocks", "block_diag_matrix",
    "block_diag_index", "rlencode", "rldecode", "expand_index_pointers",
    "expand_indices_nd", "expand_indices_add_increment", "kron", "row_col_data",
]
# merge / rldecode / slicing carry most of the index-set variety: heavier weight
_W = {"merge": 3.0, "rldecode": 2.0, "slice_matrix": 2.0, "slice_indices": 2.0,
      "zero_lines": 2.0, "block_diag_index": 1.5}
_P = np.array([_W.get(o, 1.0) for o in OPS])
_P = _P / _P.sum()

RULE = ("one utility call per case: op drawn from " + ", ".join(OPS) + "; operands are "
        "explicit compressed storages (csr/csc, sizes 0..8, unsorted indices, explicit "
        "zeros, empty lines) with distinct integer values and index sets (repeated, "
        "sorted, mask, int, empty); non-trivial = operand has >= 2 stored values / "
        "entries; distinct = hash of the explicit case")
_MO = "numerics/linalg/matrix_operations.py"
_AO = "utils/array_operations.py"
REACH = [(_MO, f) for f in (
    "zero_columns", "zero_rows", "merge_matrices", "stack_mat", "stack_diag",
    "slice_indices", "slice_sparse_matrix", "sparse_dia_from_sparse_blocks",
    "_csx_matrix_from_sparse_blocks", "_csx_matrix_from_dense_blocks",
    "block_diag_matrix", "block_diag_index", "rlencode", "rldecode",
    "sparse_kronecker_product", "sparse_array_to_row_col_data")] + [
    (_AO, f) for f in ("expand_index_pointers", "expand_indices_nd",
                       "expand_indices_add_increment")]
REACH_LINES = [
    (_MO, "slice_ind = np.where(slice_ind)[0]"),            # boolean mask branch
    (_MO, "if isinstance(slice_ind, int):"),
    (_MO, "j = rldecode(sumn, m_n_full)"),                  # rectangular block index
    (_AO, "return np.array([], dtype=np.int32)"),           # no positive interval
]
REQUIRED = {f"op:{o}": 3 for o in OPS}
REQUIRED.update({"alias_checks": 6, "rejections_observed": 4,
                 "merge:unsorted_lines": 2, "rldecode:zero_count_cases": 2})
ASSUMPTIONS = [
    "matrix values are distinct integers, comparisons are exact (tolerance 0)",
    "2-D run-length decoding is exercised as the inverse of rlencode (transposed "
    "layout), 1-D decoding against numpy.repeat",
    "index sets handed to zero_rows/zero_columns/merge_matrices are integer arrays "
    "(the documented type); masks and ints only where the docstring allows them",
]
LEVEL_TEXT = ("Every listed sparse utility agreed exactly with its dense numpy "
              "equivalent on the generated storages and index sets (exploration, "
              "sizes <= 8).")
TECHNIQUE = "dense reference model, exact comparison"


# --------------------------------------------------------------------------- helpers
def _pp():
    import porepy as pp
    return pp.matrix_operations, pp.array_operations


def _same(mon, name, got, want, mech, detail=None) -> bool:
    got = np.asarray(got)
    want = np.asarray(want)
    if got.dtype == object or got.shape != want.shape:
        mon.violation(mech, {"what": name, "got_shape": list(got.shape),
                             "want_shape": list(want.shape), "got": got, "want": want,
                             "detail": detail})
        mon.measure(name, 1e300)
        return False
    if got.size == 0:
        mon.measure(name, 0.0)
        return True
    diff = float(np.max(np.abs(got.astype(float) - want.astype(float))))
    mon.measure(name, diff)
    if diff != 0.0:
        mon.violation(mech, {"what": name, "max_abs_diff": diff, "got": got,
                             "want": want, "detail": detail})
        return False
    return True


def _snapshot(M):
    return (M.data.copy(), M.indices.copy(), M.indptr.copy(), M.shape)


def _unchanged(mon, M, snap, mech, who):
    ok = (M.shape == snap[3] and np.array_equal(M.data, snap[0])
          and np.array_equal(M.indices, snap[1]) and np.array_equal(M.indptr, snap[2]))
    if not ok:
        mon.violation(mech, {"what": f"{who} was modified"})
    return ok


def _no_alias(mon, A, B, mech):
    """In-place result A must not share storage with the second argument B."""
    mon.count("alias_checks")
    shared = any(np.shares_memory(getattr(A, a), getattr(B, b))
                 for a in ("data", "indices", "indptr")
                 for b in ("data", "indices", "indptr"))
    if shared:
        mon.violation(mech, {"what": "result shares memory with second argument"})
        return
    snap = _snapshot(B)
    if A.data.size:
        A.data += 1000.0
    if A.indices.size:
        A.indices[:] = 0
    _unchanged(mon, B, snap, mech, "second argument (after mutating the result)")


def _block_diag_dense(blocks):
    m = sum(b.shape[0] for b in blocks)
    n = sum(b.shape[1] for b in blocks)
    D = np.zeros((m, n))
    r = c = 0
    for b in blocks:
        D[r:r + b.shape[0], c:c + b.shape[1]] = b
        r += b.shape[0]
        c += b.shape[1]
    return D


def _is_sorted(v):
    return all(v[i] <= v[i + 1] for i in range(len(v) - 1))


# ------------------------------------------------------------------------ generators
def _gen_zero_lines(rng):
    A = gs.random_compressed(rng, min_dim=1)
    ix = gs.random_index_set(rng, gs.lines(A),
                             kind=str(rng.choice(["array", "sorted", "int", "empty"])))
    return {"A": A, "idx": ix}


def _gen_merge(rng):
    A = gs.random_compressed(rng, min_dim=1)
    nl = gs.lines(A)
    k = int(rng.integers(0, nl + 1))
    lines = rng.permutation(nl)[:k]
    if rng.random() < 0.4:
        lines = np.sort(lines)
    no = A["shape"][1] if A["fmt"] == "csr" else A["shape"][0]
    shape = [k, no] if A["fmt"] == "csr" else [no, k]
    B = gs.random_compressed(rng, fmt=A["fmt"], shape=shape, first_id=500)
    return {"A": A, "B": B, "lines": [int(v) for v in lines]}


def _gen_stack(rng, diag):
    A = gs.random_compressed(rng)
    if diag:
        B = gs.random_compressed(rng, fmt=A["fmt"], first_id=500)
    else:
        no = A["shape"][1] if A["fmt"] == "csr" else A["shape"][0]
        k = int(rng.integers(0, 6))
        shape = [k, no] if A["fmt"] == "csr" else [no, k]
        B = gs.random_compressed(rng, fmt=A["fmt"], shape=shape, first_id=500)
    return {"A": A, "B": B}


def _gen_slice(rng, indices):
    A = gs.random_compressed(rng, min_dim=1)
    kinds = ["array", "sorted", "mask", "int", "empty"] + (["npint"] if indices else [])
    kind = str(rng.choice(kinds))
    if kind == "npint":
        ix = gs.random_index_set(rng, gs.lines(A), kind="int")
        ix["kind"] = "npint"
    else:
        ix = gs.random_index_set(rng, gs.lines(A), kind=kind)
    return {"A": A, "idx": ix}


def _gen_sparse_blocks(rng):
    nb = int(rng.integers(1, 5))
    blocks = []
    fid = 1
    for _ in range(nb):
        shape = (int(rng.integers(0, 5)), int(rng.integers(0, 5)))
        b = gs.random_any_format(rng, shape, first_id=fid)
        fid += 100
        blocks.append(b)
    return {"target": str(rng.choice(["csr", "csc"])), "blocks": blocks}


def _gen_dense_blocks(rng):
    bs = int(rng.integers(1, 5))
    nb = int(rng.integers(0, 5))
    data = rng.permutation(bs * bs * nb) + 1
    return {"target": str(rng.choice(["csr", "csc"])), "bs": bs, "nb": nb,
            "data": [float(v) for v in data]}


def _gen_dia_blocks(rng):
    nb = int(rng.integers(1, 5))
    fid = 1
    diags = []
    for _ in range(nb):
        k = int(rng.integers(1, 5))
        diags.append([float(fid + i) for i in range(k)])
        fid += k
    return {"diags": diags}


def _gen_bd_matrix(rng):
    nb = int(rng.integers(0, 5))
    lo = 0 if rng.random() < 0.3 else 1
    sz = [int(v) for v in rng.integers(lo, 5, size=nb)]
    tot = sum(s * s for s in sz)
    return {"sz": sz, "vals": [float(v) for v in rng.permutation(tot) + 1]}


def _gen_bd_index(rng):
    nb = int(rng.integers(1, 5))
    lo = 0 if rng.random() < 0.3 else 1
    m = [int(v) for v in rng.integers(lo, 5, size=nb)]
    if rng.random() < 0.5:
        return {"m": m, "n": None}
    n = [int(v) for v in rng.integers(lo, 5, size=nb)]
    return {"m": m, "n": n}


def _gen_rlencode(rng):
    rows = int(rng.integers(1, 4))
    runs = int(rng.integers(1, 7))
    cols = []
    for _ in range(runs):
        c = [int(v) for v in rng.integers(0, 3, size=rows)]
        cols += [c] * int(rng.integers(1, 4))
    A = np.array(cols).T
    return {"A": A.tolist()}


def _gen_rldecode(rng):
    k = int(rng.integers(0, 8))
    mode = str(rng.choice(["positive", "zeros", "all-zero"], p=[0.45, 0.45, 0.1]))
    if mode == "positive":
        n = rng.integers(1, 5, size=k)
    elif mode == "zeros":
        n = rng.integers(0, 4, size=k)
    else:
        n = np.zeros(k, dtype=int)
    if rng.random() < 0.25:
        A = rng.integers(0, 50, size=(k, 2)).tolist()
    else:
        A = [int(v) for v in rng.integers(0, 50, size=k)]
    return {"A": A, "n": [int(v) for v in n]}


def _gen_eip(rng):
    k = int(rng.integers(0, 8))
    lo = rng.integers(0, 10, size=k)
    ln = rng.integers(-2, 5, size=k)
    mode = str(rng.choice(["same", "lo1", "hi1"], p=[0.7, 0.15, 0.15]))
    if mode == "same" or k == 0:
        return {"lo": [int(v) for v in lo], "hi": [int(v) for v in lo + ln]}
    if mode == "lo1":
        l0 = int(rng.integers(0, 6))
        return {"lo": [l0], "hi": [int(v) for v in rng.integers(0, 10, size=k)]}
    h0 = int(rng.integers(0, 10))
    return {"lo": [int(v) for v in rng.integers(0, 10, size=k)], "hi": [h0]}


def _gen_nd(rng):
    k = int(rng.integers(0, 8))
    return {"ind": [int(v) for v in rng.integers(0, 20, size=k)],
            "nd": int(rng.integers(1, 5)), "order": str(rng.choice(["F", "C"]))}


def _gen_incr(rng):
    k = int(rng.integers(0, 8))
    return {"x": [int(v) for v in rng.integers(0, 20, size=k)],
            "n": int(rng.integers(1, 5)), "increment": int(rng.integers(-5, 300))}


def _gen_kron(rng):
    shape = (int(rng.integers(0, 6)), int(rng.integers(0, 6)))
    return {"A": gs.random_any_format(rng, shape), "nd": int(rng.integers(1, 5))}


def _gen_rcd(rng):
    shape = (int(rng.integers(0, 7)), int(rng.integers(0, 7)))
    A = gs.random_any_format(rng, shape)
    return {"A": A, "remove_nz": bool(rng.random() < 0.5)}


_GEN = {
    "zero_lines": _gen_zero_lines, "merge": _gen_merge,
    "stack_mat": lambda r: _gen_stack(r, False), "stack_diag": lambda r: _gen_stack(r, True),
    "slice_indices": lambda r: _gen_slice(r, True),
    "slice_matrix": lambda r: _gen_slice(r, False),
    "sparse_blocks": _gen_sparse_blocks, "dense_blocks": _gen_dense_blocks,
    "dia_blocks": _gen_dia_blocks, "block_diag_matrix": _gen_bd_matrix,
    "block_diag_index": _gen_bd_index, "rlencode": _gen_rlencode,
    "rldecode": _gen_rldecode, "expand_index_pointers": _gen_eip,
    "expand_indices_nd": _gen_nd, "expand_indices_add_increment": _gen_incr,
    "kron": _gen_kron, "row_col_data": _gen_rcd,
}


def generate(rng, tier, i):
    op = OPS[int(rng.choice(len(OPS), p=_P))]
    case = _GEN[op](rng)
    case["op"] = op
    return case


def _csr(dense_rows, fmt="csr"):
    """Canonical storage of a dense list-of-lists (sorted indices, no explicit zeros)."""
    D = np.asarray(dense_rows, dtype=float)
    M = sps.csr_matrix(D) if fmt == "csr" else sps.csc_matrix(D)
    return {"fmt": fmt, "shape": list(D.shape), "indptr": M.indptr.tolist(),
            "indices": M.indices.tolist(), "data": M.data.tolist()}


def floor(tier):
    out = []
    # three seeded cases per operation: the REQUIRED per-op counters are floor-guaranteed
    for k, op in enumerate(OPS):
        for j in range(3):
            rng = np.random.default_rng([35, k, j])
            c = _GEN[op](rng)
            c["op"] = op
            out.append(c)
    A43 = [[1, 2, 3], [4, 5, 6], [7, 8, 9], [10, 11, 12]]
    # DESIGN section 3 witnesses and hand-written boundary cases
    out += [
        {"op": "rldecode", "A": [5, 4, 1, 6, 8, 2], "n": [3, 1, 0, 1, 3, 0]},
        {"op": "rldecode", "A": [5, 4, 1], "n": [0, 1, 2]},
        {"op": "rldecode", "A": [5, 4, 1], "n": [0, 0, 0]},
        {"op": "rldecode", "A": [1, 2, 3], "n": [2, 3, 1]},
        {"op": "rldecode", "A": [], "n": []},
        # merge with sorted, unsorted and reversed lines, rows and columns
        {"op": "merge", "A": _csr(A43), "B": _csr([[100, 0, 101], [0, 200, 0]]),
         "lines": [0, 2]},
        {"op": "merge", "A": _csr(A43), "B": _csr([[100, 0, 101], [0, 200, 0]]),
         "lines": [2, 0]},
        {"op": "merge", "A": _csr(A43),
         "B": _csr([[100, 0, 101], [0, 200, 0], [300, 301, 302]]), "lines": [3, 0, 2]},
        {"op": "merge", "A": _csr([[1, 0, 0, 2], [0, 0, 3, 0], [4, 5, 0, 6]], "csc"),
         "B": _csr([[100, 0, 0], [0, 200, 0], [101, 0, 300]], "csc"), "lines": [3, 1, 0]},
        {"op": "merge", "A": _csr(A43),
         "B": {"fmt": "csr", "shape": [0, 3], "indptr": [0], "indices": [], "data": []},
         "lines": []},
        {"op": "merge", "A": _csr(A43), "B": _csr([[100, 0, 101], [0, 200, 0]]),
         "lines": [1, 1]},                                   # duplicates: ValueError
        # block-diagonal index generation incl. zero-sized blocks
        {"op": "block_diag_index", "m": [2, 3], "n": [1, 2]},
        {"op": "block_diag_index", "m": [1, 3], "n": None},
        {"op": "block_diag_index", "m": [2, 0, 3], "n": [1, 2, 2]},
        {"op": "block_diag_index", "m": [2, 3, 1], "n": [1, 0, 2]},
        {"op": "block_diag_index", "m": [2, 0, 1], "n": None},
        {"op": "block_diag_matrix", "sz": [2, 0, 1], "vals": [1, 2, 3, 4, 5]},
        {"op": "block_diag_matrix", "sz": [2, 3],
         "vals": [float(v) for v in range(1, 14)]},
        # index pointers: documented examples + no positive interval
        {"op": "expand_index_pointers", "lo": [0, 0, 0], "hi": [2, 4, 3]},
        {"op": "expand_index_pointers", "lo": [0, 1], "hi": [2]},
        {"op": "expand_index_pointers", "lo": [0, 1, 1, 1], "hi": [1, 3, 3, 3]},
        {"op": "expand_index_pointers", "lo": [3, 1], "hi": [1, 1]},
        {"op": "expand_index_pointers", "lo": [3, 5, 2], "hi": [3, 7, 1]},
        {"op": "expand_indices_nd", "ind": [0, 1, 3], "nd": 2, "order": "F"},
        {"op": "expand_indices_nd", "ind": [0, 1, 3], "nd": 3, "order": "C"},
        {"op": "expand_indices_add_increment", "x": [0, 1, 3], "n": 3, "increment": 200},
        # slicing with every index kind
        {"op": "slice_indices", "A": _csr(A43), "idx": {"kind": "mask",
                                                        "val": [True, False, True, False]}},
        {"op": "slice_indices", "A": _csr(A43), "idx": {"kind": "int", "val": 1}},
        {"op": "slice_indices", "A": _csr(A43), "idx": {"kind": "npint", "val": 3}},
        {"op": "slice_indices", "A": _csr(A43, "csc"), "idx": {"kind": "array",
                                                               "val": [2, 0, 2]}},
        {"op": "slice_matrix", "A": _csr(A43), "idx": {"kind": "array", "val": [3, 0, 3]}},
        {"op": "slice_matrix", "A": _csr(A43, "csc"), "idx": {"kind": "mask",
                                                              "val": [False, True, True]}},
        {"op": "slice_matrix", "A": _csr(A43), "idx": {"kind": "int", "val": 2}},
        {"op": "slice_matrix", "A": _csr(A43), "idx": {"kind": "empty", "val": []}},
        {"op": "zero_lines", "A": _csr(A43), "idx": {"kind": "array", "val": [1, 1, 3]}},
        {"op": "zero_lines", "A": _csr(A43, "csc"), "idx": {"kind": "int", "val": 0}},
        {"op": "zero_lines", "A": _csr(A43, "csc"), "idx": {"kind": "empty", "val": []}},
        {"op": "dense_blocks", "target": "csr", "bs": 2, "nb": 2,
         "data": [1, 2, 3, 4, 5, 6, 7, 8]},
        {"op": "dense_blocks", "target": "csc", "bs": 2, "nb": 2,
         "data": [1, 2, 3, 4, 5, 6, 7, 8]},
        {"op": "dense_blocks", "target": "csc", "bs": 1, "nb": 3, "data": [1, 2, 3]},
        {"op": "sparse_blocks", "target": "csr",
         "blocks": [_csr([[1, 2], [3, 4]]), _csr([[5, 6, 7], [8, 9, 10]], "csc")]},
        {"op": "sparse_blocks", "target": "csc", "blocks": [_csr([[1, 2], [3, 4]])]},
        {"op": "dia_blocks", "diags": [[1, 2], [3, 4, 5]]},
        {"op": "rlencode", "A": [[1, 1, 2, 2, 2, 3], [0, 0, 0, 0, 1, 1]]},
        {"op": "rlencode", "A": [[4]]},
        {"op": "kron", "A": _csr(A43), "nd": 1},
        {"op": "kron", "A": _csr(A43, "csc"), "nd": 3},
        {"op": "stack_mat", "A": _csr(A43), "B": {"fmt": "csr", "shape": [0, 3],
                                                  "indptr": [0], "indices": [], "data": []}},
        {"op": "stack_diag", "A": _csr(A43), "B": _csr([[100, 0], [0, 200]])},
        {"op": "row_col_data", "A": {"fmt": "csr", "shape": [2, 3], "indptr": [0, 2, 3],
                                     "indices": [2, 0, 1], "data": [0.0, 5.0, 7.0]},
         "remove_nz": True},
    ]
    return out


# --------------------------------------------------------------------------- oracles
def _do_zero_lines(c, mon, mo, ao):
    A = gs.build(c["A"])
    D = gs.dense(c["A"])
    ix = c["idx"]
    rows = gs.index_list(ix)
    arg = gs.index_value(ix)
    mon.klass(f"zero_lines:{A.format}:{ix['kind']}")
    snap = _snapshot(A)
    if A.format == "csr":
        mo.zero_rows(A, arg)
        D[rows, :] = 0
        wrong = mo.zero_columns
    else:
        mo.zero_columns(A, arg)
        D[:, rows] = 0
        wrong = mo.zero_rows
    _same(mon, "zero_lines", A.toarray(), D, "zero-lines")
    if not (np.array_equal(A.indices, snap[1]) and np.array_equal(A.indptr, snap[2])):
        mon.violation("zero-lines:sparsity-structure-changed", {})
    try:
        wrong(A, np.array([0]))
        mon.violation("zero-lines:wrong-format-accepted", {"format": A.format})
    except ValueError:
        mon.count("rejections_observed")
    return A.nnz >= 2


def _do_merge(c, mon, mo, ao):
    A = gs.build(c["A"])
    B = gs.build(c["B"])
    DA, DB = gs.dense(c["A"]), gs.dense(c["B"])
    lines = [int(v) for v in c["lines"]]
    arg = np.asarray(lines, dtype=int)
    fmt = A.format
    if len(set(lines)) != len(lines):
        mon.klass("merge:duplicate-lines")
        try:
            mo.merge_matrices(A, B, arg, fmt)
            mon.violation("merge_matrices:duplicate-lines-accepted", {"lines": lines})
        except ValueError:
            mon.count("rejections_observed")
        return False
    srt = _is_sorted(lines)
    mon.klass(f"merge:{fmt}:" + ("sorted" if srt else "unsorted")
              + (":empty" if not lines else ""))
    mon.count("merge:sorted_lines" if srt else "merge:unsorted_lines")
    if fmt == "csr":
        DA[lines, :] = DB
    else:
        DA[:, lines] = DB
    snapB = _snapshot(B)
    mo.merge_matrices(A, B, arg, fmt)
    mech = "merge_matrices" if srt else "merge_matrices:unsorted-lines"
    try:
        got = A.toarray()
    except Exception as e:  # inconsistent storage
        mon.violation(mech, {"what": "result storage unusable", "error": repr(e)})
        return True
    _same(mon, "merge", got, DA, mech, {"lines": lines})
    _unchanged(mon, B, snapB, "merge_matrices:second-argument-modified", "B")
    _no_alias(mon, A, B, "merge_matrices:aliases-second-argument")
    return len(lines) >= 2


def _do_stack_mat(c, mon, mo, ao):
    A = gs.build(c["A"])
    B = gs.build(c["B"])
    DA, DB = gs.dense(c["A"]), gs.dense(c["B"])
    mon.klass(f"stack_mat:{A.format}" + (":emptyB" if gs.lines(c["B"]) == 0 else ""))
    want = np.vstack((DA, DB)) if A.format == "csr" else np.hstack((DA, DB))
    snapB = _snapshot(B)
    mo.stack_mat(A, B)
    _same(mon, "stack_mat", A.toarray(), want, "stack_mat")
    _unchanged(mon, B, snapB, "stack_mat:second-argument-modified", "B")
    _no_alias(mon, A, B, "stack_mat:aliases-second-argument")
    # mismatching formats are rejected
    try:
        mo.stack_mat(gs.build(c["A"]), gs.build(c["B"]).T)
        mon.violation("stack_mat:format-mismatch-accepted", {})
    except ValueError:
        mon.count("rejections_observed")
    return gs.n_values(c["A"]) + gs.n_values(c["B"]) >= 2


def _do_stack_diag(c, mon, mo, ao):
    sB = c["B"]
    if gs.lines(sB) == 0 and max(sB["shape"]) > 0:
        # documented as sps.block_diag((A, B)); a B without compressed lines but with a
        # non-zero other dimension is a degenerate shape that is not part of the claim
        mon.excluded("stack_diag: second matrix has zero compressed lines but a "
                     "non-zero other dimension")
        sB = dict(sB, shape=[0, 0])
    A = gs.build(c["A"])
    B = gs.build(sB)
    DA, DB = gs.dense(c["A"]), gs.dense(sB)
    mon.klass(f"stack_diag:{A.format}")
    snapA, snapB = _snapshot(A), _snapshot(B)
    C = mo.stack_diag(A, B)
    _same(mon, "stack_diag", C.toarray(), _block_diag_dense([DA, DB]), "stack_diag")
    if C.format != A.format:
        mon.violation("stack_diag:format", {"got": C.format})
    _unchanged(mon, A, snapA, "stack_diag:argument-modified", "A")
    _unchanged(mon, B, snapB, "stack_diag:argument-modified", "B")
    if C is not A:
        _no_alias(mon, C, B, "stack_diag:aliases-second-argument")
    return gs.n_values(c["A"]) + gs.n_values(sB) >= 2


def _idx_arg(ix):
    if ix["kind"] == "npint":
        return np.int64(ix["val"]), [int(ix["val"])]
    return gs.index_value(ix), gs.index_list(ix)


def _do_slice_indices(c, mon, mo, ao):
    A = gs.build(c["A"])
    D = gs.dense(c["A"])
    arg, lst = _idx_arg(c["idx"])
    mon.klass(f"slice_indices:{A.format}:{c['idx']['kind']}")
    ip = c["A"]["indptr"]
    want_pos = [k for i in lst for k in range(ip[i], ip[i + 1])]
    want_ind = [c["A"]["indices"][k] for k in want_pos]
    ind, arr = mo.slice_indices(A, arg, return_array_ind=True)
    only = mo.slice_indices(A, arg)
    _same(mon, "slice_indices", ind, want_ind, "slice_indices")
    _same(mon, "slice_indices_single_return", only, want_ind, "slice_indices")
    _same(mon, "slice_indices_data", A.data[arr], [c["A"]["data"][k] for k in want_pos],
          "slice_indices:array-ind")
    _same(mon, "slice_indices_array_ind", A.indices[arr], want_ind,
          "slice_indices:array-ind")
    # dense meaning: the selected lines are reproduced by (indices, data[array_ind])
    sub = np.zeros((len(lst), D.shape[1] if A.format == "csr" else D.shape[0]))
    pos = 0
    vals = np.atleast_1d(A.data[arr])
    indv = np.atleast_1d(ind)
    for r, i in enumerate(lst):
        for _ in range(ip[i + 1] - ip[i]):
            if pos < indv.size:
                sub[r, int(indv[pos])] += vals[pos]
            pos += 1
    want = D[lst, :] if A.format == "csr" else D[:, lst].T
    _same(mon, "slice_indices_dense", sub, want, "slice_indices")
    if c["idx"]["kind"] == "mask":
        try:
            mo.slice_indices(A, np.ones(gs.lines(c["A"]) + 1, dtype=bool))
            mon.violation("slice_indices:wrong-size-mask-accepted", {})
        except IndexError:
            mon.count("rejections_observed")
    return len(want_pos) >= 2


def _do_slice_matrix(c, mon, mo, ao):
    A = gs.build(c["A"])
    D = gs.dense(c["A"])
    arg, lst = _idx_arg(c["idx"])
    mon.klass(f"slice_matrix:{A.format}:{c['idx']['kind']}")
    snap = _snapshot(A)
    S = mo.slice_sparse_matrix(A, arg)
    want = D[lst, :] if A.format == "csr" else D[:, lst]
    _same(mon, "slice_matrix", S.toarray(), want, "slice_sparse_matrix")
    if S.format != A.format:
        mon.violation("slice_sparse_matrix:format", {"got": S.format})
    _unchanged(mon, A, snap, "slice_sparse_matrix:argument-modified", "A")
    return S.nnz >= 2


def _do_sparse_blocks(c, mon, mo, ao):
    blocks = [gs.build(b) for b in c["blocks"]]
    dens = [gs.dense(b) for b in c["blocks"]]
    mon.klass(f"sparse_blocks:{c['target']}:" + "+".join(sorted({b['fmt'] for b in c['blocks']})))
    f = mo.csr_matrix_from_sparse_blocks if c["target"] == "csr" \
        else mo.csc_matrix_from_sparse_blocks
    M = f(list(blocks))
    _same(mon, "sparse_blocks", M.toarray(), _block_diag_dense(dens),
          "matrix_from_sparse_blocks")
    if M.format != c["target"]:
        mon.violation("matrix_from_sparse_blocks:format", {"got": M.format})
    return sum(gs.n_values(b) for b in c["blocks"]) >= 2


def _do_dense_blocks(c, mon, mo, ao):
    bs, nb = int(c["bs"]), int(c["nb"])
    data = np.asarray(c["data"], dtype=float)
    mon.klass(f"dense_blocks:{c['target']}:bs{bs}")
    f = mo.csr_matrix_from_dense_blocks if c["target"] == "csr" \
        else mo.csc_matrix_from_dense_blocks
    M = f(data.copy(), bs, nb)
    D = np.zeros((bs * nb, bs * nb))
    for b in range(nb):
        for i in range(bs):
            for j in range(bs):
                k = b * bs * bs + (i * bs + j if c["target"] == "csr" else j * bs + i)
                D[b * bs + i, b * bs + j] = data[k]
    _same(mon, "dense_blocks", M.toarray(), D, "matrix_from_dense_blocks")
    if M.format != c["target"]:
        mon.violation("matrix_from_dense_blocks:format", {"got": M.format})
    try:
        f(np.append(data, 1.0), bs, nb)
        mon.violation("matrix_from_dense_blocks:wrong-size-accepted", {})
    except ValueError:
        mon.count("rejections_observed")
    return data.size >= 2


def _do_dia_blocks(c, mon, mo, ao):
    diags = [np.asarray(d, dtype=float) for d in c["diags"]]
    blocks = [gs.build({"fmt": "dia", "diag": d}) for d in c["diags"]]
    mon.klass(f"dia_blocks:{len(blocks)}")
    M = mo.sparse_dia_from_sparse_blocks(blocks)
    _same(mon, "dia_blocks", M.toarray(), np.diag(np.concatenate(diags)),
          "sparse_dia_from_sparse_blocks")
    if M.format != "dia":
        mon.violation("sparse_dia_from_sparse_blocks:format", {"got": M.format})
    for bad in (sps.csr_matrix(np.eye(2)),
                sps.dia_matrix((np.ones((1, 3)), [1]), shape=(3, 3))):
        try:
            mo.sparse_dia_from_sparse_blocks(blocks + [bad])
            mon.violation("sparse_dia_from_sparse_blocks:bad-block-accepted", {})
        except ValueError:
            mon.count("rejections_observed")
    return sum(d.size for d in diags) >= 2


def _do_bd_matrix(c, mon, mo, ao):
    sz = [int(v) for v in c["sz"]]
    vals = np.asarray(c["vals"], dtype=float)
    zero = any(s == 0 for s in sz)
    mon.klass("block_diag_matrix" + (":zero-size-block" if zero else ""))
    n = sum(sz)
    D = np.zeros((n, n))
    k = o = 0
    for s in sz:
        D[o:o + s, o:o + s] = vals[k:k + s * s].reshape(s, s)
        k += s * s
        o += s
    mech = "block_diag_matrix:zero-size-block" if zero else "block_diag_matrix"
    M = mo.block_diag_matrix(vals.copy(), np.asarray(sz, dtype=int))
    try:
        got = M.toarray()
    except Exception as e:
        mon.violation(mech, {"what": "result storage unusable", "error": repr(e)})
        return True
    _same(mon, "block_diag_matrix", got, D, mech, {"sz": sz})
    return vals.size >= 2


def _do_bd_index(c, mon, mo, ao):
    m = [int(v) for v in c["m"]]
    zero = any(v == 0 for v in m) or (c["n"] is not None and any(int(v) == 0 for v in c["n"]))
    mech = "block_diag_index:zero-size-block" if zero else "block_diag_index"
    if c["n"] is None:
        mon.klass("block_diag_index:square" + (":zero-size-block" if zero else ""))
        want = []
        o = 0
        for s in m:
            for _ in range(s):
                want += list(range(o, o + s))
            o += s
        got = mo.block_diag_index(np.asarray(m, dtype=int))
        _same(mon, "block_diag_index_square", got, want, mech, {"m": m})
        return len(want) >= 2
    n = [int(v) for v in c["n"]]
    mon.klass("block_diag_index:rect" + (":zero-size-block" if zero else ""))
    wi, wj = [], []
    ro = co = 0
    for mb, nb in zip(m, n):
        for cc in range(nb):
            for rr in range(mb):
                wi.append(ro + rr)
                wj.append(co + cc)
        ro += mb
        co += nb
    i, j = mo.block_diag_index(np.asarray(m, dtype=int), np.asarray(n, dtype=int))
    _same(mon, "block_diag_index_i", i, wi, mech, {"m": m, "n": n})
    _same(mon, "block_diag_index_j", j, wj, mech, {"m": m, "n": n})
    return len(wi) >= 2


def _do_rlencode(c, mon, mo, ao):
    A = np.asarray(c["A"], dtype=int)
    mon.klass(f"rlencode:{A.shape[0]}rows")
    cols, num = [], []
    for k in range(A.shape[1]):
        if k and np.array_equal(A[:, k], A[:, k - 1]):
            num[-1] += 1
        else:
            cols.append(A[:, k])
            num.append(1)
    comp, n = mo.rlencode(A.copy())
    _same(mon, "rlencode_values", comp, np.array(cols).T, "rlencode")
    _same(mon, "rlencode_counts", n, num, "rlencode")
    # round trip (the decoder repeats along axis 0)
    back = mo.rldecode(np.asarray(comp).T, np.asarray(n)).T
    _same(mon, "rl_round_trip", back, A, "rlencode-rldecode-round-trip")
    mon.count("rldecode_calls")
    return A.shape[1] >= 2


def _do_rldecode(c, mon, mo, ao):
    A = np.asarray(c["A"])
    if A.size == 0:
        A = A.astype(int)
    n = np.asarray(c["n"], dtype=int)
    zero = bool(np.any(n == 0))
    mon.klass("rldecode:" + ("2d:" if A.ndim == 2 else "")
              + ("all-zero" if n.size and not np.any(n) else
                 "zero-count" if zero else "positive"))
    if zero:
        mon.count("rldecode:zero_count_cases")
    want = np.repeat(A, n, axis=0)
    got = mo.rldecode(A.copy(), n.copy())
    mon.count("rldecode_calls")
    _same(mon, "rldecode", got, want, "rldecode:zero-count" if zero else "rldecode",
          {"A": c["A"], "n": c["n"]})
    return n.size >= 2


def _do_eip(c, mon, mo, ao):
    lo = np.asarray(c["lo"], dtype=int)
    hi = np.asarray(c["hi"], dtype=int)
    L = list(lo) if lo.size != 1 else list(lo) * max(hi.size, 1)
    H = list(hi) if hi.size != 1 else list(hi) * max(lo.size, 1)
    if lo.size == 1 and hi.size == 1:
        L, H = list(lo), list(hi)
    want = [v for l, h in zip(L, H) for v in range(int(l), int(h))]
    mon.klass("expand_index_pointers:" + ("broadcast" if lo.size != hi.size else "same")
              + (":with-empty-interval" if any(h <= l for l, h in zip(L, H)) else "")
              + (":nothing" if not want else ""))
    got = ao.expand_index_pointers(lo.copy(), hi.copy())
    _same(mon, "expand_index_pointers", got, want, "expand_index_pointers",
          {"lo": c["lo"], "hi": c["hi"]})
    if lo.size > 1 and hi.size > 1:
        try:
            ao.expand_index_pointers(lo, np.append(hi, 3))
            mon.violation("expand_index_pointers:size-mismatch-accepted", {})
        except ValueError:
            mon.count("rejections_observed")
    return len(want) >= 2


def _do_nd(c, mon, mo, ao):
    ind = np.asarray(c["ind"], dtype=int)
    nd = int(c["nd"])
    mon.klass(f"expand_indices_nd:{c['order']}")
    if c["order"] == "F":
        want = [nd * int(i) + d for i in ind for d in range(nd)]
    else:
        want = [nd * int(i) + d for d in range(nd) for i in ind]
    got = ao.expand_indices_nd(ind.copy(), nd, c["order"])
    _same(mon, "expand_indices_nd", got, want, "expand_indices_nd")
    return ind.size >= 2


def _do_incr(c, mon, mo, ao):
    x = np.asarray(c["x"], dtype=int)
    n, inc = int(c["n"]), int(c["increment"])
    mon.klass("expand_indices_add_increment")
    want = [int(v) + k * inc for v in x for k in range(n)]
    got = ao.expand_indices_add_increment(x.copy(), n, inc)
    _same(mon, "expand_indices_add_increment", got, want, "expand_indices_add_increment")
    return x.size >= 2


def _do_kron(c, mon, mo, ao):
    A = gs.build(c["A"])
    D = gs.dense(c["A"])
    nd = int(c["nd"])
    mon.klass(f"kron:{A.format}:nd{nd}")
    M = mo.sparse_kronecker_product(A, nd)
    _same(mon, "kron", M.toarray(), np.kron(D, np.eye(nd)), "sparse_kronecker_product")
    return gs.n_values(c["A"]) >= 2


def _do_rcd(c, mon, mo, ao):
    A = gs.build(c["A"])
    D = gs.dense(c["A"])
    rm = bool(c["remove_nz"])
    mon.klass(f"row_col_data:{A.format}:" + ("remove_nz" if rm else "keep"))
    before = A.toarray()
    r, cc, v = mo.sparse_array_to_row_col_data(A, rm)
    R = np.zeros_like(D)
    ok = len(r) == len(cc) == len(v)
    if not ok:
        mon.violation("sparse_array_to_row_col_data:lengths", {})
        return True
    for i, j, x in zip(r, cc, v):
        R[int(i), int(j)] += x
    _same(mon, "row_col_data", R, D, "sparse_array_to_row_col_data")
    stored = np.asarray(c["A"]["data"], dtype=float)
    want_n = int(np.count_nonzero(stored)) if rm else stored.size
    if len(v) != want_n:
        mon.violation("sparse_array_to_row_col_data:entry-count",
                      {"got": len(v), "want": want_n, "remove_nz": rm})
    if rm and np.any(np.asarray(v) == 0):
        mon.violation("sparse_array_to_row_col_data:zero-not-removed", {})
    _same(mon, "row_col_data_arg_unchanged", A.toarray(), before,
          "sparse_array_to_row_col_data:argument-modified")
    return stored.size >= 2


_DO = {
    "zero_lines": _do_zero_lines, "merge": _do_merge, "stack_mat": _do_stack_mat,
    "stack_diag": _do_stack_diag, "slice_indices": _do_slice_indices,
    "slice_matrix": _do_slice_matrix, "sparse_blocks": _do_sparse_blocks,
    "dense_blocks": _do_dense_blocks, "dia_blocks": _do_dia_blocks,
    "block_diag_matrix": _do_bd_matrix, "block_diag_index": _do_bd_index,
    "rlencode": _do_rlencode, "rldecode": _do_rldecode, "expand_index_pointers": _do_eip,
    "expand_indices_nd": _do_nd, "expand_indices_add_increment": _do_incr,
    "kron": _do_kron, "row_col_data": _do_rcd,
}


def check(case, mon):
    mo, ao = _pp()
    op = case["op"]
    mon.count(f"op:{op}")
    nontrivial = _DO[op](case, mon, mo, ao)
    mon.nontrivial(bool(nontrivial))
