"""C28 Segment intersection agrees with exact arithmetic.

Monitor: every call of ``segments_2d`` / ``segments_3d`` made by the workload is recorded
(arguments, returned array) and decided by an exact rational reference
(``pvm.ref.c28_rational.seg_intersection``): kind none / point / segment, the points, and
- because every directed call order of a pair is compared with the same order-free
reference - independence of the argument order.

Quick tier: the 2-D function is enumerated exhaustively up to argument symmetry on the
integer box [-2,2]^2 (all 45 150 unordered pairs of unordered segments, each in the 4 call
orders identity / swap / reverse first / reverse second; the thorough tier uses all 8 orders
on [-3,3]^2, i.e. every ordered pair of directed segments); the 3-D function sees seeded
batches of integer pairs in [-3,3]^3 (uniform, forced collinear / parallel /
coplanar-crossing classes, 2-D configurations embedded by integer affine maps).
"""
from __future__ import annotations

import itertools

import numpy as np

from pvm.ref import c28_rational as R

PROP = "C28"
N = {"quick": 160, "thorough": 1500}
WORKERS = {"quick": 4, "thorough": 16}
TIMEOUT = {"quick": 300, "thorough": 3000}
CASE_TIMEOUT = 600.0
EXHAUSTIVE = {"quick": True, "thorough": True}
BATCH = {"quick": 250, "thorough": 700}
BOX3 = {"quick": 3, "thorough": 4}
RULE = ("floor = exhaustive enumeration of segments_2d over all unordered pairs of integer "
        "segments in [-2,2]^2 (quick, 4 call orders; thorough: [-3,3]^2 in all 8 orders = all "
        "ordered pairs of directed segments, plus all unordered pairs of [-4,4]^2 in one call "
        "order each), split in blocks, plus hand-written 3-D "
        "boundary pairs; generated = seeded batches of 3-D integer pairs in [-3,3]^3 "
        "([-4,4]^3 thorough): uniform, collinear (disjoint/touching/overlapping/contained/"
        "identical), parallel offset, coplanar X/T/L crossings, skew, non-parallel with a "
        "degenerate coordinate plane, 2-D configurations embedded by integer affine maps; "
        "each pair is called in 4 (quick) / 8 (floor, thorough 2-D) argument orders generating the "
        "symmetry group (swap, reverse first, reverse second). Zero-length segments "
        "are excluded (documented ValueError). non-trivial = batch contains at least one "
        "intersecting pair; distinct = hash of the batch description")
REACH = [
    ("geometry/intersections.py", "segments_2d"),
    ("geometry/intersections.py", "segments_3d"),
]
REACH_LINES = [
    # segments_2d: one marker per return statement that has a unique text
    ("geometry/intersections.py", 'logger.debug("Lines are not overlapping")'),
    ("geometry/intersections.py", 'logger.debug("Colinear lines share a single point")'),
    ("geometry/intersections.py", 'logger.debug("Colinear lines intersect along segment")'),
    ("geometry/intersections.py", 'logger.debug("Lines are not colinear")'),
    ("geometry/intersections.py", 'logger.debug("Segment intersection found in one point")'),
    # segments_3d
    ("geometry/intersections.py", "if np.any(mask_1 != mask_2):"),
    ("geometry/intersections.py", "dstart_x_delta_z = diff_start[0] * deltas_1[1]"),
    ("geometry/intersections.py", "lines = np.array([s_1, e_1, s_2, e_2])"),
    ("geometry/intersections.py", "z_1_isect = start_1[not_in_discr] + t_1 * deltas_1[not_in_discr]"),
    ("geometry/intersections.py", "return vec.reshape((-1, 1))"),
]
REQUIRED = {
    "calls_2d": 100000, "calls_3d": 50000,
    "2d:want:none": 1000, "2d:want:point": 1000, "2d:want:segment": 300,
    "3d:want:none": 1000, "3d:want:point": 1000, "3d:want:segment": 1000,
    "3d:rel:collinear-touching": 20, "3d:rel:collinear-disjoint": 20,
    "3d:rel:collinear-contained": 20, "3d:rel:parallel-offset": 20,
    "3d:rel:skew": 100, "3d:rel:coplanar-miss": 20, "3d:rel:X-interior": 20,
    "3d:rel:T-endpoint-interior": 20, "3d:rel:L-endpoint-endpoint": 20,
    "3d:degenerate-coordinate-pair-inputs": 20,
}
ASSUMPTIONS = [
    "integer coordinates: every degeneracy is exact or separated by >= 1/|box|^2, far from the 1e-8 tolerances of the code",
    "segments have positive length (zero-length input is a documented ValueError)",
    "a segment result is compared as an unordered pair of end points, points within 1e-9",
]
LEVEL_TEXT = ("segments_2d is decided exhaustively (up to argument symmetry) on every pair of "
              "integer segments of the box [-2,2]^2 (quick) / [-3,3]^2 (thorough) against exact "
              "rational arithmetic; segments_3d on seeded integer samples with forced "
              "degenerate classes, in 4-8 argument orders.")
TECHNIQUE = "reference-model monitor (exact rational segment intersection), exhaustive small box"
TOL = 1e-9


# ----------------------------------------------------------------------------- helpers

def _points(box, nd):
    return list(itertools.product(range(-box, box + 1), repeat=nd))


def _dsegs(box, nd=2):
    pts = _points(box, nd)
    return [(a, b) for a in pts for b in pts if a != b]


def _norm(res):
    if res is None:
        return ("none",)
    res = np.asarray(res, dtype=float)
    if res.ndim != 2 or res.shape[1] not in (1, 2):
        return ("malformed", res.shape)
    if res.shape[1] == 1:
        return ("point", res[:, 0])
    return ("segment", res[:, 0], res[:, 1])


def _err(got, want):
    """max-norm distance between got and want (same kind), segments unordered."""
    w = [np.array([float(v) for v in x]) for x in want[1:]]
    g = list(got[1:])
    if any(x.shape != w[0].shape for x in g):
        return float("inf")
    if len(w) == 1:
        return float(np.max(np.abs(g[0] - w[0])))
    e1 = max(np.max(np.abs(g[0] - w[0])), np.max(np.abs(g[1] - w[1])))
    e2 = max(np.max(np.abs(g[0] - w[1])), np.max(np.abs(g[1] - w[0])))
    return float(min(e1, e2))


def degenerate_coordinate_pair(a0, a1, b0, b1) -> bool:
    """Mechanism predicate on the INPUT of segments_3d: the directions are not parallel,
    but the first coordinate pair (i, j) in the order (0,1), (0,2), (1,2) in which both
    coordinates vary along at least one of the segments has a vanishing 2x2 determinant
    d1[i]*d2[j] - d1[j]*d2[i] (the projections on that coordinate plane are parallel or a
    point).  Symmetric under swapping / reversing the segments."""
    d1 = R.sub(a1, a0)
    d2 = R.sub(b1, b0)
    if R.is_zero(R.cross3(d1, d2)):
        return False
    ms = [(d1[k] != 0) or (d2[k] != 0) for k in range(3)]
    if ms[0] and ms[1]:
        i, j = 0, 1
    elif ms[0] and ms[2]:
        i, j = 0, 2
    else:
        i, j = 1, 2
    return d1[i] * d2[j] - d1[j] * d2[i] == 0


ORDERS8 = [(0, 1, 2, 3), (1, 0, 2, 3), (0, 1, 3, 2), (1, 0, 3, 2),
           (2, 3, 0, 1), (3, 2, 0, 1), (2, 3, 1, 0), (3, 2, 1, 0)]
ORDERS4 = [(0, 1, 2, 3), (2, 3, 0, 1), (1, 0, 2, 3), (0, 1, 3, 2)]


def _decide(mon, fn_name, fn, pts, want, rel, state):
    """Call the real function on one directed order and compare with the reference."""
    s1, e1, s2, e2 = pts
    nd = len(s1)
    tag = f"{nd}d"
    args = [np.array(p, dtype=float) for p in pts]
    mon.count(f"calls_{tag}")
    try:
        res = fn(*args)
    except Exception as exc:  # noqa: BLE001  (nothing is documented to raise here)
        mon.violation(f"{fn_name}:raised-{type(exc).__name__}",
                      {"args": [list(p) for p in pts], "error": str(exc)[:200], "relation": rel})
        return
    got = _norm(res)
    mon.count(f"{tag}:got:{got[0]}")
    ok = got[0] == want[0]
    err = None
    if ok and got[0] != "none":
        err = _err(got, want)
        state["maxerr"] = max(state["maxerr"], err)
        ok = err <= TOL
    if ok:
        return
    state["bad"] += 1
    detail = {"args": [list(p) for p in pts], "relation": rel,
              "got": [got[0]] + [list(map(float, x)) for x in got[1:]] if got[0] != "malformed" else list(got),
              "want": [want[0]] + [[str(v) for v in x] for x in want[1:]],
              "error": err}
    if nd == 3 and want[0] == "point" and got[0] == "none" and degenerate_coordinate_pair(s1, e1, s2, e2):
        # a point intersection is missed and the input satisfies the mechanism predicate
        mech = "segments_3d:degenerate-coordinate-pair"
    elif (nd == 3 and want[0] == "point" and got[0] == "segment" and rel == "collinear-touching"
          and _err(("segment", got[1], got[2]), ("segment", want[1], want[1])) <= TOL):
        mech = "segments_3d:collinear-touching-returned-as-zero-length-segment"
    elif got[0] != want[0]:
        mech = f"{fn_name}:{rel}:{want[0]}-reported-as-{got[0]}"
    else:
        mech = f"{fn_name}:{rel}:wrong-{want[0]}-coordinates"
    mon.violation(mech, detail)


def _pair(mon, fn_name, fn, a0, a1, b0, b1, orders, state):
    want = R.seg_intersection(a0, a1, b0, b1)
    rel = R.seg_relation(a0, a1, b0, b1, want)
    nd = len(a0)
    mon.count(f"{nd}d:want:{want[0]}")
    mon.count(f"{nd}d:rel:{rel}")
    mon.count(f"pairs_{nd}d")
    if nd == 3 and degenerate_coordinate_pair(a0, a1, b0, b1):
        mon.count("3d:degenerate-coordinate-pair-inputs")
        if want[0] != "none":
            mon.count("3d:degenerate-coordinate-pair-inputs-intersecting")
    if want[0] != "none":
        state["hits"] += 1
    base = (a0, a1, b0, b1)
    for o in orders:
        _decide(mon, fn_name, fn, tuple(base[k] for k in o), want, rel, state)


# ----------------------------------------------------------------------------- 3-D batches

_DIRS3 = [d for d in itertools.product(range(-2, 3), repeat=3) if any(d)]
_EMB = None


def _in_box(p, box):
    return all(-box <= x <= box for x in p)


def _gen_pair_3d(rng, box, mode):
    """One integer pair of the requested class inside the box (rejection sampling)."""
    for _ in range(2000):
        if mode == "uniform":
            P = rng.integers(-box, box + 1, size=(4, 3))
            a0, a1, b0, b1 = (tuple(int(v) for v in p) for p in P)
        elif mode == "collinear":
            p = tuple(int(v) for v in rng.integers(-box, box + 1, size=3))
            d = _DIRS3[int(rng.integers(len(_DIRS3)))]
            t = rng.integers(-2 * box, 2 * box + 1, size=4)
            if rng.random() < 0.3:      # force touching / shared end points
                t[2] = t[int(rng.integers(0, 2))]
            a0, a1, b0, b1 = (R.add(p, R.mul(d, int(k))) for k in t)
        elif mode == "parallel":
            P = rng.integers(-box, box + 1, size=(2, 3))
            a0, a1 = (tuple(int(v) for v in p) for p in P)
            d = R.sub(a1, a0)
            off = tuple(int(v) for v in rng.integers(-box, box + 1, size=3))
            k = int(rng.choice([-2, -1, 1, 2]))
            b0 = R.add(a0, off)
            b1 = R.add(b0, R.mul(d, k))
            if R.is_zero(R.cross3(off, d)):
                continue
        elif mode in ("crossing", "degenerate"):
            p = tuple(int(v) for v in rng.integers(-box, box + 1, size=3))
            d1 = _DIRS3[int(rng.integers(len(_DIRS3)))]
            if mode == "degenerate":
                # second direction differs from a multiple of d1 only in one coordinate
                k = int(rng.integers(0, 3))
                m = int(rng.choice([0, 1, -1, 2]))
                d2 = list(R.mul(d1, m))
                d2[k] += int(rng.choice([-2, -1, 1, 2]))
                d2 = tuple(d2)
            else:
                d2 = _DIRS3[int(rng.integers(len(_DIRS3)))]
            if R.is_zero(d2) or R.is_zero(R.cross3(d1, d2)):
                continue
            i, j = (int(v) for v in rng.integers(0, 3, size=2))
            k, l = (int(v) for v in rng.integers(0, 3, size=2))
            if rng.random() < 0.15:   # the lines cross outside one of the segments
                i = -int(rng.integers(1, 3))
                j = max(j, 1) - i
            a0, a1 = R.sub(p, R.mul(d1, i)), R.add(p, R.mul(d1, j))
            b0, b1 = R.sub(p, R.mul(d2, k)), R.add(p, R.mul(d2, l))
        elif mode == "embedded":
            q = rng.integers(-2, 3, size=(4, 2))
            o = tuple(int(v) for v in rng.integers(-1, 2, size=3))
            u = _DIRS3[int(rng.integers(len(_DIRS3)))]
            v = _DIRS3[int(rng.integers(len(_DIRS3)))]
            if R.is_zero(R.cross3(u, v)):
                continue
            a0, a1, b0, b1 = (R.add(o, R.add(R.mul(u, int(x)), R.mul(v, int(y)))) for x, y in q)
        else:
            raise ValueError(mode)
        if a0 == a1 or b0 == b1:
            continue
        if not all(_in_box(p_, box) for p_ in (a0, a1, b0, b1)):
            continue
        return a0, a1, b0, b1
    raise RuntimeError("generator could not produce a pair of class " + mode)


MODES = ["uniform", "collinear", "parallel", "crossing", "degenerate", "embedded"]

FLOOR_3D = [
    # witness of DESIGN section 3 (degenerate coordinate pair)
    [(2, 1, 0), (-2, -1, -3), (0, 0, -3), (0, 0, 1)],
    [(0, 0, 1), (0, 0, 2), (0, 0, 2), (-3, 1, 0)],
    [(0, 1, 0), (2, -1, -3), (3, -2, -1), (0, 1, -3)],
    # the existing test-suite configurations
    [(-1, -1, -1), (1, 1, -1), (1, -1, 1), (-1, 1, 1)],
    [(-1, 0, -1), (0, 0, 0), (1, -1, 1), (1, 1, 1)],
    [(0, 0, 0), (1, 0, 0), (0, 1, 0), (1, 1, 0)],
    [(1, 1, 1), (0, 0, 0), (2, 2, 2), (3, 3, 3)],
    [(-1, -1, 0), (-1, 1, 0), (-1, 0, -1), (-1, 0, 1)],
    [(1, 1, 1), (2, 2, 2), (0, 0, 0), (3, 3, 3)],
    [(1, 1, 1), (3, 3, 3), (0, 0, 0), (2, 2, 2)],
    [(0, 1, 1), (0, 3, 3), (0, 0, 0), (0, 2, 2)],
    [(1, 0, -1), (1, 0, 1), (2, 0, 0), (0, 0, 2)],
    # collinear touching in one point, axis aligned and oblique
    [(0, 0, 0), (1, 0, 0), (1, 0, 0), (2, 0, 0)],
    [(0, 0, 0), (1, 1, 1), (1, 1, 1), (3, 3, 3)],
    [(0, 0, 0), (1, 2, 0), (2, 4, 0), (1, 2, 0)],
    # identical, reversed, contained with a shared end point
    [(0, 0, 0), (2, 2, 0), (0, 0, 0), (2, 2, 0)],
    [(0, 0, 0), (2, 2, 0), (2, 2, 0), (0, 0, 0)],
    [(0, 0, 0), (3, 0, 0), (0, 0, 0), (1, 0, 0)],
    # parallel with equal masks but different ratios / not collinear
    [(0, 0, 0), (1, 2, 0), (0, 0, 0), (2, 1, 0)],
    [(0, 0, 0), (1, 1, 0), (0, 1, 0), (1, 2, 0)],
    [(0, 0, 0), (1, 1, 1), (0, 0, 1), (1, 1, 2)],
    # T and L and X
    [(0, 0, 0), (2, 0, 0), (1, 0, 0), (1, 1, 1)],
    [(0, 0, 0), (2, 0, 0), (2, 0, 0), (2, 1, 1)],
    [(-1, -1, -1), (1, 1, 1), (-1, 1, 0), (1, -1, 0)],
    # skew
    [(0, 0, 0), (1, 0, 0), (0, 1, 1), (0, 1, -1)],
]


def floor(tier):
    out = []
    # exhaustive 2-D enumeration, blocks over the first (directed) segment
    box = 2 if tier == "quick" else 3
    nblk = 48 if tier == "quick" else 192
    out += [{"fn": "2d-exhaustive", "box": box, "block": k, "of": nblk,
             "orders": 4 if tier == "quick" else 8} for k in range(nblk)]
    if tier == "thorough":
        out += [{"fn": "2d-unordered", "box": 4, "block": k, "of": 256} for k in range(256)]
    out.append({"fn": "3d-list", "pairs": [[list(p) for p in pr] for pr in FLOOR_3D]})
    # forced classes, fixed seeds: required counters cannot be missed by bad luck
    for k, mode in enumerate(MODES):
        out.append({"fn": "3d-batch", "box": 3, "mode": mode, "seed": 1000 + k, "n": 150})
    # the 2-D box embedded in the three coordinate planes and an oblique plane
    for k, (u, v) in enumerate([((1, 0, 0), (0, 1, 0)), ((1, 0, 0), (0, 0, 1)),
                                ((0, 1, 0), (0, 0, 1)), ((1, 1, 0), (0, 1, 1))]):
        out.append({"fn": "3d-embedded-sample", "u": list(u), "v": list(v), "o": [0, 0, k - 1],
                    "seed": 2000 + k, "n": 400})
    return out


def generate(rng, tier, i):
    mode = MODES[i % len(MODES)] if rng.random() < 0.8 else "uniform"
    return {"fn": "3d-batch", "box": BOX3[tier], "mode": mode,
            "seed": int(rng.integers(0, 2**31 - 1)), "n": BATCH[tier], "orders": 4}


def warmup():
    import porepy  # noqa: F401


def check(case, mon):
    from porepy.geometry.intersections import segments_2d, segments_3d

    fn = case["fn"]
    state = {"hits": 0, "bad": 0, "maxerr": 0.0}
    mon.klass(fn + (":" + case["mode"] if "mode" in case else ""))
    if fn == "2d-exhaustive":
        # unordered pairs {s_i, s_j}, i <= j, of unordered segments x 8 call orders
        # = every ordered pair of directed segments of the box
        pts = _points(int(case["box"]), 2)
        usegs = [(a, b) for ia, a in enumerate(pts) for b in pts[ia + 1:]]
        k, of = int(case["block"]), int(case["of"])
        for i in range(k, len(usegs), of):
            a0, a1 = usegs[i]
            for j in range(i, len(usegs)):
                b0, b1 = usegs[j]
                _pair(mon, "segments_2d", segments_2d, a0, a1, b0, b1,
                      ORDERS8 if case.get("orders", 8) == 8 else ORDERS4, state)
    elif fn == "2d-unordered":
        box = int(case["box"])
        pts = _points(box, 2)
        usegs = [(a, b) for ia, a in enumerate(pts) for b in pts[ia + 1:]]
        k, of = int(case["block"]), int(case["of"])
        for i in range(k, len(usegs), of):
            a0, a1 = usegs[i]
            for j in range(i, len(usegs)):
                b0, b1 = usegs[j]
                o = ORDERS8[(i * 31 + j * 17) % 8]
                _pair(mon, "segments_2d", segments_2d, a0, a1, b0, b1, [o], state)
    elif fn == "3d-list":
        for pr in case["pairs"]:
            a0, a1, b0, b1 = (tuple(int(v) for v in p) for p in pr)
            _pair(mon, "segments_3d", segments_3d, a0, a1, b0, b1, ORDERS8, state)
    elif fn == "3d-batch":
        rng = np.random.default_rng(int(case["seed"]))
        for _ in range(int(case["n"])):
            a0, a1, b0, b1 = _gen_pair_3d(rng, int(case["box"]), case["mode"])
            _pair(mon, "segments_3d", segments_3d, a0, a1, b0, b1,
                  ORDERS8 if case.get("orders", 8) == 8 else ORDERS4, state)
    elif fn == "3d-embedded-sample":
        rng = np.random.default_rng(int(case["seed"]))
        u, v, o = tuple(case["u"]), tuple(case["v"]), tuple(case["o"])
        segs = _dsegs(2, 2)
        for _ in range(int(case["n"])):
            (p0, p1), (q0, q1) = segs[int(rng.integers(len(segs)))], segs[int(rng.integers(len(segs)))]
            a0, a1, b0, b1 = (R.add(o, R.add(R.mul(u, x), R.mul(v, y))) for x, y in (p0, p1, q0, q1))
            _pair(mon, "segments_3d", segments_3d, a0, a1, b0, b1, ORDERS8, state)
    else:
        raise ValueError(fn)
    mon.nontrivial(state["hits"] > 0)
    mon.measure("max_point_error_per_batch", state["maxerr"])
    mon.measure("mismatching_calls_per_batch", state["bad"])
